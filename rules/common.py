"""helpers shared by the rule modules"""
import json, os, re
import mirlib
from mirlib import (CheckError, show, strip_refs, strip_casts, is_call, field_path, through_calls,
                    decision_rows, block_writes, writers_of, cons_dict, term_contains, short)

SPEC = os.path.join(os.path.dirname(os.path.abspath(__file__)), '..', 'spec')


def spec(name):
    with open(os.path.join(SPEC, name + '.json')) as fh:
        return json.load(fh)


def site(body, bb=None, stmt=None):
    if bb is None:
        return '%s:%s (%s)' % (body.file, body.line, short(body.path))
    return '%s (%s bb%d)' % (body.loc(bb, stmt), short(body.path), bb)


def const_str(t):
    """string/bytes constant behind refs/casts, else None"""
    t = strip_casts(t)
    if isinstance(t, tuple) and t and t[0] == 'const' and isinstance(t[1], (str, bytes)):
        return t[1]
    return None


def const_val(t):
    t = strip_casts(t)
    if isinstance(t, tuple) and t and t[0] == 'const':
        return t[1]
    return None


def constdef(t):
    """name of the const item an operand refers to (behind refs), else None"""
    t = strip_refs(t)
    if isinstance(t, tuple) and t and t[0] == 'constdef':
        return t[1]
    return None


def variant_of(writes):
    """from block_writes result: the single enum variant written, else None"""
    vs = [w for w in writes if w[0] == 'variant']
    if len(vs) == 1:
        return vs[0][2]
    return None


def find_terms(t, pred, out=None):
    """all sub-terms satisfying pred"""
    if out is None:
        out = []
    if pred(t):
        out.append(t)
    if isinstance(t, tuple):
        for x in t[1:]:
            if isinstance(x, tuple):
                find_terms(x, pred, out)
            elif isinstance(x, list):
                for y in x:
                    if isinstance(y, tuple):
                        find_terms(y, pred, out)
    return out


def mentions_field(t, name):
    return term_contains(t, lambda x: isinstance(x, tuple) and x and x[0] == 'field' and x[2] == name)


def mentions_call(t, pat=None, name=None):
    return term_contains(t, lambda x: is_call(x, pat, name))


def mentions_const(t, value):
    return term_contains(t, lambda x: isinstance(x, tuple) and x and x[0] == 'const' and x[1] == value)


def mentions_constdef(t, suffix):
    return term_contains(t, lambda x: isinstance(x, tuple) and x and x[0] == 'constdef' and (x[1] == suffix or x[1].endswith('::' + suffix)))


def call_sites_in_crate(crate, pat=None, name=None, skip_promoted=True):
    """[(body, bb, term)] over all bodies of a crate"""
    out = []
    for b in crate.bodies:
        if skip_promoted and b.kind == 'promoted':
            continue
        for bb, t in b.calls(pat, name):
            out.append((b, bb, t))
    return out


def const_init_calls(crate, const_suffix):
    """[(fn path, [arg terms])] of calls in a const's initialiser body, in order"""
    b = crate.body(const_suffix)
    out = []
    for bb, t in b.calls():
        out.append((t.get('fn'), [b.origin(a) for a in t['args']], t))
    return b, out


def header_name_value(crate, const_path):
    """string passed to HeaderName::from_static / HeaderValue::from_static in the initialiser of a const"""
    b, calls = const_init_calls(crate, const_path)
    for fn, args, t in calls:
        if t.get('name') == 'from_static' and args:
            s = const_str(args[0])
            if s is not None:
                return s
    raise CheckError('UNRECOGNISED: initialiser of %s is not a from_static(const) call' % const_path)


def token_of(cons):
    """reconstruct the string/bytes token a row matched: either `x == "tok"` (str eq) or a byte-slice pattern
    lowered to len == n plus x[i] == b constraints.  returns (token:str|None, subject)"""
    d = cons_dict(cons)
    for k, v in d.items():
        if v[0] == '==' and isinstance(v[1], (str, bytes)):
            tok = v[1] if isinstance(v[1], str) else v[1].decode('latin1')
            return tok, k
    lens = [(k, v[1]) for k, v in d.items() if v[0] == '==' and isinstance(v[1], int) and ('len(' in k or 'PtrMetadata' in k or k.startswith('un:PtrMetadata') or 'Len' in k)]
    idx = {}
    for k, v in d.items():
        m = re.search(r'\[const\((\d+)\)\]$', k)
        if m and v[0] == '==' and isinstance(v[1], int):
            idx[int(m.group(1))] = v[1]
    if idx:
        n = max(idx) + 1
        if all(i in idx for i in range(n)) and (not lens or lens[0][1] == n):
            return ''.join(chr(idx[i]) for i in range(n)), 'bytes'
    return None, None


def bool_guard(cons, pred):
    """value (True/False/None) of the boolean test whose subject satisfies pred(subject) in a row"""
    for s, op, v in cons:
        if pred(s):
            if op == '==' and v == 0:
                return False
            if op == 'notin' and 0 in v:
                return True
            if op == '==' and v not in (0,):
                return True
            if op == '!=' and v == 0:
                return True
    return None


def field_names(t):
    """field path of a term as a flat list; precise-capture upvar names (`_ref__self__config__x`) are expanded"""
    base, names = field_path(t)
    out = []
    for n in names:
        if isinstance(n, str) and '__' in n:
            parts = [p for p in n.split('__') if p and p not in ('_ref', '_ref_')]
            if parts and parts[0] in ('_ref',):
                parts = parts[1:]
            out.extend(parts)
        else:
            out.append(n)
    return out


def recv_place_fields(body, operand):
    """field names of the place a receiver operand borrows (`&mut a.b.c` -> ['b','c']), following one level of reborrow"""
    p = operand.get('cp') or operand.get('mv')
    if p is None:
        return []
    l = p['l']
    for _ in range(4):
        ds = body.defs().get(l, [])
        if len(ds) != 1 or ds[0][0] != 'stmt':
            return []
        rv = ds[0][3]
        if 'ref' in rv:
            f = mirlib.place_fields(rv['ref'])
            if f:
                return f
            l = rv['ref']['l']
            continue
        if 'use' in rv:
            sp = rv['use'].get('cp') or rv['use'].get('mv')
            if sp is None:
                return []
            f = mirlib.place_fields(sp)
            if f:
                return f
            l = sp['l']
            continue
        return []
    return []


def fmt_template(b):
    """decode the compact format_args template emitted by rustc (nightly): [len, bytes.., 0xc0 = argument, .. , 0x00 end]
    -> list of str pieces and the marker '{}'"""
    if not isinstance(b, (bytes, bytearray)):
        return None
    out = []
    i = 0
    while i < len(b):
        c = b[i]
        if c == 0:
            break
        if c >= 0xc0:
            out.append('{}')
            i += 1
            # argument descriptors may carry extra bytes when flags are set; 0xc0 alone = plain next argument
            continue
        if c < 0x80:
            out.append(b[i + 1:i + 1 + c].decode('utf8', 'replace'))
            i += 1 + c
            continue
        return None
    return out


def fmt_of(body, term_or_operand):
    """(template pieces, [argument origin terms]) of the fmt::Arguments feeding a format!() result"""
    t = term_or_operand
    calls = find_terms(t, lambda x: is_call(x, name='new') and 'fmt::Arguments' in x[1])
    if not calls:
        return None, []
    c = calls[0]
    tpl = fmt_template(const_val(c[2][0]))
    args = find_terms(c[2][1], lambda x: is_call(x, name='new_display') or is_call(x, name='new_debug'))
    return tpl, [a[2][0] for a in args]


def copy_field_agreement(R, rule, keyprefix, body, agg, src_pred=None):
    """every field of aggregate `agg` (from mirlib.aggregates) must be initialised from the same-named field of the source
    (clone / copy constructors).  Fields whose value does not derive from any field at all are skipped."""
    bb, i, p, a, ops = agg
    n = 0
    for fname, op in zip(a.get('fields', []), ops):
        v = body.origin(op)
        srcs = [x[2] for x in find_terms(v, lambda x: x and x[0] == 'field' and isinstance(x[2], str))]
        if not srcs:
            continue
        n += 1
        ok = fname in srcs
        R.check(ok, rule, '%s:%s' % (keyprefix, fname), site(body, bb, i), 'field %s of %s is initialised from %s' % (fname, (a.get('adt') or '').split('::')[-1], show(v)[:80]))
    return n


def on_every_path(t, pred):
    """does the value reach here through a sub-term satisfying pred on *every* alternative (phi = all, other nodes = any operand)?"""
    if pred(t):
        return True
    if not isinstance(t, tuple) or not t:
        return False
    kids = []
    for x in t[1:]:
        if isinstance(x, tuple):
            kids.append(x)
        elif isinstance(x, list):
            kids.extend(y for y in x if isinstance(y, tuple))
    if not kids:
        return False
    if t[0] == 'phi':
        return all(on_every_path(k, pred) for k in kids)
    return any(on_every_path(k, pred) for k in kids)


def option_or_default(term, field, default):
    """is term `self.<field>.unwrap_or(default)` in one of its spellings (unwrap_or call, or a match: phi of the Some payload and the constant)?"""
    t = strip_refs(term)
    if is_call(t, name='unwrap_or'):
        return mentions_field(t[2][0], field) and const_val(t[2][1]) == default
    if t and t[0] == 'phi':
        alts = [strip_refs(x) for x in t[1]]
        has_some = any(term_contains(a, lambda x: x and x[0] == 'variant' and x[2] == 'Some') and mentions_field(a, field) for a in alts)
        has_def = any(const_val(a) == default for a in alts)
        return has_some and has_def and len(alts) == 2
    return False


def limit_test(body, s, is_len, is_limit=None):
    """classify the switch at block s as a test `len <= limit`: returns dict(accept=[targets], reject=[targets], exact=bool, len=term, limit=term) or None.
    exact: a length equal to the limit is accepted and one above is rejected."""
    t = body.term(s)
    if t['k'] != 'switch':
        return None
    o = mirlib.norm_cmp(body.origin(t['on']))
    neg = False
    while o and o[0] == 'un' and o[1] == 'Not':
        o = mirlib.norm_cmp(o[2]); neg = not neg
    if not (o and o[0] == 'bin' and o[1] in ('Gt', 'Ge')):
        return None
    a, b_ = o[2], o[3]
    edges = body.switch_edges(s)
    true_t = [tg for tg, vals in edges.items() if vals == ['else'] or (0 not in vals and 'else' not in vals)]
    false_t = [tg for tg, vals in edges.items() if vals == [0]]
    if neg:
        true_t, false_t = false_t, true_t
    if is_len(a) and not is_len(b_):
        # len > limit (exact) | len >= limit (rejects len == limit)
        return dict(accept=false_t, reject=true_t, exact=(o[1] == 'Gt'), len=a, limit=b_, op=o[1])
    if is_len(b_) and not is_len(a):
        # limit >= len (exact) | limit > len (rejects len == limit)
        return dict(accept=true_t, reject=false_t, exact=(o[1] == 'Ge'), len=b_, limit=a, op=o[1] + '-swapped')
    return None
