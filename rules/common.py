"""helpers shared by the rule modules"""
import json, os, re
import mirlib
from mirlib import (CheckError, show, strip_refs, strip_casts, is_call, field_path, through_calls,
                    decision_rows, block_writes, writers_of, cons_dict, term_contains, short)

SPEC = os.path.join(os.path.dirname(os.path.abspath(__file__)), '..', 'spec')


def spec(name):
    with open(os.path.join(SPEC, name + '.json')) as fh:
        return json.load(fh)


def site(body, bb=None, stmt=None):
    if bb is None:
        return '%s:%s (%s)' % (body.file, body.line, short(body.path))
    return '%s (%s bb%d)' % (body.loc(bb, stmt), short(body.path), bb)


def const_str(t):
    """string/bytes constant behind refs/casts, else None"""
    t = strip_casts(t)
    if isinstance(t, tuple) and t and t[0] == 'const' and isinstance(t[1], (str, bytes)):
        return t[1]
    return None


def const_val(t):
    t = strip_casts(t)
    if isinstance(t, tuple) and t and t[0] == 'const':
        return t[1]
    return None


def constdef(t):
    """name of the const item an operand refers to (behind refs), else None"""
    t = strip_refs(t)
    if isinstance(t, tuple) and t and t[0] == 'constdef':
        return t[1]
    return None


def variant_of(writes):
    """from block_writes result: the single enum variant written, else None"""
    vs = [w for w in writes if w[0] == 'variant']
    if len(vs) == 1:
        return vs[0][2]
    return None


def find_terms(t, pred, out=None):
    """all sub-terms satisfying pred"""
    if out is None:
        out = []
    if pred(t):
        out.append(t)
    if isinstance(t, tuple):
        for x in t[1:]:
            if isinstance(x, tuple):
                find_terms(x, pred, out)
            elif isinstance(x, list):
                for y in x:
                    if isinstance(y, tuple):
                        find_terms(y, pred, out)
    return out


def mentions_field(t, name):
    return term_contains(t, lambda x: isinstance(x, tuple) and x and x[0] == 'field' and x[2] == name)


def mentions_call(t, pat=None, name=None):
    return term_contains(t, lambda x: is_call(x, pat, name))


def mentions_const(t, value):
    return term_contains(t, lambda x: isinstance(x, tuple) and x and x[0] == 'const' and x[1] == value)


def mentions_constdef(t, suffix):
    return term_contains(t, lambda x: isinstance(x, tuple) and x and x[0] == 'constdef' and (x[1] == suffix or x[1].endswith('::' + suffix)))


def call_sites_in_crate(crate, pat=None, name=None, skip_promoted=True):
    """[(body, bb, term)] over all bodies of a crate"""
    out = []
    for b in crate.bodies:
        if skip_promoted and b.kind == 'promoted':
            continue
        for bb, t in b.calls(pat, name):
            out.append((b, bb, t))
    return out


def const_init_calls(crate, const_suffix):
    """[(fn path, [arg terms])] of calls in a const's initialiser body, in order"""
    b = crate.body(const_suffix)
    out = []
    for bb, t in b.calls():
        out.append((t.get('fn'), [b.origin(a) for a in t['args']], t))
    return b, out


def header_name_value(crate, const_path):
    """string passed to HeaderName::from_static / HeaderValue::from_static in the initialiser of a const"""
    b, calls = const_init_calls(crate, const_path)
    for fn, args, t in calls:
        if t.get('name') == 'from_static' and args:
            s = const_str(args[0])
            if s is not None:
                return s
    raise CheckError('UNRECOGNISED: initialiser of %s is not a from_static(const) call' % const_path)


def token_of(cons):
    """reconstruct the string/bytes token a row matched: either `x == "tok"` (str eq) or a byte-slice pattern
    lowered to len == n plus x[i] == b constraints.  returns (token:str|None, subject)"""
    d = cons_dict(cons)
    for k, v in d.items():
        if v[0] == '==' and isinstance(v[1], (str, bytes)):
            tok = v[1] if isinstance(v[1], str) else v[1].decode('latin1')
            return tok, k
    lens = [(k, v[1]) for k, v in d.items() if v[0] == '==' and isinstance(v[1], int) and ('len(' in k or 'PtrMetadata' in k or k.startswith('un:PtrMetadata') or 'Len' in k)]
    idx = {}
    for k, v in d.items():
        m = re.search(r'\[const\((\d+)\)\]$', k)
        if m and v[0] == '==' and isinstance(v[1], int):
            idx[int(m.group(1))] = v[1]
    if idx:
        n = max(idx) + 1
        if all(i in idx for i in range(n)) and (not lens or lens[0][1] == n):
            return ''.join(chr(idx[i]) for i in range(n)), 'bytes'
    return None, None


def bool_guard(cons, pred):
    """value (True/False/None) of the boolean test whose subject satisfies pred(subject) in a row"""
    for s, op, v in cons:
        if pred(s):
            if op == '==' and v == 0:
                return False
            if op == 'notin' and 0 in v:
                return True
            if op == '==' and v not in (0,):
                return True
            if op == '!=' and v == 0:
                return True
    return None


def field_names(t):
    """field path of a term as a flat list; precise-capture upvar names (`_ref__self__config__x`) are expanded"""
    base, names = field_path(t)
    out = []
    for n in names:
        if isinstance(n, str) and '__' in n:
            parts = [p for p in n.split('__') if p and p not in ('_ref', '_ref_')]
            if parts and parts[0] in ('_ref',):
                parts = parts[1:]
            out.extend(parts)
        else:
            out.append(n)
    return out


def recv_place_fields(body, operand):
    """field names of the place a receiver operand borrows (`&mut a.b.c` -> ['b','c']), following one level of reborrow"""
    p = operand.get('cp') or operand.get('mv')
    if p is None:
        return []
    l = p['l']
    for _ in range(4):
        ds = body.defs().get(l, [])
        if len(ds) != 1 or ds[0][0] != 'stmt':
            return []
        rv = ds[0][3]
        if 'ref' in rv:
            f = mirlib.place_fields(rv['ref'])
            if f:
                return f
            l = rv['ref']['l']
            continue
        if 'use' in rv:
            sp = rv['use'].get('cp') or rv['use'].get('mv')
            if sp is None:
                return []
            f = mirlib.place_fields(sp)
            if f:
                return f
            l = sp['l']
            continue
        return []
    return []


def fmt_template(b):
    """decode the compact format_args template emitted by rustc (nightly): [len, bytes.., 0xc0 = argument, .. , 0x00 end]
    -> list of str pieces and the marker '{}'"""
    if not isinstance(b, (bytes, bytearray)):
        return None
    out = []
    i = 0
    while i < len(b):
        c = b[i]
        if c == 0:
            break
        if c >= 0xc0:
            out.append('{}')
            i += 1
            # argument descriptors may carry extra bytes when flags are set; 0xc0 alone = plain next argument
            continue
        if c < 0x80:
            out.append(b[i + 1:i + 1 + c].decode('utf8', 'replace'))
            i += 1 + c
            continue
        return None
    return out


def fmt_of(body, term_or_operand):
    """(template pieces, [argument origin terms]) of the fmt::Arguments feeding a format!() result"""
    t = term_or_operand
    calls = find_terms(t, lambda x: is_call(x, name='new') and 'fmt::Arguments' in x[1])
    if not calls:
        return None, []
    c = calls[0]
    tpl = fmt_template(const_val(c[2][0]))
    args = find_terms(c[2][1], lambda x: is_call(x, name='new_display') or is_call(x, name='new_debug'))
    return tpl, [a[2][0] for a in args]


def copy_field_agreement(R, rule, keyprefix, body, agg, src_pred=None):
    """every field of aggregate `agg` (from mirlib.aggregates) must be initialised from the same-named field of the source
    (clone / copy constructors).  Fields whose value does not derive from any field at all are skipped."""
    bb, i, p, a, ops = agg
    n = 0
    for fname, op in zip(a.get('fields', []), ops):
        v = body.origin(op)
        srcs = [x[2] for x in find_terms(v, lambda x: x and x[0] == 'field' and isinstance(x[2], str))]
        if not srcs:
            continue
        n += 1
        ok = fname in srcs
        R.check(ok, rule, '%s:%s' % (keyprefix, fname), site(body, bb, i), 'field %s of %s is initialised from %s' % (fname, (a.get('adt') or '').split('::')[-1], show(v)[:80]))
    return n


def on_every_path(t, pred):
    """does the value reach here through a sub-term satisfying pred on *every* alternative (phi = all, other nodes = any operand)?"""
    if pred(t):
        return True
    if not isinstance(t, tuple) or not t:
        return False
    kids = []
    for x in t[1:]:
        if isinstance(x, tuple):
            kids.append(x)
        elif isinstance(x, list):
            kids.extend(y for y in x if isinstance(y, tuple))
    if not kids:
        return False
    if t[0] == 'phi':
        return all(on_every_path(k, pred) for k in kids)
    return any(on_every_path(k, pred) for k in kids)


def option_or_default(term, field, default):
    """is term `self.<field>.unwrap_or(default)` in one of its spellings (unwrap_or call, or a match: phi of the Some payload and the constant)?"""
    t = strip_refs(term)
    if is_call(t, name='unwrap_or'):
        return mentions_field(t[2][0], field) and const_val(t[2][1]) == default
    if t and t[0] == 'phi':
        alts = [strip_refs(x) for x in t[1]]
        has_some = any(term_contains(a, lambda x: x and x[0] == 'variant' and x[2] == 'Some') and mentions_field(a, field) for a in alts)
        has_def = any(const_val(a) == default for a in alts)
        return has_some and has_def and len(alts) == 2
    return False


def limit_test(body, s, is_len, is_limit=None):
    """classify the switch at block s as a test `len <= limit`: returns dict(accept=[targets], reject=[targets], exact=bool, len=term, limit=term) or None.
    exact: a length equal to the limit is accepted and one above is rejected."""
    t = body.term(s)
    if t['k'] != 'switch':
        return None
    o = mirlib.norm_cmp(body.origin(t['on']))
    neg = False
    while o and o[0] == 'un' and o[1] == 'Not':
        o = mirlib.norm_cmp(o[2]); neg = not neg
    if not (o and o[0] == 'bin' and o[1] in ('Gt', 'Ge')):
        return None
    a, b_ = o[2], o[3]
    edges = body.switch_edges(s)
    true_t = [tg for tg, vals in edges.items() if vals == ['else'] or (0 not in vals and 'else' not in vals)]
    false_t = [tg for tg, vals in edges.items() if vals == [0]]
    if neg:
        true_t, false_t = false_t, true_t
    if is_len(a) and not is_len(b_):
        # len > limit (exact) | len >= limit (rejects len == limit)
        return dict(accept=false_t, reject=true_t, exact=(o[1] == 'Gt'), len=a, limit=b_, op=o[1])
    if is_len(b_) and not is_len(a):
        # limit >= len (exact) | limit > len (rejects len == limit)
        return dict(accept=true_t, reject=false_t, exact=(o[1] == 'Ge'), len=b_, limit=a, op=o[1] + '-swapped')
    return None


# ---------------------------------------------------------------- byte layout of writes into a slice (message prefix)
def slice_region(term):
    """(root term, start, end|None) of a sub-slice expression built from constant ranges / split_at_mut of a root slice"""
    t = strip_refs(mirlib.simplify(term))
    if t is None or not t:
        return None
    if t[0] == 'arg' or t[0] == 'local':
        return (t, 0, None)
    if t[0] == 'cast':
        return slice_region(t[2])
    if is_call(t) and t[3] in ('index_mut', 'index') and len(t[2]) == 2:
        base = slice_region(t[2][0])
        rng = strip_refs(t[2][1])
        if base is None or rng[0] != 'agg':
            return None
        root, s, e = base
        adt = rng[1].get('adt', '')
        vals = [const_val(x) for x in rng[2]]
        if any(not isinstance(v, int) for v in vals):
            return None
        if adt.endswith('RangeTo'):
            return (root, s, s + vals[0])
        if adt.endswith('RangeFrom'):
            return (root, s + vals[0], e)
        if adt.endswith('RangeFull'):
            return (root, s, e)
        if adt.endswith('::Range'):
            return (root, s + vals[0], s + vals[1])
        if adt.endswith('RangeToInclusive'):
            return (root, s, s + vals[0] + 1)
        return None
    if t[0] == 'field' and str(t[2]) in ('0', '1') and is_call(strip_refs(t[1]), name='split_at_mut'):
        c = strip_refs(t[1])
        base = slice_region(c[2][0])
        k = const_val(c[2][1])
        if base is None or not isinstance(k, int):
            return None
        root, s, e = base
        return (root, s, s + k) if str(t[2]) == '0' else (root, s + k, e)
    if is_call(t) and t[3] in ('deref_mut', 'deref', 'as_mut', 'as_mut_slice', 'borrow_mut') and t[2]:
        return slice_region(t[2][0])
    if is_call(t) and t[3] in ('with_capacity', 'new') and re.search(r'(BytesMut|Vec)', t[1] or ''):
        return (t, 0, None)  # a fresh, empty buffer: appends start at offset 0
    return None


def _bytes_of(term):
    """(width, endian, value) for x.to_be_bytes()/to_le_bytes() behind refs/unsize casts, else None"""
    tb = [x for x in find_terms(term, lambda x: is_call(x) and x[3] in ('to_be_bytes', 'to_le_bytes', 'to_ne_bytes'))]
    if not tb:
        return None
    ty = tb[0][4].get('fn') or ''
    width = 4 if 'u32' in ty or 'i32' in ty else (8 if '64' in ty else (2 if '16' in ty else (1 if 'u8' in ty else None)))
    return width, {'to_be_bytes': 'be', 'to_le_bytes': 'le', 'to_ne_bytes': 'ne'}[tb[0][3]], tb[0][2][0]


PUT_WIDTH = {'put_u8': (1, 'be'), 'put_i8': (1, 'be'), 'put_u16': (2, 'be'), 'put_u32': (4, 'be'), 'put_u64': (8, 'be'),
             'put_u16_le': (2, 'le'), 'put_u32_le': (4, 'le'), 'put_u64_le': (8, 'le'), 'put_u32_ne': (4, 'ne')}


def prefix_layout(body):
    """every write into a byte slice in `body`: list of dict(off, width, endian, value, bb, how, root) — cursor writes
    (BufMut::put_*: consecutive offsets from the start of the cursor's slice, in dominance order), indexed stores
    `s[i] = v` and `s.copy_from_slice(&x.to_be_bytes())`; off/width are None when not constant"""
    out = []
    cursors = {}
    puts = body.calls(pat='BufMut::put_') + [(bb, t) for bb, t in body.calls(name='extend_from_slice') if re.search(r'BytesMut|Vec', (t.get('fn') or '') + str(t.get('self_ty')))]
    puts.sort(key=lambda x: len(body.dominators().get(x[0], ())))
    for bb, t in puts:
        dst = body.origin(t['args'][0])
        reg = slice_region(dst)
        key = show(reg[0]) + ':%s' % reg[1] if reg else show(dst)[:80]
        start = reg[1] if reg else None
        off = cursors.get(key, start)
        nm = t.get('name')
        v = body.origin(t['args'][1]) if len(t['args']) > 1 else ('x',)
        if nm in PUT_WIDTH:
            w, e = PUT_WIDTH[nm]
        elif nm in ('put_slice', 'put', 'extend_from_slice'):
            bo = _bytes_of(v)
            w, e, v = bo if bo else (None, '?', v)
        else:
            w, e = None, '?'
        out.append(dict(off=off, width=w, endian=e, value=v, bb=bb, how=nm, root=reg[0] if reg else None, end=reg[2] if reg else None))
        cursors[key] = (off + w) if (off is not None and w is not None) else None
    for bb, t in body.calls(name='copy_from_slice'):
        reg = slice_region(body.origin(t['args'][0]))
        bo = _bytes_of(body.origin(t['args'][1]))
        w, e, v = bo if bo else (None, '?', body.origin(t['args'][1]))
        out.append(dict(off=reg[1] if reg else None, width=w, endian=e, value=v, bb=bb, how='copy_from_slice', root=reg[0] if reg else None, end=reg[2] if reg else None))
    for bb in sorted(body.live_blocks()):
        for i, st in enumerate(body.blocks[bb]['stmts']):
            pr = st.get('p', {}).get('pr') if 'p' in st else None
            if not pr or not isinstance(pr[-1], dict) or not ('ix' in pr[-1] or 'ci' in pr[-1]):
                continue
            basety = body.ty(st['p']['l'])
            if '[u8]' not in basety and 'u8;' not in basety:
                continue
            reg = slice_region(body.origin({'l': st['p']['l'], 'pr': pr[:-1]}) if len(pr) > 1 else body.origin(st['p']['l']))
            if 'ix' in pr[-1]:
                ix = const_val(body.origin(pr[-1]['ix']))
            else:
                ix = pr[-1]['ci'] if not pr[-1].get('end') else None
            off = reg[1] + ix if (reg and isinstance(ix, int)) else None
            out.append(dict(off=off, width=1, endian='be', value=body._origin_def(('stmt', bb, i, st['rv']), 0, set()), bb=bb, how='index-store', root=reg[0] if reg else None, end=reg[2] if reg else None))
    out.sort(key=lambda d: (d['off'] is None, d['off'] or 0))
    return out


def bool_source(term):
    """term is a 0/1 byte made from a bool: `b as u8` or `u8::from(b)`; returns the bool term or None"""
    t = strip_refs(term)
    if t and t[0] == 'cast' and t[1] == 'IntToInt':
        return strip_refs(t[2])
    if is_call(t, name='from') and len(t[2]) == 1 and 'bool' in str(t[4].get('ga')) + str(t[4].get('resolved')):
        return strip_refs(t[2][0])
    if is_call(t, name='into') and len(t[2]) == 1 and 'bool' in str(t[4].get('ga')):
        return strip_refs(t[2][0])
    return None


def payload_len_source(term):
    """strip lossless/checked conversions (as u32 after a range check, u32::try_from(..) Ok payload, unwrap) from a length value"""
    t = strip_refs(mirlib.simplify(term))
    for _ in range(8):
        if t and t[0] == 'cast':
            t = strip_refs(t[2]); continue
        if t and t[0] == 'field' and t[1] and t[1][0] == 'variant' and t[1][2] in ('Ok', 'Some'):
            t = strip_refs(t[1][1]); continue
        if is_call(t) and t[3] in ('try_from', 'try_into', 'unwrap', 'expect', 'from', 'into') and t[2]:
            t = strip_refs(t[2][0]); continue
        break
    return t


def is_payload_len(term, slice_n, hs):
    """does term contain the payload length of the frame slice (parameter number slice_n): slice.len() - HEADER_SIZE, or the
    length of the tail of slice.split_at[_mut](HEADER_SIZE) / of slice[HEADER_SIZE..]"""
    def sub(y):
        return (y and y[0] == 'bin' and y[1] in ('SubWithOverflow', 'Sub', 'SubUnchecked') and const_val(y[3]) == hs
                and find_terms(y[2], lambda z: is_call(z, name='len') and arg_root(z[2][0]) == slice_n))
    def tail(y):
        if not is_call(y, name='len'):
            return False
        a = strip_refs(y[2][0])
        if a and a[0] == 'field' and str(a[2]) in ('1', '.1'):
            c = strip_refs(a[1])
            return bool(is_call(c) and c[3] in ('split_at_mut', 'split_at') and arg_root(c[2][0]) == slice_n and const_val(c[2][1]) == hs)
        return False
    return bool(find_terms(term, lambda y: sub(y) or tail(y)))


# ---------------------------------------------------------------- parameters by type / role instead of position
def params_of_type(body, pat):
    """argument numbers (1-based) of body whose declared type matches regex pat"""
    rx = re.compile(pat) if isinstance(pat, str) else pat
    return [n for n in range(1, body.argc + 1) if rx.search(body.ty(n))]


def param_of_type(body, pat):
    r = params_of_type(body, pat)
    if len(r) != 1:
        raise CheckError('UNRECOGNISED: %d parameters of %s have a type matching %r' % (len(r), body.path, getattr(pat, 'pattern', pat)))
    return r[0]


def arg_root(term):
    """the argument number a (possibly projected / reborrowed) term is rooted in, else None"""
    t = term
    for _ in range(40):
        if not isinstance(t, tuple) or not t:
            return None
        if t[0] == 'arg':
            return t[1]
        if t[0] in ('ref', 'deref', 'field', 'variant', 'index'):
            t = t[1]
        elif t[0] == 'cast':
            t = t[2]
        elif is_call(t) and t[3] in ('deref', 'deref_mut', 'as_mut', 'as_ref', 'borrow', 'borrow_mut', 'as_pin_mut', 'index', 'index_mut', 'get_mut') and t[2]:
            t = t[2][0]
        else:
            return None
    return None


def mentions_arg(term, n):
    return term_contains(term, lambda x: isinstance(x, tuple) and x and x[0] == 'arg' and x[1] == n)


def resolve_env(crate, body, term, depth=0, within=None):
    """replace the captured variables of a closure/coroutine body (`env.<name>`) by what the parent stored in the capture
    when it built the closure (so `let limit = self.config.x; move |..| f(limit)` is seen as f(self.config.x))"""
    if depth > 3 or body.kind not in ('closure', 'coroutine') or not body.parent:
        return term
    is_env = lambda x: isinstance(x, tuple) and len(x) == 3 and x[0] == 'field' and x[1] in (('env',), ('deref', ('env',)))
    if not term_contains(term, is_env):
        return term
    try:
        parent = crate.body(re.compile('^' + re.escape(body.parent) + '$'))
    except CheckError:
        # the function the closure was written in is gone (a new helper spliced into its callers): the body that now builds it
        idx = getattr(crate, '_closure_builders', None)
        if idx is None:
            idx = {}
            for bd in crate.bodies:
                if bd.kind == 'promoted':
                    continue
                for blk in bd.blocks:
                    for st in blk['stmts']:
                        a_ = (st.get('rv') or {}).get('agg') if isinstance(st.get('rv'), dict) else None
                        if a_ and a_.get('kind') in ('closure', 'coroutine', 'coroutine_closure') and a_.get('def'):
                            idx.setdefault(a_['def'], []).append(bd)
            crate._closure_builders = idx
        bl = [x for x in idx.get(body.path, []) if x is not body]
        if len(bl) > 1 and within is not None:
            bl = [x for x in bl if any(x is w_ for w_ in within)]
        if len(bl) != 1:
            return term
        parent = bl[0]
    caps = {}
    for bb, i, p, a, ops in mirlib.aggregates(parent):
        if a.get('kind') in ('closure', 'coroutine', 'coroutine_closure') and a.get('def') == body.path:
            for nm, op in zip(a.get('fields') or [], ops):
                caps[nm] = resolve_env(crate, parent, parent.origin(op), depth + 1, within)
    if not caps:
        return term

    def sub(t):
        if isinstance(t, tuple):
            if is_env(t) and t[2] in caps:
                return caps[t[2]]
            return tuple(sub(x) for x in t)
        if isinstance(t, list):
            return [sub(x) for x in t]
        return t
    return sub(term)


def through_getters(crate, term, depth=0):
    """replace calls of crate-local projection functions (`fn into_headers(self) -> HeaderMap { self.headers }`: the single returned
    term is a field path over the first parameter, nothing else happens) by the field path they denote at the call site"""
    if depth > 3:
        return term
    def proj(fn):
        c = getattr(crate, '_getter_cache', None)
        if c is None:
            c = crate._getter_cache = {}
        if fn not in c:
            c[fn] = None
            bs = [b for b in crate.bodies if b.path == fn and b.kind not in ('promoted', 'closure', 'coroutine')]
            if len(bs) == 1 and not bs[0].calls():
                rt = mirlib.returned_terms(bs[0])
                if len(rt) == 1:
                    t = strip_refs(rt[0][1])
                    names = []
                    while isinstance(t, tuple) and t and t[0] in ('field', 'deref', 'ref'):
                        if t[0] == 'field':
                            names.append(t[2])
                        t = t[1]
                    if isinstance(t, tuple) and t[:2] == ('arg', 1) and names:
                        c[fn] = list(reversed(names))
        return c[fn]
    def sub(t):
        if isinstance(t, tuple):
            if is_call(t) and isinstance(t[1], str) and t[2]:
                names = proj(t[1])
                if names:
                    base = sub(t[2][0])
                    for n in names:
                        base = ('field', base, n)
                    return base
            return tuple(sub(x) for x in t)
        if isinstance(t, list):
            return [sub(x) for x in t]
        return t
    return sub(term)


def mentions_local_named(b, term, name):
    """does the term mention a local / argument / projection carrying source name `name`?"""
    def pred(x):
        if not isinstance(x, tuple) or not x:
            return False
        if x[0] == 'arg' and x[2] == name:
            return True
        if x[0] == 'field' and x[2] == name:
            return True
        if x[0] == 'local' and b.name_of(x[1]) == name:
            return True
        return False
    return term_contains(term, pred)


def check_stash_replay_first(R, tonic, rule):
    """EncodedBytes::poll_next: a status parked behind already-encoded frames (the Option<Status> field) is what the next poll returns,
    before the message source is polled again — the stream ends at its first error.  Decided structurally: one take of the parked
    status dominates every poll of the source, and when it yields Some no feasible path reaches a poll of the source."""
    b = tonic.body(re.compile(r'codec::encode::EncodedBytes<T, U> as .*Stream>::poll_next$'))
    R.saw(b)
    sadt = tonic.adt('codec::encode::EncodedBytes')
    sf = [f['n'] for f in sadt['variants'][0]['fields'] if re.search(r'Option<(crate::|tonic::)?(status::)?Status>$', f['ty'])]
    if len(sf) != 1:
        raise CheckError('UNRECOGNISED: EncodedBytes has %d Option<Status> fields' % len(sf))
    sp = b.calls(pat='Stream::poll_next')
    if not sp:
        raise CheckError('ANCHOR-MISSING: no poll of the message source in EncodedBytes::poll_next')
    parked = lambda t_: mentions_field(t_, sf[0]) or mentions_local_named(b, t_, sf[0])
    takes = [(bb, t) for bb, t in b.calls() if t.get('name') in ('take', 'replace') and t['args'] and parked(b.origin(t['args'][0]))]
    good = []
    for bb, t in takes:
        if not all(b.dominates(bb, x) for x, _ in sp):
            continue
        after_some = b.reach_ps(t['t'], know0={t['dest']['l']: ('v', 'Some', None)})
        if not any(x in after_some for x, _ in sp):
            good.append(bb)
    R.check(bool(good), rule, 'parked-error-replayed-before-source', site(b, good[0]) if good else site(b, sp[0][0]),
            'the parked status (%s) is taken and returned before the source is polled again: %d take site(s), %d of them ahead of every source poll with no poll after Some '
            '(otherwise items the handler yields after an Err are still sent, and the error can be overwritten)' % (sf[0], len(takes), len(good)))


def into_http_line(body, t):
    """the request line and the sanitise flag handed to Request::into_http at call term t: {'uri','method','version','sanitize'} as origin
    terms — whether they are passed as separate arguments or bundled in a struct (fields uri / method / version) built by the caller"""
    args = t['args']
    out = {'sanitize': body.origin(args[-1])}
    if len(args) >= 5:
        out.update(uri=body.origin(args[1]), method=body.origin(args[2]), version=body.origin(args[3]))
        return out
    for a_ in args[1:]:
        ag = strip_refs(mirlib.simplify(body.origin(a_)))
        if ag and ag[0] == 'agg' and {'uri', 'method', 'version'} <= set(ag[1].get('fields') or []):
            out.update({n_: ag[2][ag[1]['fields'].index(n_)] for n_ in ('uri', 'method', 'version')})
            return out
    raise CheckError('UNRECOGNISED: Request::into_http is called with %d arguments and none is a struct of uri / method / version built at the call site (%s)' % (len(args), body.path))


def check_partial_frame_cut(R, tonic, rule):
    """EncodedBytes::poll_next: whatever made encode_item fail (size limit, the codec's own encode error, the compressor), the header
    placeholder and partial payload it left in the output buffer are cut off before anything is flushed, returned or polled"""
    b = tonic.body(re.compile(r'codec::encode::EncodedBytes<T, U> as .*Stream>::poll_next$'))
    R.saw(b)
    # failure arm of encode_item: truncate to the offset saved before the call
    eb, et = b.call1(name='encode_item')
    # what can follow a failed encode_item (its result known to be Err on the path), without passing a truncate
    dest = et['dest']['l']
    truncs = [(x, t) for x, t in b.calls(name='truncate') if mentions_local_named(b, b.origin(t['args'][0]), encode_buf_field(tonic))]
    after_fail = b.reach_ps(et['t'], know0={dest: ('v', 'Err', None)})
    uncut = b.reach_ps(et['t'], know0={dest: ('v', 'Err', None)}, removed={x for x, _ in truncs})
    exits = [x for x in sorted(uncut) if b.term(x)['k'] == 'ret' or (b.term(x)['k'] == 'call' and b.term(x).get('name') in ('split_to', 'split', 'poll_next', 'encode_item') and x != eb)]
    R.check(bool(truncs) and not exits, rule, 'partial-frame-cut', site(b, exits[0]) if exits else site(b, eb),
            'after a failed encode_item every path to a flush, a return or the next poll first cuts the partial frame off (truncate sites %d; uncut exits %r)' % (len(truncs), [b.loc(x) for x in exits][:4]))
    for tx, tt in truncs:
        if tx not in after_fail:
            continue
        off = strip_refs(b.origin(tt['args'][1]))
        okt = False
        if is_call(off, name='len') and mentions_local_named(b, off, encode_buf_field(tonic)):
            # saved after this iteration's source poll and before encode_item (a value hoisted out of the loop would be
            # the length before the *first* message of the batch)
            lb = [bb for bb, lt in b.calls(name='len') if lt is off[4]]
            srcp = [bb for bb, st_ in b.calls(pat='Stream::poll_next')]
            okt = bool(lb) and b.dominates(lb[0], eb) and bool(srcp) and all(b.dominates(sp_, lb[0]) for sp_ in srcp)
        R.check(okt, rule, 'partial-frame-cut:offset', site(b, tx), 'truncate(buf, offset) with offset = buf.len() saved in the same iteration, after the source poll and before encode_item: %r' % okt)


# ---------------------------------------------------------------- outcome tables from path rows
def cons_view(cons, meta):
    """{subject: value} for the constraints that pin a subject: variant name for discriminants (also when all the other
    variants are excluded), True/False for booleans, the constant otherwise"""
    out = {}
    for subj, op, v in cons:
        names = dict((a, b) for a, b in meta.get(subj, [])) if subj in meta else None
        if op == '==':
            out[subj] = names.get(v, v) if names else v
        elif op == 'notin' and names:
            rest = [n for val, n in meta[subj] if val not in v]
            if len(rest) == 1:
                out[subj] = rest[0]
        elif op == 'notin' and tuple(v) == (0,):
            out[subj] = True
        elif op == '!=' and v in (0, False):
            out[subj] = True
    return out


def view_get(view, pred):
    r = [v for k, v in view.items() if pred(k)]
    return r[0] if len(r) == 1 else None


def has_fn(term, name, owner=None):
    """does the term call `name` (or pass the function item `name` to a combinator)"""
    return term_contains(term, lambda x: isinstance(x, tuple) and x and ((x[0] == 'call' and x[3] == name and (owner is None or owner in x[1])) or (x[0] == 'fnitem' and x[1].split('::')[-1] == name and (owner is None or owner in x[1]))))


def encode_body_rows(tonic):
    """outcome table of <EncodeBody as Body>::poll_frame by feasible path: list of dict(ended, poll, item, res, role, kind, value, path, sets_end)"""
    pf = tonic.body(re.compile(r'codec::encode::EncodeBody<T, U> as http_body::Body>::poll_frame$'))
    meta = {}
    rows = mirlib.path_rows(pf, meta=meta)
    out = []
    for cons, path in rows:
        v = cons_view(cons, meta)
        val = mirlib.simplify(pf.ret_on_path(path))
        ended = view_get(v, lambda k: k.endswith('is_end_stream') and 'discr(' not in k)
        if ended is not None and not isinstance(ended, bool):
            ended = bool(ended)
        polls = {k: x for k, x in v.items() if 'poll_next' in k}
        poll = view_get(polls, lambda k: k.startswith('discr(') and ' as ' not in k.split('poll_next')[-1])
        item = view_get(polls, lambda k: k.rstrip(')').endswith('as Ready.0'))
        res = view_get(polls, lambda k: k.rstrip(')').endswith('as Some.0'))
        role = view_get(v, lambda k: k.startswith('discr(') and k.rstrip(')').endswith('.role'))
        if has_fn(val, 'data', 'Frame'):
            kind = 'data'
        elif has_fn(val, 'trailers', 'Frame') and has_fn(val, 'trailers', 'EncodeState'):
            kind = 'state-trailers'
        elif has_fn(val, 'trailers', 'EncodeState'):
            kind = 'state-trailers'
        elif has_fn(val, 'trailers', 'Frame'):
            kind = 'trailers'
        elif val[0] == 'agg' and val[1].get('variant') == 'Pending':
            kind = 'pending'
        elif term_contains(val, lambda x: x and x[0] == 'agg' and x[1].get('variant') == 'Err') or term_contains(val, lambda x: is_call(x, name='from_residual')):
            kind = 'err'
        elif term_contains(val, lambda x: x and x[0] == 'agg' and x[1].get('variant') == 'None') and not term_contains(val, lambda x: x and x[0] == 'agg' and x[1].get('variant') in ('Ok', 'Err')):
            kind = 'none'
        else:
            kind = 'other'
        sets = pf.writes_on_path(path, lambda p: mirlib.place_fields(p)[-1:] == ['is_end_stream'])
        polled = any(pf.term(b_)['k'] == 'call' and pf.term(b_).get('name') == 'poll_next' for b_ in path)
        out.append(dict(ended=ended, poll=poll, item=item, res=res, role=role, kind=kind, value=val, path=path, polled=polled,
                        sets_end=[const_val(x[3]) for x in sets], cons=cons))
    return pf, out


def built_parts(term, out=None):
    """the aggregate nodes a value is *built from* (through aggregate operands, phis, refs, casts, From/Into conversions) —
    not the ones it is merely computed from (no descent into projections or other call arguments)"""
    if out is None:
        out = []
    t = term
    if not isinstance(t, tuple) or not t:
        return out
    if t[0] == 'agg':
        out.append(t)
        for o in t[2]:
            built_parts(o, out)
    elif t[0] == 'phi':
        for a in t[1]:
            built_parts(a, out)
    elif t[0] in ('ref', 'deref'):
        built_parts(t[1], out)
    elif t[0] == 'cast':
        built_parts(t[2], out)
    elif t[0] == 'call' and t[3] in ('into', 'from') and len(t[2]) == 1:
        built_parts(t[2][0], out)
    return out


def writer_entry_blocks(tonic, th):
    """where Status::to_header_map hands the map to the status writer: the call of add_header, or — when add_header and to_header_map
    both are thin wrappers of one new private writer function that was spliced into each — the block where that writer was entered"""
    sites = [bb for bb, t in th.calls(name='add_header')]
    if sites:
        return sites
    ah = tonic.body('status::Status::add_header')
    mark = lambda b_: {b_.term(bb_).get('inlined'): bb_ for bb_ in b_.live_blocks() if b_.term(bb_)['k'] == 'goto' and b_.term(bb_).get('inlined')}
    ma, mt = mark(ah), mark(th)
    shared = [h_ for h_ in mt if h_ in ma and ah.calls(pat='HeaderMap', name='insert')]
    # helpers of the writer are spliced too: the writer is the outermost one (its entry dominates the others)
    outer = [h_ for h_ in shared if not any(o_ != h_ and th.dominates(mt[o_], mt[h_]) for o_ in shared)]
    return [mt[h_] for h_ in outer]


def flows_to_return(body, l_, depth=0):
    """is local l_ the return place, or moved (possibly through the return slot of a spliced helper / a `?`) into it"""
    if l_ == 0:
        return True
    if depth > 3:
        return False
    for bb_ in body.live_blocks():
        for st_ in body.blocks[bb_]['stmts']:
            u_ = (st_.get('rv') or {}).get('use') if isinstance(st_.get('rv'), dict) else None
            src_ = (u_.get('mv') or u_.get('cp')) if isinstance(u_, dict) else None
            if src_ and src_.get('l') == l_ and not src_.get('pr') and st_.get('p') and not st_['p'].get('pr') and flows_to_return(body, st_['p']['l'], depth + 1):
                return True
    return False


def opt_eq_form(crate, term):
    """`opt.is_some_and(|v| v == K)` read as the comparison `opt == Some(K)`: returns (opt term, K term) or None"""
    c = strip_refs(term)
    if not (is_call(c, name='is_some_and') and 'Option' in c[1] and len(c[2]) == 2):
        return None
    pb = _closure_body(crate, c[2][1])
    if pb is None:
        return None
    rt = mirlib.returned_terms(pb)
    if len(rt) != 1:
        return None
    r = strip_refs(rt[0][1])
    if not (is_call(r, name='eq') and len(r[2]) == 2):
        return None
    elem = [x for x in r[2] if mentions_arg(x, 2)]
    other = [x for x in r[2] if not mentions_arg(x, 2)]
    if len(elem) != 1 or len(other) != 1:
        return None
    return c[2][0], other[0]


def status_response_sites(tonic, body):
    """where `body` turns a Status into the head of a trailers-only response: [(bb, pseudo call term with 'args')] for calls of
    Status::into_http, and — when into_http has become a thin wrapper of a new crate-private function taking the empty body as an
    argument (spliced into every caller, into_http included) — for the places where that shared function was entered (the
    arguments are the operands bound at the splice: the status first)"""
    sites = [(bb, t) for bb, t in body.calls(pat='Status::into_http')]
    try:
        ih = tonic.body('status::Status::into_http')
    except CheckError:
        return sites
    mark = lambda b_: {b_.term(bb_).get('inlined'): bb_ for bb_ in b_.live_blocks() if b_.term(bb_)['k'] == 'goto' and b_.term(bb_).get('inlined')}
    mi = mark(ih)
    shared = [h_ for h_ in mi if any(t_.get('name') in ('to_header_map', 'add_header') for x_ in tonic.helper_defs.values() if x_.path == h_ for bb_, t_ in x_.calls())]
    for bb_ in sorted(body.live_blocks()):
        t_ = body.term(bb_)
        if t_['k'] == 'goto' and t_.get('inlined') in shared:
            args = [st['rv']['use'] for st in body.blocks[bb_]['stmts'] if isinstance(st, dict) and st.get('inl') and isinstance(st.get('rv'), dict) and 'use' in st['rv']]
            sites.append((bb_, {'k': 'call', 'name': 'into_http', 'fn': t_['inlined'], 'args': args, 'spliced': True}))
    return sites


def trait_const_value(crate, term, type_short):
    """value of an associated constant of a (private) trait named generically in a helper (`T::URL`, seen as constdef(Trait::URL)) for the
    type argument the helper was instantiated with at a spliced call: looks the impl's constant `<Type as Trait>::URL` up"""
    for cd in find_terms(term, lambda y: isinstance(y, tuple) and y and y[0] == 'constdef' and isinstance(y[1], str)):
        if cd[1] in crate.consts:
            continue
        trait_, _, name_ = cd[1].rpartition('::')
        tshort = trait_.rsplit('::', 1)[-1]
        keys = [k for k in crate.consts if k.endswith('>::' + name_) and re.search(r'(^<|::)%s as (\w+::)*%s>::' % (re.escape(type_short), re.escape(tshort)), k)]
        if len(keys) == 1:
            return const_value(crate, ('constdef', keys[0]))
    return None


def returned_aggs(body, adt_suffix, variant):
    """[(bb, i, place, aggdict, ops)] of the aggregates of that kind that are part of what the function returns"""
    rets = mirlib.returned_terms(body)
    parts = []
    for _, rt in rets:
        parts.extend(built_parts(rt))
    ids = {id(p[1]) for p in parts}
    return [x for x in mirlib.aggregates(body, adt_suffix, variant) if id(x[3]) in ids]


def focus_body(crate, path_or_body, name=None, pat=None):
    """the member of a function's family (the function itself or a closure nested in it — e.g. the body of an iterator
    adapter that replaced a for loop) that contains the call(s) a rule is about"""
    b = path_or_body if hasattr(path_or_body, 'path') else crate.body(path_or_body)
    fam = [b] + [c for c in crate.bodies if c.kind == 'closure' and c.path.startswith(b.path + '::')]
    hits = [x for x in fam if x.calls(pat=pat, name=name)]
    if len(hits) != 1:
        raise CheckError('ANCHOR-MISSING: call %r/%r in %s or its closures found in %d bodies' % (getattr(pat, 'pattern', pat), name, b.path, len(hits)))
    return hits[0]


def forigin(crate, body, operand):
    """origin of an operand with closure captures resolved through the enclosing function(s)"""
    return resolve_env(crate, body, body.origin(operand))


def family(crate, body, depth=0):
    """a function body with everything that is textually part of it after later edits: closures nested in it and the
    coroutine bodies (with their closures) of async helpers that are not functions of the pinned tree and that it instantiates"""
    out = [body]
    out += [c for c in crate.bodies if c.kind in ('closure', 'coroutine') and c.path.startswith(body.path + '::') and c is not body]
    if depth < 3:
        kn = mirlib.known_fns().get(crate.name, set())
        # functions written after the pinned tree that are handed over as values (`.map_or_else(default, decode_header)`) are not
        # spliced (there is no call); they belong to the family of whoever names them
        for src in list(out):
            refs = set()
            for bb_ in src.live_blocks():
                t_ = src.term(bb_)
                if t_['k'] == 'call':
                    refs.update(a_['k']['fn'] for a_ in t_['args'] if 'k' in a_ and a_['k'].get('fn'))
                for st_ in src.blocks[bb_]['stmts']:
                    rv_ = st_.get('rv') if isinstance(st_, dict) else None
                    if isinstance(rv_, dict):
                        for o_ in list(rv_.get('ops', [])) + [rv_[k_] for k_ in ('use', 'op') if isinstance(rv_.get(k_), dict)]:
                            if isinstance(o_, dict) and 'k' in o_ and o_['k'].get('fn'):
                                refs.add(o_['k']['fn'])
            # .. also when they sit in a constant table the body reads (`CLASSIFIERS: &[fn(..) -> ..]`)
            for bb_ in src.live_blocks():
                t_ = src.term(bb_)
                ops_ = list(t_.get('args', [])) if t_['k'] == 'call' else []
                for st_ in src.blocks[bb_]['stmts']:
                    rv_ = st_.get('rv') if isinstance(st_, dict) else None
                    if isinstance(rv_, dict):
                        ops_ += list(rv_.get('ops', [])) + [rv_[k_] for k_ in ('use', 'op') if isinstance(rv_.get(k_), dict)]
                        if isinstance(rv_.get('ref'), dict) and rv_['ref'].get('static'):
                            ops_.append({'k': {'def': rv_['ref']['static']}})
                for o_ in ops_:
                    cd_ = o_.get('k', {}).get('def') if isinstance(o_, dict) and isinstance(o_.get('k'), dict) else None
                    if not cd_ or 'promoted' in o_['k'] and False:
                        continue
                    for cb_ in crate.by_path.get(cd_, []) + [x_ for p_, bs_ in crate.by_path.items() if p_.startswith(cd_ + '::{promoted') for x_ in bs_]:
                        if cb_.kind in ('const', 'static', 'promoted'):
                            for b2_ in cb_.live_blocks():
                                for st2_ in cb_.blocks[b2_]['stmts']:
                                    rv2_ = st2_.get('rv') if isinstance(st2_, dict) else None
                                    if isinstance(rv2_, dict):
                                        for o2_ in list(rv2_.get('ops', [])) + [rv2_[k_] for k_ in ('use', 'op') if isinstance(rv2_.get(k_), dict)]:
                                            if isinstance(o2_, dict) and 'k' in o2_ and o2_['k'].get('fn'):
                                                refs.add(o2_['k']['fn'])
            for fn_ in sorted(refs):
                base_ = re.sub(r'::<[^:]*>$', '', fn_)
                if base_ in kn or not base_.startswith(crate.name + '::'):
                    continue
                for c in [x for x in crate.bodies if x.kind == 'fn' and x.path == base_]:
                    if c not in out:
                        for m in family(crate, c, depth + 1):
                            if m not in out:
                                out.append(m)
        for src in list(out):
            for bb, i, p, a, ops in mirlib.aggregates(src):
                if a.get('kind') == 'closure' and a.get('def'):
                    # a closure written in a helper that was spliced into this body
                    fnp = a['def'].split('::{closure', 1)[0]
                    if fnp not in kn and not a['def'].startswith(body.path + '::'):
                        for c in [x for x in crate.bodies if x.path == a['def'] or x.path.startswith(a['def'] + '::')]:
                            if c not in out and c.kind in ('closure', 'coroutine'):
                                out.append(c)
                if a.get('kind') == 'coroutine' and a.get('def'):
                    fnp = a['def'].rsplit('::{closure#0}', 1)[0]
                    if fnp not in kn:
                        co = [x for x in crate.bodies if x.path == a['def']]
                        for c in co:
                            if c not in out:
                                for m in family(crate, c, depth + 1):
                                    if m not in out:
                                        out.append(m)
    return out


def fam_calls(fam, name=None, pat=None):
    return [(b, bb, t) for b in fam for bb, t in b.calls(pat=pat, name=name)]


# ---------------------------------------------------------------- value locations: a parameter, or a field of a parameter struct
def loc_of(term):
    """(arg number, (field names..)) if the term is a parameter or a (nested) field of one, through refs/derefs; else None"""
    t = term
    fields = []
    for _ in range(12):
        if not isinstance(t, tuple) or not t:
            return None
        if t[0] in ('ref', 'deref'):
            t = t[1]
        elif t[0] == 'field' and isinstance(t[2], str):
            fields.append(t[2])
            t = t[1]
        elif t[0] == 'arg':
            return (t[1], tuple(reversed(fields)))
        else:
            return None
    return None


def enc_opt_pat(crate):
    """regex for "the optional compression of a message": Option<CompressionEncoding>, or Option<S> for a struct S of this crate that
    carries exactly one CompressionEncoding (CompressionSettings{encoding, ..}, a private {encoding, level} pair ..)"""
    c = getattr(crate, '_enc_opt_pat', None)
    if c is None:
        names = ['CompressionEncoding']
        for path, ad in crate.adts.items():
            if ad.get('kind') == 'struct' and len([f for f in ad['variants'][0]['fields'] if re.search(r'(^|::)CompressionEncoding$', f['ty'])]) == 1:
                names.append(re.escape(path.split('::')[-1]))
        c = crate._enc_opt_pat = r'Option<(\w+::)*(%s)>' % '|'.join(names)
    return c


def enc_field(crate, adt_suffix):
    """name of the field of a struct that holds the optional compression of a message (by type, see enc_opt_pat)"""
    ad = crate.adt(adt_suffix)
    fs = [f['n'] for f in ad['variants'][0]['fields'] if re.search(enc_opt_pat(crate), f['ty'])]
    if not fs:
        # bundled one level down (`framing: Framing { compression_encoding, max_message_size }`): the member's own name
        for f in ad['variants'][0]['fields']:
            try:
                sub = crate.adt(re.sub(r'<.*$', '', f['ty']))
            except CheckError:
                continue
            if sub.get('kind') == 'struct':
                fs += [g['n'] for g in sub['variants'][0]['fields'] if re.search(enc_opt_pat(crate), g['ty'])]
    if len(fs) != 1:
        raise CheckError('UNRECOGNISED: %s has %d fields holding an optional compression encoding' % (adt_suffix, len(fs)))
    return fs[0]


def locs_of_type(crate, body, pat):
    """where a value of a type matching `pat` enters `body`: its parameters, and the fields of parameters that are (references
    to) structs defined in this crate — `settings.max_message_size` is as good as a `max_message_size` parameter"""
    rx = re.compile(pat) if isinstance(pat, str) else pat
    out = []
    for n in range(1, body.argc + 1):
        ty = body.ty(n)
        if rx.search(ty):
            out.append((n, ()))
            continue
        base = re.sub(r"^&('\w+ )?(mut )?", '', ty)
        base = re.sub(r'<.*$', '', base)
        if '::' not in base:
            continue
        try:
            ad = crate.adt(base)
        except CheckError:
            continue
        if ad.get('kind') != 'struct':
            continue
        for f in ad['variants'][0]['fields']:
            if rx.search(f['ty']):
                out.append((n, (f['n'],)))
    return out


def loc_of_type(crate, body, pat):
    r = locs_of_type(crate, body, pat)
    if len(r) != 1:
        raise CheckError('UNRECOGNISED: %d parameters / parameter fields of %s have a type matching %r' % (len(r), body.path, getattr(pat, 'pattern', pat)))
    return r[0]


def is_loc(term, loc):
    return loc_of(strip_refs(term)) == loc


def mentions_loc(term, loc):
    return term_contains(term, lambda x: isinstance(x, tuple) and x and x[0] in ('arg', 'field') and loc_of(x) == loc)


def loc_through_call(caller, call_term, callee_loc):
    """the caller-side location that a callee-side location (parameter n, fields) denotes at this call, or the argument term"""
    n, fields = callee_loc
    if n - 1 >= len(call_term['args']):
        return None
    a = strip_refs(caller.origin(call_term['args'][n - 1]))
    lo = loc_of(a)
    if lo is not None:
        return ('loc', (lo[0], lo[1] + tuple(fields)))
    # an aggregate built at the call site: pick the field operand
    if a and a[0] == 'agg' and fields and fields[0] in (a[1].get('fields') or []):
        return ('term', a[2][a[1]['fields'].index(fields[0])])
    if not fields:
        return ('term', a)
    # some other place expression (e.g. a field of a pin-projection): the callee-side fields are read off it
    for f in fields:
        a = ('field', a, f)
    return ('term', a)


def whole_buffer_takes(body):
    """[(bb, call, ok)] for every place a BytesMut is split to be handed out: buf.split_to(buf.len()) or buf.split() take the
    whole buffer (ok=True); a split_to with another length is a partial take (ok=False)"""
    out = []
    for bb, t in body.calls(name='split_to'):
        if 'BytesMut' not in (t.get('fn') or ''):
            continue
        a = strip_refs(body.origin(t['args'][1]))
        recv = body.origin(t['args'][0])
        same = is_call(a, name='len') and show(strip_refs(a[2][0])) == show(strip_refs(recv))
        out.append((bb, t, bool(same)))
    for bb, t in body.calls(name='split_off'):
        if 'BytesMut' in (t.get('fn') or ''):
            out.append((bb, t, False))   # hands out the tail, keeps the head: never "everything encoded so far"
    for bb, t in body.calls(name='split'):
        if 'BytesMut' in (t.get('fn') or '') and len(t['args']) == 1:
            out.append((bb, t, True))
    return out


def agg_field_operand(body, a, ops, name):
    """the operand stored in field `name` of an aggregate — directly, or one level down when the fields were bundled into a
    sub-struct that is built in the same body and stored in one of the aggregate's fields.  Returns (operand, where) or None"""
    if name in (a.get('fields') or []):
        return ops[a['fields'].index(name)], 'direct'
    for o in ops:
        rl = mirlib.root_local(body, o)
        if rl is None:
            continue
        for bb, i, p, a2, ops2 in mirlib.aggregates(body):
            if p['l'] == rl and not p.get('pr') and a2.get('kind') == 'adt' and name in (a2.get('fields') or []):
                return ops2[a2['fields'].index(name)], 'via %s' % (a2.get('adt') or '').split('::')[-1]
    return None


def end_of_source_rows(tonic, pf, rows):
    """what EncodeBody does when its message source is exhausted, as rows dict(role, ended, kind 'Some'|'None'|other, sets, value,
    site, form): read from EncodeState::trailers() when that method exists (form 'method'), else from the paths of poll_frame on
    which the source returned None (form 'inline' — the method was folded into poll_frame or replaced by a new helper)"""
    def flag_place(p):
        return mirlib.place_fields(p)[-1:] == ['is_end_stream']
    try:
        tr = tonic.body('codec::encode::EncodeState::trailers')
    except CheckError:
        tr = None
    out = []
    if tr is not None:
        meta = {}
        for cons, path in mirlib.path_rows(tr, meta=meta):
            v = cons_view(cons, meta)
            role = view_get(v, lambda k: k.startswith('discr(') and k.rstrip(')').endswith('.role'))
            ended = view_get(v, lambda k: k.endswith('is_end_stream') and 'discr(' not in k)
            ended = None if ended is None else bool(ended)
            val = mirlib.simplify(tr.ret_on_path(path))
            kind = val[1].get('variant') if val[0] == 'agg' else '?'
            sets = [const_val(x[3]) for x in tr.writes_on_path(path, flag_place)]
            out.append(dict(role=role, ended=ended, kind=kind, sets=sets, value=val, site=site(tr, path[-1]), form='method'))
        return tr, out
    for r in rows:
        if r['item'] != 'None':
            continue
        # the flag was clear at entry (poll_frame tests it first); a second, contradicting read marks the "already ended" arm
        again = any(k.endswith('is_end_stream') and 'discr(' not in k and (op in ('notin', '!=') and (tuple(v) if isinstance(v, (list, tuple)) else v) in ((0,), 0, False) or (op == '==' and v not in (0, False)))
                    for k, op, v in r['cons'])
        kind = {'trailers': 'Some', 'none': 'None'}.get(r['kind'], r['kind'])
        out.append(dict(role=r['role'], ended=bool(again), kind=kind, sets=r['sets_end'], value=r['value'], site=site(pf, r['path'][-1]), form='inline'))
    return None, out


def end_status_source(tonic, val):
    """(ok, shown): the trailers of the end-of-source frame are to_header_map(error.take() | Status::ok("") | error.take().unwrap_or_else(|| Status::ok("")))"""
    thm = find_terms(val, lambda x: is_call(x, name='to_header_map'))
    src = strip_refs(thm[0][2][0]) if thm else ('x',)
    ok_take = term_contains(src, lambda x: is_call(x, name='take') and mentions_field(x, 'error'))
    ok_ok = is_call(src, pat='Status::ok')
    if is_call(src) and src[3] in ('unwrap_or_else', 'unwrap_or', 'unwrap_or_default') and len(src[2]) >= 1:
        dflt = strip_refs(src[2][1]) if len(src[2]) > 1 else ('x',)
        if dflt[0] == 'agg' and 'def' in dflt[1]:
            cb_ = tonic.body(re.compile('^' + re.escape(dflt[1]['def']) + '$'))
            ok_ok = all(is_call(strip_refs(t_), pat='Status::ok') for _, t_ in mirlib.returned_terms(cb_))
        else:
            ok_ok = is_call(dflt, pat='Status::ok')
        ok_take = ok_take and ok_ok
    return bool(thm) and bool(ok_take or ok_ok), show(src)[:100]


def check_end_of_source(R, rule, tonic, pf, rows):
    """the decision table at the end of the message source, evaluated under `rule`"""
    tr, erows = end_of_source_rows(tonic, pf, rows)
    if tr is not None:
        R.saw(tr)
    seen_rows = set()
    for r in erows:
        role, ended, kind, sets, st = r['role'], r['ended'], r['kind'], r['sets'], r['site']
        seen_rows.add((role, ended, kind))
        if kind == 'Some':
            R.check(role == 'Server' and ended is False, rule, 'trailers():server-first', st, 'Some(trailers) only in the server role with the flag clear: role %r, ended %r' % (role, ended))
            R.check(sets == [True], rule, 'trailers():sets-end', st, 'is_end_stream := true on the path returning Some(trailers): %r' % sets)
            ok, shown = end_status_source(tonic, r['value'])
            R.check(ok, rule, 'trailers():status-source', st, 'trailers = to_header_map(error.take() or Status::ok): %s' % shown)
        else:
            R.check(kind == 'None' and not (role == 'Server' and ended is False), rule, 'trailers():%s' % ('client' if role == 'Client' else 'server-ended'), st, 'role %r, ended %r -> %s' % (role, ended, kind))
            R.check(not sets, rule, 'trailers():none-leaves-flag', st, 'no flag write on a None path: %r' % sets)
    where = site(tr) if tr is not None else site(pf)
    R.check(any(k == 'Some' for _, _, k in seen_rows), rule, 'trailers():server-first:exists', where, 'a path returning Some(trailers) exists')
    R.check(any(ro == 'Client' and k == 'None' for ro, _, k in seen_rows), rule, 'trailers():client:exists', where, 'client role -> None')
    if tr is not None:
        R.check(any(en is True and k == 'None' for _, en, k in seen_rows), rule, 'trailers():server-ended:exists', where, 'already ended -> None')
    return tr


def status_ctors_in(crate, term, depth=0):
    """names of the Status constructors (Status::internal, ::out_of_range ..) a value can be built by — looking into the closures
    handed to map_err / ok_or_else / unwrap_or_else on the way"""
    out = set()
    def visit(x):
        if is_call(x) and 'status::Status::' in x[1] and 'Status::<' not in x[1]:
            out.add(x[3])
        if isinstance(x, tuple) and x and x[0] == 'agg' and isinstance(x[1], dict) and x[1].get('def') and x[1].get('kind') == 'closure' and depth < 3:
            try:
                cb = crate.body(re.compile('^' + re.escape(x[1]['def']) + '$'))
            except CheckError:
                return False
            for _, t_ in mirlib.returned_terms(cb):
                out.update(status_ctors_in(crate, t_, depth + 1))
        return False
    term_contains(term, visit)
    return out


# ---------------------------------------------------------------- buffers by role (not by field name)
_ROLE_CACHE = {}


def decode_buf_fields(tonic):
    """(read buffer field, decompression buffer field) of StreamingInner, by role: the read buffer is the BytesMut field that
    poll_frame appends data frames to; the other BytesMut field is the decompression scratch buffer"""
    key = ('dec', id(tonic))
    if key in _ROLE_CACHE:
        return _ROLE_CACHE[key][1]
    ad = tonic.adt('codec::decode::StreamingInner')
    bm = [f['n'] for f in ad['variants'][0]['fields'] if re.search(r'\bBytesMut$', f['ty'])]
    pfr = tonic.body('decode::StreamingInner::poll_frame')
    tgt = set()
    for bb, t in pfr.calls(name='put') + pfr.calls(name='extend_from_slice') + pfr.calls(name='put_slice'):
        if len(t['args']) >= 2 and mentions_call(pfr.origin(t['args'][1]), name='into_data'):
            fn_ = [f for f in field_names(pfr.origin(t['args'][0])) if f in bm]
            tgt.update(fn_[-1:])
    if len(tgt) != 1 or len(bm) != 2:
        raise CheckError('UNRECOGNISED: StreamingInner has BytesMut fields %r; poll_frame appends data frames to %r (want exactly one of two)' % (bm, sorted(tgt)))
    rb = list(tgt)[0]
    _ROLE_CACHE[key] = (tonic, (rb, [f for f in bm if f != rb][0]))
    return _ROLE_CACHE[key][1]


def encode_buf_field(tonic):
    """the output buffer field of EncodedBytes, by role: the BytesMut handed to encode_item in the position of the buffer whose
    tail encode_item passes to finish_encoding (the frame slice)"""
    key = ('enc', id(tonic))
    if key in _ROLE_CACHE:
        return _ROLE_CACHE[key][1]
    ei = tonic.body('codec::encode::encode_item')
    fb, ft = ei.call1(name='finish_encoding')
    fe = tonic.body('codec::encode::finish_encoding')
    sn = param_of_type(fe, r'^&mut \[u8\]$')
    n = arg_root(ei.origin(ft['args'][sn - 1]))
    if n is None:
        raise CheckError('UNRECOGNISED: the frame slice given to finish_encoding is not cut from a parameter of encode_item')
    pn = tonic.body(re.compile(r'codec::encode::EncodedBytes<T, U> as .*Stream>::poll_next$'))
    cb, ct = pn.call1(name='encode_item')
    ad = tonic.adt('codec::encode::EncodedBytes')
    bm = [f['n'] for f in ad['variants'][0]['fields'] if re.search(r'\bBytesMut$', f['ty'])]
    fl = [f for f in field_names(pn.origin(ct['args'][n - 1])) if f in bm]
    if not fl:
        raise CheckError('UNRECOGNISED: the output buffer passed to encode_item is not a BytesMut field of EncodedBytes')
    _ROLE_CACHE[key] = (tonic, fl[-1])
    return fl[-1]


def const_value(crate, term, depth=0):
    """the constant a term denotes: a literal, or a named const / static of this crate whose initialiser is a literal"""
    t = strip_refs(term)
    v = const_val(t)
    if v is not None:
        return v
    cd = constdef(t)
    if cd and depth < 3:
        for bd in crate.by_path.get(cd, []):
            if bd.kind in ('const', 'static'):
                rt = mirlib.returned_terms(bd)
                if len(rt) == 1:
                    return const_value(crate, rt[0][1], depth + 1)
        c = None
        try:
            c = crate.const(cd)
        except CheckError:
            pass
        if c and 'v' in c:
            return c['v']
    return None


# ---------------------------------------------------------------- how a string is put together
def _str_piece(t):
    """one piece of a string recipe: a literal (str) or ('arg', term)"""
    x = strip_refs(mirlib.simplify(t))
    for _ in range(6):
        if is_call(x) and x[3] in ('as_str', 'deref', 'as_ref', 'borrow', 'as_mut_str') and x[2]:
            x = strip_refs(x[2][0])
        elif x and x[0] == 'cast' and len(x) > 2:
            x = strip_refs(x[2])
        else:
            break
    v = const_val(x)
    if isinstance(v, bytes):
        try:
            v = v.decode('utf8')
        except UnicodeDecodeError:
            v = None
    if isinstance(v, str):
        return v
    return ('arg', x)


def string_recipe(body, operand):
    """the ordered pieces a String / &str value is made of — literals and ('arg', term) — for the spellings
    format!(..), [a, b, c].concat(), String::new()/with_capacity() followed by push/push_str, x.to_owned()/to_string()/String::from(x).
    None when the value is built some other way."""
    term = body.origin(operand) if isinstance(operand, dict) else operand
    t = strip_refs(mirlib.simplify(term))
    for _ in range(6):
        if is_call(t) and t[3] in ('must_use', 'as_str', 'deref', 'as_ref', 'borrow') and t[2]:
            t = strip_refs(t[2][0])
        else:
            break
    if is_call(t, name='format') and 'fmt' in t[1]:
        tpl, args = fmt_of(body, t)
        if tpl is None:
            return None
        out, ai = [], 0
        for piece in tpl:
            if piece == '{}':
                out.append(_str_piece(args[ai]) if ai < len(args) else ('arg', ('x',)))
                ai += 1
            else:
                out.append(piece)
        return out
    if is_call(t) and t[3] in ('concat', 'join') and t[2]:
        sep = None
        if t[3] == 'join':
            sep = const_val(strip_refs(t[2][1])) if len(t[2]) > 1 else None
            if not isinstance(sep, str):
                return None
        arr = strip_refs(t[2][0])
        while arr and arr[0] == 'cast' and len(arr) > 2:
            arr = strip_refs(arr[2])
        if arr and arr[0] == 'agg' and arr[1].get('kind') == 'array':
            out = []
            for i_, e in enumerate(arr[2]):
                if i_ and sep:
                    out.append(sep)
                out.append(_str_piece(e))
            return out
        return None
    if is_call(t) and t[3] in ('to_owned', 'to_string', 'from', 'into', 'clone') and len(t[2]) == 1:
        return [_str_piece(t[2][0])]
    if is_call(t) and t[3] in ('new', 'with_capacity') and 'String' in t[1] and len(t) > 4 and isinstance(t[4], dict) and t[4].get('dest'):
        made = t[4]

        def same_string(op_):
            r_ = strip_refs(body.origin(op_))
            return is_call(r_) and len(r_) > 4 and r_[4] is made
        pushes = [(bb, tt) for bb, tt in body.calls() if tt.get('name') in ('push', 'push_str') and 'String' in (tt.get('fn') or '') and same_string(tt['args'][0])]
        pushes.sort(key=lambda p_: len(body.dominators().get(p_[0], ())))
        for a_, b_ in zip(pushes, pushes[1:]):
            if not body.dominates(a_[0], b_[0]):
                return None
        if any(bb in body.reachable(body.succs(bb)[:1]) for bb, tt in pushes if body.succs(bb)):
            return None  # a push inside a loop
        return [_str_piece(body.origin(tt['args'][1])) for bb, tt in pushes]
    return None


def recipe_template(pieces):
    """('a{}b', [arg terms]) for a recipe: literals joined, every non-literal piece shown as {}"""
    if pieces is None:
        return None, []
    return ''.join(p if isinstance(p, str) else '{}' for p in pieces), [p[1] for p in pieces if not isinstance(p, str)]


# ---------------------------------------------------------------- which config field feeds which callee location
def _cfg_field(t):
    """name of the field of `self` (argument 1) a value is read from, through as_ref / clone / copied .. wrappers; else None"""
    t = strip_refs(t)
    for _ in range(6):
        if is_call(t) and t[3] in ('as_ref', 'as_deref', 'clone', 'copied', 'cloned', 'as_mut', 'deref', 'to_owned', 'unwrap', 'expect') and t[2]:
            t = strip_refs(t[2][0])
        else:
            break
    if arg_root(t) == 1:
        fn = field_names(t)
        if fn:
            return fn[-1]
    return None


def callsite_field_map(crate, caller, call_term):
    """{callee location (param number, (field names..)): name of the caller's `self` field that value is read from} for one call:
    arguments that are fields of self, structs built from such fields at the call site, and Option::map(field, |x| Struct{..})"""
    m = {}

    def collect(body, t, loc, depth=0):
        t = strip_refs(mirlib.simplify(t))
        if depth > 4 or not t:
            return
        f = _cfg_field(resolve_env(crate, body, t))
        if f:
            m[loc] = f
            return
        if t[0] == 'agg' and t[1].get('kind') == 'adt' and t[1].get('variant') in ('Some', 'Ok') and t[2]:
            collect(body, t[2][0], loc, depth + 1)
        elif t[0] == 'agg' and t[1].get('kind') == 'adt':
            for fn_, o_ in zip(t[1].get('fields') or [], t[2]):
                collect(body, o_, (loc[0], loc[1] + (fn_,)), depth + 1)
        elif is_call(t) and t[3] == 'map' and 'Option' in t[1] and len(t[2]) == 2:
            src = _cfg_field(resolve_env(crate, body, t[2][0]))
            if src:
                m[loc] = src
            clo = strip_refs(t[2][1])
            if clo and clo[0] == 'agg' and clo[1].get('def'):
                try:
                    cb = crate.body(re.compile('^' + re.escape(clo[1]['def']) + '$'))
                except CheckError:
                    return
                for _, rt_ in mirlib.returned_terms(cb):
                    rt_ = strip_refs(mirlib.simplify(rt_))
                    if rt_ and rt_[0] == 'agg' and rt_[1].get('kind') == 'adt':
                        for fn_, o_ in zip(rt_[1].get('fields') or [], rt_[2]):
                            o2 = strip_refs(resolve_env(crate, cb, o_))
                            if arg_root(o2) == 2 and cb.kind == 'closure' and src:
                                m[(loc[0], loc[1] + (fn_,))] = src
                            else:
                                collect(cb, o_, (loc[0], loc[1] + (fn_,)), depth + 1)
        elif t[0] == 'phi':
            for a_ in t[1]:
                collect(body, a_, loc, depth + 1)
    for i, a in enumerate(call_term['args']):
        collect(caller, caller.origin(a), (i + 1, ()))
    return m


def callee_loc(term):
    """(param number, (field names..)) of a value inside the callee, looking through refs, variant projections (`x as Some`) and
    their payload index — the counterpart of callsite_field_map's keys"""
    t = term
    fields = []
    for _ in range(16):
        if not isinstance(t, tuple) or not t:
            return None
        if t[0] in ('ref', 'deref'):
            t = t[1]
        elif t[0] == 'variant':
            t = t[1]
        elif t[0] == 'field':
            if isinstance(t[1], tuple) and t[1] and t[1][0] == 'variant':
                t = t[1]  # the payload index of an enum variant is not a struct field
            else:
                if isinstance(t[2], str):
                    fields.append(t[2])
                t = t[1]
        elif t[0] == 'discr':
            t = t[1]
        elif t[0] == 'arg':
            return (t[1], tuple(reversed(fields)))
        else:
            return None
    return None


# ---------------------------------------------------------------- tables written as data
def const_table(crate, term):
    """entries of the constant array a term reads (`T`, `&T`, `T.iter()`, `T[i]`): list of entry terms, else None"""
    cds = find_terms(term, lambda y: isinstance(y, tuple) and y and y[0] == 'constdef')
    for cd in cds:
        for bd in crate.by_path.get(cd[1], []):
            if bd.kind in ('const', 'static'):
                rt = mirlib.returned_terms(bd)
                if len(rt) == 1:
                    v = strip_refs(mirlib.simplify(rt[0][1]))
                    while v and v[0] == 'cast' and len(v) > 2:
                        v = strip_refs(v[2])
                    if v and v[0] == 'agg' and v[1].get('kind') == 'array':
                        return [strip_refs(e) for e in v[2]]
    return None


def _closure_body(crate, t):
    t = strip_refs(t)
    if t and t[0] == 'agg' and isinstance(t[1], dict) and t[1].get('def'):
        try:
            return crate.body(re.compile('^' + re.escape(t[1]['def']) + '$'))
        except CheckError:
            return None
    return None


def variant_const_map(crate, fnpath):
    """{variant name: constant} for a crate-local function that maps the variants of its (enum) argument to constants (`as_str`)"""
    bs = [bd for bd in crate.by_path.get(fnpath, []) if bd.kind == 'fn']
    if len(bs) != 1:
        return None
    b = bs[0]
    meta = {}
    out = {}
    for cons, path in mirlib.path_rows(b, meta=meta):
        vw = cons_view(cons, meta)
        names = [v for k, v in vw.items() if k.startswith('discr(') and isinstance(v, str)]
        val = const_value(crate, strip_refs(mirlib.simplify(b.ret_on_path(path))))
        if len(names) != 1 or val is None or (names[0] in out and out[names[0]] != val):
            return None
        out[names[0]] = val
    return out or None


def table_lookup(crate, term):
    """read `TABLE.iter().find(|e| key_of(e) == probe).map*(dflt?, |e| value_of(e))`, `TABLE.iter().position(|e| key_of(e) == probe)`
    and `TABLE[i]`: returns dict(kind='find'|'position'|'index', entries=[entry terms], key=fn(entry)->term, value=fn(entry)->term|None,
    probe=term, default=term|None) or None.  key/value project a field of a tuple entry (or the entry itself)."""
    t = strip_refs(mirlib.simplify(term))
    default = None
    proj = None
    # peel map_or_else / map_or / map / copied / cloned
    for _ in range(4):
        if is_call(t) and t[3] in ('map_or_else', 'map_or') and len(t[2]) == 3:
            default, proj, t = t[2][1], t[2][2], strip_refs(t[2][0])
        elif is_call(t) and t[3] == 'map' and len(t[2]) == 2 and 'Option' in t[1]:
            proj, t = t[2][1], strip_refs(t[2][0])
        elif is_call(t) and t[3] in ('copied', 'cloned') and t[2]:
            t = strip_refs(t[2][0])
        else:
            break
    src_ = strip_refs(t[2][0]) if is_call(t) and t[2] else None
    while is_call(src_) and src_[3] in ('copied', 'cloned', 'by_ref') and src_[2]:
        src_ = strip_refs(src_[2][0])
    if is_call(t) and t[3] in ('find', 'position') and len(t[2]) == 2 and is_call(src_) and src_[3] in ('iter', 'into_iter'):
        ents = const_table(crate, src_)
        pb = _closure_body(crate, t[2][1])
        if ents is None or pb is None:
            return None
        # predicate: eq(key_of(element), captured probe)
        rt = mirlib.returned_terms(pb)
        if len(rt) != 1:
            return None
        pr = strip_refs(rt[0][1])
        if not (is_call(pr) and pr[3] in ('eq',) and len(pr[2]) == 2):
            return None
        sides = pr[2]
        elem_side = [x for x in sides if mentions_arg(x, 2)]
        env_side = [x for x in sides if not mentions_arg(x, 2)]
        if len(elem_side) != 1 or len(env_side) != 1:
            return None
        kf = [x[2] for x in find_terms(elem_side[0], lambda y: isinstance(y, tuple) and y and y[0] == 'field' and arg_root(y) == 2 and isinstance(y[2], (int, str)) and str(y[2]).lstrip('.').isdigit())]
        kidx = int(str(kf[0]).lstrip('.')) if kf else None
        vidx = None
        if proj is not None:
            vb = _closure_body(crate, proj)
            if vb is None:
                return None
            vr = mirlib.returned_terms(vb)
            if len(vr) != 1:
                return None
            vf = [x[2] for x in find_terms(vr[0][1], lambda y: isinstance(y, tuple) and y and y[0] == 'field' and arg_root(y) == 2 and str(y[2]).lstrip('.').isdigit())]
            vidx = int(str(vf[0]).lstrip('.')) if vf else None
        pick = lambda e, ix: (strip_refs(e[2][ix]) if (ix is not None and e and e[0] == 'agg' and e[1].get('kind') == 'tuple' and ix < len(e[2])) else e)
        keyf = lambda e: pick(e, kidx)
        if kidx is None:
            # the key is computed from the entry by a crate-local function of the entry's variant (`e.as_str() == probe`)
            ms = [x for x in find_terms(elem_side[0], lambda y: is_call(y) and isinstance(y[1], str) and y[2] and arg_root(strip_refs(y[2][0])) == 2 and
                                        any(bd.kind == 'fn' for bd in crate.by_path.get(y[1], [])))]
            if len(ms) == 1:
                vmap = variant_const_map(crate, ms[0][1])
                if vmap is None:
                    return None
                keyf = lambda e: (('const', vmap[e[1]['variant']]) if (e and e[0] == 'agg' and e[1].get('variant') in vmap) else None)
        return dict(kind=t[3], entries=ents, key=keyf, value=(lambda e: pick(e, vidx)) if proj is not None else None,
                    probe=env_side[0], default=default)
    ix = find_terms(t, lambda y: isinstance(y, tuple) and y and y[0] == 'index' and const_table(crate, y[1]) is not None)
    if ix:
        ents = const_table(crate, ix[0][1])
        # which field of the entry is taken
        fld = [x for x in find_terms(t, lambda y: isinstance(y, tuple) and y and y[0] == 'field' and strip_refs(y[1]) is not None and strip_refs(y[1])[:1] == ('index',))]
        fidx = int(str(fld[0][2]).lstrip('.')) if fld and str(fld[0][2]).lstrip('.').isdigit() else None
        pick = lambda e, ix_: (strip_refs(e[2][ix_]) if (ix_ is not None and e and e[0] == 'agg' and e[1].get('kind') == 'tuple' and ix_ < len(e[2])) else e)
        return dict(kind='index', entries=ents, key=None, value=lambda e: pick(e, fidx), probe=ix[0][2], default=None)
    return None


def guard_is_some(tm, vals, pred):
    """the guard says that an Option produced by a call satisfying `pred` was Some: `match x { Some(..) => here }` (discriminant 1) or
    `x?` (Try::branch gave Continue, discriminant 0)"""
    if not (tm and tm[0] == 'discr'):
        return False
    inner = strip_refs(tm[1])
    if is_call(inner, name='branch') and inner[2] and term_contains(inner[2][0], pred):
        return vals == [0]
    return term_contains(inner, pred) and vals == [1]


def check_response_consults_infer(R, tonic, rule):
    """the decoder's end-of-stream status function: every Direction::Response path goes through infer_grpc_status (no shortcut
    that declares a response fine without looking at trailers + HTTP status)"""
    role = [bd for bd in tonic.bodies if bd.kind != 'promoted' and 'decode::StreamingInner' in bd.path and bd.calls(name='infer_grpc_status')]
    if len(role) != 1:
        raise CheckError('UNRECOGNISED: %d StreamingInner methods call infer_grpc_status' % len(role))
    rs = role[0]
    R.saw(rs)
    ib, it = rs.call1(name='infer_grpc_status')
    meta_r = {}
    byp = []
    for cons_, path_ in mirlib.path_rows(rs, meta=meta_r, relevant=lambda sub_: sub_.startswith('discr(') and sub_.rstrip(')').endswith('.direction')):
        vw_ = cons_view(cons_, meta_r)
        if any(v_ == 'Response' for k_, v_ in vw_.items()) and ib not in path_:
            byp.append(path_[-1])
    R.check(not byp, rule, 'response-always-consults-infer', site(rs, byp[0]) if byp else site(rs, ib),
            'every Direction::Response path of %s() goes through infer_grpc_status(trailers, http status): %d path(s) bypass it' % (rs.path.split('::')[-1], len(byp)))


def check_recovered_status(R, tonic, rule, fields):
    """Status::from_error / try_from_error: the Status found in a source chain is copied with the given fields (Status is not Clone;
    only `source` is left behind)"""
    fs = tonic.body('status::find_status_in_source_chain')
    R.saw(fs)
    ffs = family(tonic, fs)   # the rungs of the chain walk may be functions of their own (named, or listed in a table)
    ags = [(m_,) + x for m_ in ffs for x in mirlib.aggregates(m_, 'status::Status') if x[3].get('kind') == 'adt']
    ctor = [(m_, bb, t) for m_, bb, t in fam_calls(ffs, pat='status::Status::') if t.get('name') in ('new', 'with_metadata', 'with_details', 'with_details_and_metadata')]
    nfa = 0
    # the downcast to Status itself (other downcasts in the chain walk — TimeoutExpired, h2/hyper errors — build their own statuses)
    is_dc = lambda x: is_call(x, name='downcast_ref') and any(re.search(r'(^|::)Status$', g_) for g_ in (x[4].get('ga') or []))
    for agm in ags:
        fs_, ag = agm[0], agm[1:]
        if term_contains(fs_.origin(ag[4][ag[3]['fields'].index('code')]), is_dc):
            for fname in fields:
                v = fs_.origin(ag[4][ag[3]['fields'].index(fname)])
                nfa += 1
                R.check(fname in [x[2] for x in find_terms(v, lambda x: x and x[0] == 'field')], rule, 'recovered:%s' % fname, site(fs_, ag[0], ag[1]), 'field %s of the recovered status comes from the found status: %s' % (fname, show(v)[:80]))
    for fs_, bb, t in ctor:
        if not any(term_contains(fs_.origin(a_), is_dc) for a_ in t['args']):
            continue
        got = set()
        for a_ in t['args']:
            got.update(x[2] for x in find_terms(fs_.origin(a_), lambda x: x and x[0] == 'field'))
        for fname in fields:
            nfa += 1
            R.check(fname in got, rule, 'recovered:%s' % fname, site(fs_, bb), 'Status::%s(..) is given the found status\'s %s: %r (arguments use %r)' % (t['name'], fname, fname in got, sorted(got)))
    R.floor(rule, 'fields of the recovered status', nfa, len(fields))


def check_trailers_only_read(R, tonic, rule):
    """create_response reads the grpc-status of the response *headers* whenever the encoding check let the response through: a
    condition in front of it (body.is_end_stream(), a content-length, an HTTP status) makes a Trailers-Only error invisible for
    responses that do not meet it - the call then ends with "Missing response message" or, for a stream, successfully."""
    cr = tonic.body('client::grpc::Grpc::<T>::create_response')
    R.saw(cr)
    fm = cr.calls(pat='Status::from_header_map')
    R.check(len(fm) == 1, rule, 'trailers-only-status-read:one-site', site(cr), 'Status::from_header_map sites in create_response: %d' % len(fm))
    if len(fm) == 1:
        gs = [(vals, tm) for s_, vals, tm in cr.edge_guards(fm[0][0]) if not term_contains(tm, lambda y: is_call(y, name='branch'))]
        R.check(not gs, rule, 'trailers-only-status-read-unconditionally', site(cr, fm[0][0]),
                'conditions in front of Status::from_header_map(response.headers()): %r' % [(v, show(tm)[:70]) for v, tm in gs])


def header_key_of(crate, term, depth=0):
    """the header name a key operand denotes, when it can be read: a string literal, a crate const / static with a literal or
    HeaderName::from_static(literal) initialiser, HeaderName::from_static / from_bytes / try_from(literal) in place, or one of
    http's own header constants (lower-cased const name with '-' for '_').  None when it is computed."""
    t = strip_refs(term)
    s = const_str(t)
    if s is not None:
        return (s.decode('latin1') if isinstance(s, bytes) else s).lower()
    cd = constdef(t)
    if cd:
        if cd.startswith('http::header::') and cd.rsplit('::', 1)[1].isupper():
            return cd.rsplit('::', 1)[1].lower().replace('_', '-')
        v = const_value(crate, t)
        if isinstance(v, (str, bytes)):
            return (v.decode('latin1') if isinstance(v, bytes) else v).lower()
        if depth < 2:
            try:
                return header_name_value(crate, cd).lower()
            except CheckError:
                return None
        return None
    if isinstance(t, tuple) and t and t[0] == 'call' and depth < 3:
        nm = t[3]
        if nm in ('from_static', 'from_bytes', 'try_from', 'from', 'into', 'from_lowercase', 'unwrap', 'expect', 'clone', 'as_str', 'as_ref', 'borrow', 'deref') and t[2]:
            return header_key_of(crate, t[2][0], depth + 1)
    return None


HEADER_MUTATORS = ('insert', 'append', 'remove', 'entry', 'try_insert', 'try_append', 'try_entry', 'remove_entry')


def header_writes(crate, names):
    """[(body, bb, call term, header name)] - every HeaderMap / MetadataMap mutation in the crate whose key reads as one of `names`"""
    out = []
    for b in crate.bodies:
        if b.kind == 'promoted':
            continue
        for bb, t in b.calls():
            if t.get('name') not in HEADER_MUTATORS or len(t['args']) < 2:
                continue
            k = header_key_of(crate, b.origin(t['args'][1]))
            if k in names:
                out.append((b, bb, t, k))
    return out
