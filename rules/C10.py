"""C10 — requests reach exactly the method named by the path, else UNIMPLEMENTED (structural clauses)."""
import re
from common import *
import mirlib
import gen

META = {
    'explanation': 'Route pattern constants of Routes::add_service and the UNIMPLEMENTED fallback are read from MIR; every generated '
                   'dispatcher in the workspace (committed and build.rs-generated code of every crate) is reduced to its table: '
                   'scrutinee = req.uri().path(), rows = whole-path string equalities equal to "/" + SERVICE_NAME + "/" + method, a default '
                   'row answering grpc-status 12; NamedService::NAME of every wrapper forwards the wrapped service\'s NAME; the generator\'s '
                   'path formatter builds "/{service}/{method}" from the same service-name formatter that feeds SERVICE_NAME.',
    'exhaustive': True,
    'assumptions': ['axum matches "/{name}/{*rest}" by whole first segment, case-sensitively'],
}


def check_routes_fallback(R, tonic, rule):
    """every Routes value answers an unknown path with the gRPC UNIMPLEMENTED response (200, application/grpc, grpc-status 12): the
    fallback is installed by Default, and every way to obtain a Routes goes through it"""
    df = tonic.body(re.compile(r'<service::router::Routes as std::default::Default>::default$'))
    R.saw(df)
    fb = df.calls(name='fallback')
    okf = len(fb) == 1 and any('k' in a and (a['k'].get('fn') or '').endswith('router::unimplemented') for a in fb[0][1]['args']) and is_call(strip_refs(df.origin(fb[0][1]['args'][0])), name='new')
    R.check(okf, rule, 'default-has-fallback', site(df), 'Routes::default = Router::new().fallback(unimplemented): %r (an empty Routes must answer UNIMPLEMENTED too)' % okf)
    ag = mirlib.aggregates(df, 'service::router::Routes')
    R.check(len(ag) == 1 and term_contains(df.origin(ag[0][4][0]), lambda x: is_call(x, name='fallback')), rule, 'default-router-is-that-one', site(df), 'the stored router is the one with the fallback')
    un = tonic.body('service::router::unimplemented::{closure#0}')
    R.saw(un)
    su = un.calls(pat='Status::unimplemented')
    ih = status_response_sites(tonic, un)
    em = un.calls(pat='Body', name='empty') + [x for c_ in tonic.bodies if c_.kind == 'closure' and c_.path.startswith(un.path + '::') for x in c_.calls(pat='Body', name='empty')]
    R.check(len(su) == 1 and len(ih) == 1 and len(em) == 1 and term_contains(un.origin(ih[0][1]['args'][0]), lambda x: is_call(x, pat='Status::unimplemented')), rule, 'fallback=unimplemented', site(un), 'Status::unimplemented("").into_http() with an empty body')
    makers = {}
    for bd in tonic.bodies:
        if bd.kind == 'promoted' or 'service::router' not in bd.path:
            continue
        for bb, i, p, a, ops in mirlib.aggregates(bd, 'service::router::Routes'):
            makers.setdefault(short(bd.path), []).append(show(bd.origin(ops[0]))[:70])
    okm = set(makers) <= {'<service::router::Routes as std::default::Default>::default', 'tonic::service::router::Routes::prepare',
                           '<service::router::Routes as std::convert::From<axum::Router>>::from', '<service::router::Routes as std::clone::Clone>::clone'}
    R.check(okm and '<service::router::Routes as std::default::Default>::default' in makers, rule, 'routes-constructors', '', 'bodies constructing Routes: %r' % sorted(makers))
    nw = tonic.body('service::router::Routes::new')
    R.check(len(nw.calls(name='default')) == 1 and len(nw.calls(name='add_service')) == 1, rule, 'new=default+add', site(nw), 'Routes::new = default().add_service(svc)')
    rb = tonic.body('service::router::RoutesBuilder::routes')
    R.check(len(rb.calls(name='unwrap_or_default')) == 1, rule, 'builder-empty=default', site(rb), 'RoutesBuilder::routes = routes.unwrap_or_default()')



def run(R):
    tonic = R.crate('tonic')

    # ---------------------------------------------------------------- R1 router
    R.describe('C10.R1', 'Routes::add_service mounts the service at "/" + S::NAME + "/{*rest}"; Routes::default installs the UNIMPLEMENTED fallback; every way to obtain a Routes goes through default or a user-supplied router')
    with R.guard('C10.R1'):
        ad = tonic.body('service::router::Routes::add_service')
        R.saw(ad)
        rs = ad.calls(name='route_service')
        R.check(len(rs) == 1, 'C10.R1', 'route_service-site', site(ad), 'route_service sites: %d' % len(rs))
        tpl, args = recipe_template(string_recipe(ad, rs[0][1]['args'][1])) if rs else (None, [])
        R.eq(tpl, '/{}/{*rest}', 'C10.R1', 'route-pattern', site(ad, rs[0][0]) if rs else site(ad), 'route pattern, as literal pieces around the arguments (format!, concat or push_str spelling)')
        R.check(len(args) == 1 and (constdef(args[0]) or '').endswith('NamedService::NAME'), 'C10.R1', 'route-name=S::NAME', site(ad), 'pattern argument = %s' % (show(args[0]) if args else None))
        check_routes_fallback(R, tonic, 'C10.R1')

    # ---------------------------------------------------------------- R2 every generated dispatcher
    R.describe('C10.R2', 'every generated server dispatcher: match on req.uri().path() by whole-string equality; each arm constant = "/" + SERVICE_NAME + "/" + method; default arm answers grpc-status 12 with the gRPC content-type')
    with R.guard('C10.R2'):
        services = gen.collect(R)
        n = 0
        for key, sv in sorted(services.items()):
            d = sv.get('server')
            if not d:
                continue
            n += 1
            b = d['body']
            R.saw(b)
            tag = sv['tag']
            R.check(d['scrutinee_ok'], 'C10.R2', '%s:scrutinee' % tag, site(b), 'matched string = %s' % d['scrutinee'][:80])
            bad = [nm for nm in d['calls'] if nm in ('starts_with', 'ends_with', 'contains', 'strip_prefix', 'strip_suffix', 'find', 'split', 'eq_ignore_ascii_case', 'to_lowercase', 'to_ascii_lowercase')]
            R.check(not bad, 'C10.R2', '%s:whole-path-equality' % tag, site(b), 'partial/case-insensitive string operations in the dispatcher: %r' % bad)
            sn = d.get('service_name')
            R.check(sn is not None, 'C10.R2', '%s:service-name' % tag, site(b), 'SERVICE_NAME = %r' % sn)
            for path, arm in sorted(d['arms'].items()):
                ok = sn is not None and path.startswith('/' + sn + '/') and '/' not in path[len(sn) + 2:] and len(path) > len(sn) + 2
                R.check(ok, 'C10.R2', '%s:arm:%s' % (tag, path), site(b, arm['bb']), 'arm constant %r = "/" + SERVICE_NAME(%r) + "/" + method' % (path, sn))
            R.check(len(d['arms']) >= 1, 'C10.R2', '%s:has-arms' % tag, site(b), 'method arms: %d' % len(d['arms']))
            R.check(len(set(d['arms'])) == d['n_eq'], 'C10.R2', '%s:arms-distinct' % tag, site(b), 'distinct arm constants %d of %d comparisons' % (len(set(d['arms'])), d['n_eq']))
            R.check(d['default_ok'], 'C10.R2', '%s:default-unimplemented' % tag, site(b), 'default arm: %s' % d['default_detail'])
            R.eq(d.get('name_const'), sn, 'C10.R2', '%s:NAME=SERVICE_NAME' % tag, site(b), 'NamedService::NAME of the generated server')
        R.floor('C10.R2', 'generated dispatchers in the workspace', n, 40)

    # ---------------------------------------------------------------- R3 NAME forwarding
    R.describe('C10.R3', 'every NamedService impl of a wrapper type (InterceptedService, Layered, GrpcWebService) forwards NAME of the wrapped service type parameter, never a literal')
    with R.guard('C10.R3'):
        n = 0
        for crate in (tonic, R.crate('tonic_web')):
            for im in crate.impls:
                if not (im.get('trait') or '').endswith('server::NamedService'):
                    continue
                if 'generated' in (im.get('self') or '') or '_server::' in (im.get('self') or ''):
                    continue
                cpath = im['items'].get('NAME')
                cb = crate.by_path.get(cpath)
                if not cb:
                    R.bad('C10.R3', 'impl:%s' % im['self'][:50], '', 'no body for %s' % cpath, kind='ANCHOR-MISSING')
                    continue
                n += 1
                b = cb[0]
                R.saw(b)
                rt = mirlib.returned_terms(b)
                v = strip_refs(rt[0][1]) if rt else ('x',)
                okv = v[0] == 'constdef' and v[1].endswith('NamedService::NAME') and bool(v[2].get('ga')) and v[2]['ga'][0] in im.get('generics', [])
                R.check(okv, 'C10.R3', 'forward:%s' % re.sub(r'<.*', '', im['self']).split('::')[-1], site(b), 'NAME of %s = %s (type parameters %r)' % (im['self'], show(v), im.get('generics')))
        R.floor('C10.R3', 'wrapper NamedService impls', n, 3)

    # ---------------------------------------------------------------- R4 generator: one formatter
    R.describe('C10.R4', 'tonic-build: format_method_path = "/" + format_service_name(service, emit_package) + "/" + method.identifier(); format_service_name joins package and identifier with "." only when the package is non-empty; the server match arms are built from format_method_path')
    with R.guard('C10.R4'):
        gen.check_formatters(R, 'C10.R4')
