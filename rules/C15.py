"""C15 — TLS channels and servers authenticate the peer and insist on HTTP/2 (wiring clauses, feature tls-ring)."""
import re
from common import *
import mirlib

META = {
    'explanation': 'TLS wiring is decided on the MIR extracted with a TLS feature: on the https branch of Connector::call every path to an Ok '
                   'result passes TlsConnector::connect (no plaintext path, missing config => error); trust roots receive elements only '
                   'from the configured sources; no custom certificate verifier exists anywhere in the crate; the server name flows from '
                   'the config/URI to the rustls connect call; ALPN h2 is pushed on both sides and checked on the client unless '
                   'assume_http2; client-auth verifier shape and argument order of the acceptor construction; plaintext ServerIo only '
                   'when no TLS state is configured; peer certificates plumbing.',
    'exhaustive': True,
    'assumptions': ['rustls verifies chains, names and client certificates as documented when built through its safe builders'],
}


def run(R):
    tonic = R.crate('tonic')
    OPT = None
    if '_tls-any' not in tonic.features:
        R.bad('C15.R0', 'tls-feature', '', 'facts were extracted without a TLS feature: %r' % tonic.features, kind='ANCHOR-MISSING')
        return

    # ---------------------------------------------------------------- R1 no plaintext on https
    R.describe('C15.R1', 'Connector::call: is_https = (uri.scheme_str() == Some("https")); on the https edge every Ok result comes from TlsConnector::connect, tls == None => Err(HttpsUriWithoutTlsSupport); the plaintext BoxedIo is built only on the non-https edge')
    with R.guard('C15.R1'):
        call = tonic.body(re.compile(r'connector::Connector<C> as tower_service::Service<http::Uri>>::call$'))
        R.saw(call)
        eq = [(bb, t) for bb, t in call.calls(name='eq') if term_contains(call.origin(t['args'][0]), lambda x: is_call(x, name='scheme_str')) or term_contains(call.origin(t['args'][1]), lambda x: is_call(x, name='scheme_str'))]
        okh = False
        for bb, t in eq:
            other = [call.origin(a) for a in t['args']]
            okh = any(term_contains(o, lambda x: x and x[0] == 'const' and x[1] == 'https') for o in other)
        # .. or uri.scheme_str().is_some_and(|s| s == "https")
        isa = [(bb, t) for bb, t in call.calls(name='is_some_and') if term_contains(call.origin(t['args'][0]), lambda x: is_call(x, name='scheme_str'))]
        if not eq and len(isa) == 1:
            f_ = opt_eq_form(tonic, call.origin({'cp': {'l': isa[0][1]['dest']['l']}}))
            okh = f_ is not None and term_contains(f_[1], lambda x: x and x[0] == 'const' and x[1] == 'https')
            eq = isa
        R.check(len(eq) == 1 and okh, 'C15.R1', 'is_https-definition', site(call), 'is_https = uri.scheme_str() == Some("https"): %r' % okh)
        # the future that establishes the connection: an async block of call(), or the coroutine of an async helper it instantiates
        inner = [c for c in family(tonic, call) if c.kind == 'coroutine']
        tgt = [c for c in inner if c.calls(name='connect') or c.calls(pat='BoxedIo', name='new')]
        if len(tgt) != 1:
            raise CheckError('UNRECOGNISED: %d inner coroutines with the connect logic' % len(tgt))
        co = tgt[0]
        R.saw(co)
        # the https flag by what it is (the scheme comparison made in call(), followed through the captures), not by its name
        def is_https_flag(t_):
            r_ = resolve_env(tonic, co, t_)
            return term_contains(r_, lambda x: is_call(x) and x[3] in ('eq', 'is_some_and') and term_contains(x, lambda y: is_call(y, name='scheme_str')))
        tlsf = [f_['n'] for f_ in tonic.adt('channel::service::connector::Connector')['variants'][0]['fields'] if 'TlsConnector' in f_['ty']]
        sw = [bb for bb in sorted(co.live_blocks()) if co.term(bb)['k'] == 'switch' and is_https_flag(co.origin(co.term(bb)['on']))]
        if len(sw) != 1:
            raise CheckError('UNRECOGNISED: %d switches on is_https' % len(sw))
        edges = co.switch_edges(sw[0])
        t_https = [t for t, vals in edges.items() if vals == ['else'] or (0 not in vals and 'else' not in vals)]
        t_plain = [t for t, vals in edges.items() if vals == [0]]
        plain = [(bb, t) for bb, t in co.calls(pat='BoxedIo', name='new')]
        R.check(len(plain) == 1, 'C15.R1', 'plaintext-site', site(co), 'BoxedIo::new (plaintext) sites: %d' % len(plain))
        for bb, t in plain:
            g = co.edge_guards(bb)
            R.check(any(s == sw[0] and vals == [0] for s, vals, tm in g), 'C15.R1', 'plaintext-only-when-not-https', site(co, bb), 'plaintext BoxedIo is built only on the is_https == false edge')
            R.check(bb not in co.reachable(t_https[0], removed={sw[0]}) if t_https else False, 'C15.R1', 'plaintext-unreachable-from-https', site(co, bb), 'no path from the https edge reaches the plaintext construction')
        conn = co.calls(pat='TlsConnector', name='connect')
        R.check(len(conn) == 1, 'C15.R1', 'tls-connect-site', site(co), 'TlsConnector::connect sites: %d' % len(conn))
        oks = [(bb, ops) for bb, i, p, a, ops in mirlib.aggregates(co, 'result::Result', 'Ok')]
        https_reach = co.reachable(t_https[0], removed={sw[0]}) if t_https else set()
        for bb, ops in oks:
            if bb in https_reach and (not plain or bb not in co.reachable(t_plain[0], removed={sw[0]}) or True):
                v = co.origin(ops[0])
                if bb in https_reach and bb not in (co.reachable(t_plain[0], removed={sw[0]}) if t_plain else set()):
                    R.check(term_contains(v, lambda x: is_call(x, name='connect') and 'TlsConnector' in x[1]), 'C15.R1', 'https-ok-is-tls-io', site(co, bb), 'Ok value on the https edge = %s' % show(v)[:100])
        errs = [bb for bb, t in co.calls() if 'HttpsUriWithoutTlsSupport' in show(co.origin(t['args'][0]) if t['args'] else ('x',))]
        hs = [x for x in mirlib.aggregates(co) if (x[3].get('adt') or '').endswith('HttpsUriWithoutTlsSupport')]
        R.check(len(hs) == 1 and any(tm[0] == 'discr' and len(tlsf) == 1 and mentions_field(resolve_env(tonic, co, tm), tlsf[0]) and vals in ([0], ['else']) for s, vals, tm in co.edge_guards(hs[0][0])) and hs[0][0] in https_reach, 'C15.R1', 'no-config->error', site(co), 'https without a TLS config -> Err(HttpsUriWithoutTlsSupport)')
        if conn:
            g = co.edge_guards(conn[0][0])
            R.check(any(s == sw[0] and vals != [0] for s, vals, tm in g), 'C15.R1', 'tls-on-https-edge', site(co, conn[0][0]), 'TlsConnector::connect on the https edge')

    # ---------------------------------------------------------------- R2 trust roots / no verifier override
    R.describe('C15.R2', 'TlsConnector::new: with_root_certificates(roots) where roots receive elements only from trust_anchors / ca_certs / the two explicit optional sources; crate-wide: no dangerous(), no custom certificate verifier, no ServerCertVerifier/ClientCertVerifier impl')
    with R.guard('C15.R2'):
        nw = tonic.body('channel::service::tls::TlsConnector::new')
        R.saw(nw)
        wr = nw.calls(name='with_root_certificates')
        R.check(len(wr) == 1, 'C15.R2', 'with_root_certificates', site(nw), 'with_root_certificates sites: %d' % len(wr))
        # the store handed to with_root_certificates is the one RootCertStore::from_iter(..) made here (possibly returned by a helper
        # through Ok(..)?), and everything added to that store counts as a source
        is_init = lambda x: is_call(x, name='from_iter') and 'RootCertStore' in (x[1] or '') + str(x[4].get('self_ty') or '')
        roots_local = mirlib.named_root(nw, wr[0][1]['args'][1]) if wr else None
        given = nw.origin(wr[0][1]['args'][1]) if wr else None
        R.check(given is not None and term_contains(given, is_init), 'C15.R2', 'roots-variable', site(nw), 'root store handed to with_root_certificates: %s' % (show(given)[:100] if given is not None else None))
        srcs = []
        for bb, t in nw.calls():
            if t.get('name') in ('from_iter', 'add_parsable_certificates', 'extend', 'add', 'add_trust_anchors', 'push') and t['args']:
                if t.get('name') == 'from_iter' and 'RootCertStore' in (t.get('fn') or '') + (t.get('self_ty') or ''):
                    srcs.append(('init', show(nw.origin(t['args'][0]))[:80], bb))
                elif (mirlib.named_root(nw, t['args'][0]) == roots_local and roots_local is not None) or is_init(strip_refs(nw.origin(t['args'][0]))):
                    srcs.append((t['name'], show(nw.origin(t['args'][1]))[:120], bb))
        allowed = lambda s: ('trust_anchors' in s) or ('ca_certs' in s or 'cert' in s and 'convert_certificate_to_pki_types' in s) or 'load_native_certs' in s or 'TLS_SERVER_ROOTS' in s or 'certs' in s
        for kind, s, bb in srcs:
            okk = ('trust_anchors' in s) or ('convert_certificate_to_pki_types' in s) or ('load_native_certs' in s) or ('TLS_SERVER_ROOTS' in s)
            R.check(okk, 'C15.R2', 'root-source:%s' % kind, site(nw, bb), 'roots.%s(%s): only configured sources may feed the trust store' % (kind, s))
        R.floor('C15.R2', 'root sources', len(srcs), 2)
        offenders = []
        for bd in tonic.bodies:
            if bd.kind == 'promoted':
                continue
            for bb, t in bd.calls():
                if t.get('name') in ('dangerous', 'with_custom_certificate_verifier', 'set_certificate_verifier', 'with_client_cert_verifier_unchecked'):
                    offenders.append('%s (%s)' % (short(bd.path), bd.loc(bb)))
        R.check(not offenders, 'C15.R2', 'no-verifier-override', '', 'calls to rustls dangerous()/custom verifier APIs in tonic: %r' % offenders)
        impls = [i for i in tonic.impls if re.search(r'(ServerCertVerifier|ClientCertVerifier)$', i.get('trait') or '')]
        R.check(not impls, 'C15.R2', 'no-verifier-impl', '', 'impls of rustls verifier traits in tonic: %r' % [i.get('self') for i in impls])
        # positive control for the who-may-call query: it must be able to see rustls builder calls at all
        ctrl = [1 for bd in tonic.bodies for bb, t in bd.calls() if t.get('name') in ('with_root_certificates', 'with_client_cert_verifier')]
        R.check(len(ctrl) >= 2, 'C15.R2', 'no-verifier-override:positive-control', '', 'the query sees %d rustls builder call sites (must be > 0 to be meaningful)' % len(ctrl))

    # ---------------------------------------------------------------- R3 server name
    R.describe('C15.R3', 'the name verified is the configured domain, else the URI host: into_tls_connector -> TlsConnector::new(domain) -> ServerName::try_from(domain) -> self.domain -> RustlsConnector::connect(domain, io)')
    with R.guard('C15.R3'):
        it = tonic.body('channel::tls::ClientTlsConfig::into_tls_connector')
        R.saw(it)
        c = it.calls(pat='TlsConnector::new')
        if len(c) != 1:
            raise CheckError('ANCHOR-MISSING: TlsConnector::new call in into_tls_connector')
        # .. and that call is where every connector handed out comes from: each Ok(..) return of into_tls_connector is dominated by it
        # (a connector kept from an earlier call - a cache shared by the clones of one ClientTlsConfig - carries the host name of
        # the *first* endpoint, so a second endpoint's certificate is checked against the wrong name)
        bad_early = []
        for wb_ in writers_of(it, 0):
            if it.dominates(c[0][0], wb_) or wb_ == c[0][0]:
                continue
            t_ = it.term(wb_)
            is_err = (t_['k'] == 'call' and t_.get('name') == 'from_residual' and t_['dest']['l'] == 0) or any(w_[0] == 'variant' and w_[2] == 'Err' for w_ in block_writes(it, wb_, 0))
            if not is_err:
                bad_early.append(wb_)
        R.check(not bad_early, 'C15.R3', 'connector-built-for-this-uri', site(it, bad_early[0]) if bad_early else site(it, c[0][0]),
                'every connector returned by into_tls_connector is built by TlsConnector::new in this call (returns that do not pass through it: %d)' % len(bad_early))
        # which argument is the verified name: the one fed by self.domain / uri.host()
        dom_i = [i_ for i_, a_ in enumerate(c[0][1]['args']) if mentions_field(it.origin(a_), 'domain') or term_contains(it.origin(a_), lambda x: is_call(x, name='host'))]
        if len(dom_i) != 1:
            raise CheckError('UNRECOGNISED: %d arguments of TlsConnector::new are fed by self.domain / uri.host()' % len(dom_i))
        DOMAIN_N = dom_i[0] + 1
        dterm = strip_refs(it.origin(c[0][1]['args'][dom_i[0]]))
        alts = dterm[1] if dterm[0] == 'phi' else [dterm]
        kinds = set()
        for alt in alts:
            if term_contains(alt, lambda x: is_call(x, name='host')):
                kinds.add('uri-host')
                R.check(term_contains(alt, lambda x: is_call(x, name='host') and term_contains(x, lambda y: y and y[0] == 'arg' and y[2] == 'uri')), 'C15.R3', 'uri-host-when-none', site(it), 'fallback name = uri.host(): %s' % show(alt)[:100])
            elif mentions_field(alt, 'domain'):
                kinds.add('configured')
                R.check(term_contains(alt, lambda x: x and x[0] == 'variant' and x[2] == 'Some'), 'C15.R3', 'configured-domain-when-some', site(it), 'configured name = self.domain (Some): %s' % show(alt)[:100])
        # the match is on self.domain: Some -> configured, None -> host
        dl = None
        if dterm[0] == 'phi':
            dl = dterm[2]
            for wb in writers_of(it, dl):
                g = it.edge_guards(wb)
                w = block_writes(it, wb, dl)
                isv = any('host' in show(x[1] if x[0] == 'term' else x) for x in w)
                want = ([0], ['else']) if isv else ([1],)
                R.check(any(tm[0] == 'discr' and 'domain' in show(tm) and vals in want for s_, vals, tm in g), 'C15.R3', 'domain-arm:%s' % ('host' if isv else 'configured'), site(it, wb), 'guards: %r' % [(v, show(tm)[:40]) for s_, v, tm in g])
        R.eq(sorted(kinds), ['configured', 'uri-host'], 'C15.R3', 'domain-sources', site(it), 'sources of the verified name')
        args = c[0][1]['args']
        # each configuration field reaches the connector: the material (possibly pre-assembled by a helper), and each flag as exactly
        # one argument — the position the flag is passed in is the parameter the rules below follow inside TlsConnector::new
        for wn in ('certs', 'trust_anchors', 'identity'):
            hits = [i_ for i_, a_ in enumerate(args) if mentions_field(it.origin(a_), wn)]
            R.check(len(hits) >= 1, 'C15.R3', 'connector-arg:%s' % wn, site(it, c[0][0]), 'self.%s reaches TlsConnector::new (arguments %r)' % (wn, hits))
        FLAG_N = {}
        for wn in ('assume_http2', 'use_key_log'):
            hits = [i_ for i_, a_ in enumerate(args) if field_names(it.origin(a_))[-1:] == [wn]]
            R.check(len(hits) == 1, 'C15.R3', 'connector-arg:%s' % wn, site(it, c[0][0]), 'self.%s is passed to TlsConnector::new as exactly one argument: %r' % (wn, hits))
            FLAG_N[wn] = hits[0] + 1 if len(hits) == 1 else None
        ASSUME_N = FLAG_N['assume_http2']
        # the URI whose host is the fallback name is the URI that is dialled (endpoint.uri), never the origin override
        sites = call_sites_in_crate(tonic, pat='ClientTlsConfig::into_tls_connector')
        R.floor('C15.R3', 'into_tls_connector call sites', len(sites), 1)
        for cb_, cbb, ct in sites:
            ua = cb_.origin(ct['args'][1])
            oku = mentions_field(ua, 'uri') and not mentions_field(ua, 'origin') and not term_contains(ua, lambda x: is_call(x) and x[3] in ('unwrap_or', 'or', 'unwrap_or_else', 'or_else'))
            R.check(oku, 'C15.R3', 'verified-host-is-dialled-uri:%s' % short(cb_.path).split('::')[-1], site(cb_, cbb), 'into_tls_connector(uri) receives %s (the endpoint\'s own uri; the `origin` override only changes the :authority sent)' % show(ua)[:100])
        nw = tonic.body('channel::service::tls::TlsConnector::new')
        sn = [(bb, t) for bb, t in nw.calls(name='try_from') if 'ServerName' in (t.get('self_ty') or '') + (t.get('fn') or '') + (t.get('resolved') or '')]
        R.check(len(sn) == 1 and show(strip_refs(nw.origin(sn[0][1]['args'][0]))).startswith('arg%d' % DOMAIN_N), 'C15.R3', 'ServerName-from-domain-arg', site(nw), 'ServerName::try_from(domain)')
        ag = mirlib.aggregates(nw, 'channel::service::tls::TlsConnector')
        okd = len(ag) == 1 and term_contains(nw.origin(ag[0][4][ag[0][3]['fields'].index('domain')]), lambda x: is_call(x, name='try_from'))
        # the opt-out flag of the connector: the field that stores the assume_http2 parameter (argument 5, as passed by
        # into_tls_connector above) — as the bool itself, or as a field-less enum chosen by that bool alone
        OPT = None
        if len(ag) == 1:
            for fname_, op_ in zip(ag[0][3]['fields'], ag[0][4]):
                o_ = strip_refs(mirlib.simplify(nw.origin(op_)))
                if o_[:2] == ('arg', ASSUME_N):
                    OPT = (fname_, 'bool', None)
            if OPT is None:
                meta_ = {}
                by_flag = {}
                for cons_, path_ in mirlib.path_rows(nw, stop={ag[0][0]}, meta=meta_, relevant=lambda sub_: sub_.startswith('arg%s' % ASSUME_N)):
                    if path_[-1] != ag[0][0]:
                        continue
                    fl_ = [(op2_, v_) for sub_, op2_, v_ in cons_ if sub_.startswith('arg%s' % ASSUME_N)]
                    truth_ = None if not fl_ else ((fl_[-1][0] == '==' and fl_[-1][1] not in (0, False)) or (fl_[-1][0] in ('!=', 'notin') and (fl_[-1][1] in (0, False) or fl_[-1][1] == (0,))))
                    for fname_, op_ in zip(ag[0][3]['fields'], ag[0][4]):
                        v_ = strip_refs(mirlib.simplify(nw.origin_on_path(op_, path_)))
                        if v_ and v_[0] == 'agg' and v_[1].get('kind') == 'adt' and v_[1].get('variant') and not v_[2] and 'tls::' in (v_[1].get('adt') or ''):
                            by_flag.setdefault(fname_, {}).setdefault(truth_, set()).add(v_[1]['variant'])
                for fname_, m_ in by_flag.items():
                    if set(m_) == {True, False} and len(m_[True]) == 1 and len(m_[False]) == 1 and m_[True] != m_[False]:
                        OPT = (fname_, 'enum', list(m_[True])[0])
        oka = OPT is not None
        R.check(okd and oka, 'C15.R3', 'connector-fields', site(nw), 'TlsConnector{domain: ServerName(domain), <opt-out flag>: from assume_http2}: %r/%r (%r)' % (okd, oka, OPT))
        # the key-log flag: config.key_log is installed in the client configuration only on the true edge of the parameter that
        # into_tls_connector feeds with self.use_key_log (two bools side by side are easily swapped at a call site)
        KEYLOG_N = FLAG_N['use_key_log']
        klw = [(bb_, i_, st_) for bb_, i_, st_ in mirlib.assignments(nw, lambda st_: mirlib.place_fields(st_['p'])[-1:] == ['key_log'])]
        okk = len(klw) == 1 and KEYLOG_N is not None and any(strip_refs(tm_)[:2] == ('arg', KEYLOG_N) and nw.edge_truth(s_, vals_) is True for s_, vals_, tm_ in nw.edge_guards(klw[0][0]))
        R.check(okk, 'C15.R3', 'client-key_log-iff-use_key_log', site(nw, klw[0][0]) if klw else site(nw), 'config.key_log is installed only when the parameter fed by self.use_key_log (#%s) is set: %r' % (KEYLOG_N, okk))
        if OPT is None:
            raise CheckError('UNRECOGNISED: no field of TlsConnector stores the assume_http2 argument')
        cn = tonic.body('channel::service::tls::TlsConnector::connect::{closure#0}')
        R.saw(cn)
        rc = [(bb, t) for bb, t in cn.calls(name='connect') if 'tokio_rustls' in (t.get('fn') or '')]
        R.check(len(rc) == 1 and mentions_field(cn.origin(rc[0][1]['args'][1]), 'domain') and mentions_field(cn.origin(rc[0][1]['args'][0]), 'config'), 'C15.R3', 'rustls-connect(domain)', site(cn), 'RustlsConnector::from(self.config).connect(self.domain, io)')

    # ---------------------------------------------------------------- R4 ALPN
    R.describe('C15.R4', 'ALPN: h2 is offered by the client connector and the server acceptor; the client returns Ok only if alpn_protocol() == Some(h2) or assume_http2')
    with R.guard('C15.R4'):
        alpn = tonic.body('transport::service::tls::ALPN_H2')
        lit = [const_val(alpn._origin_def(d, 0, {0})) for d in alpn.defs().get(0, [])]
        okl = any(v == b'h2' for v in lit) or any(const_val(t) == b'h2' for bb in alpn.live_blocks() for st in alpn.blocks[bb]['stmts'] if 'rv' in st for t in [alpn._origin_def(('stmt', bb, 0, st['rv']), 0, set())])
        R.check(okl, 'C15.R4', 'ALPN_H2=h2', site(alpn), 'ALPN_H2 = b"h2": %r' % lit)
        for path in ('channel::service::tls::TlsConnector::new', 'server::service::tls::TlsAcceptor::new'):
            b = tonic.body(path)
            R.saw(b)
            ps = [(bb, t) for bb, t in b.calls(name='push') if 'alpn_protocols' in show(b.origin(t['args'][0])) or recv_place_fields(b, t['args'][0])[-1:] == ['alpn_protocols']]
            okp = len(ps) == 1 and mentions_constdef(b.origin(ps[0][1]['args'][1]), 'ALPN_H2')
            R.check(okp, 'C15.R4', 'push-h2:%s' % path.split('::')[-2], site(b), 'config.alpn_protocols.push(ALPN_H2): %r' % okp)
            if ps:
                okret = all(b.dominates(ps[0][0], ob) for ob, i, p, a, ops in mirlib.aggregates(b, 'result::Result', 'Ok') if p['l'] == 0)
                R.check(okret, 'C15.R4', 'push-h2-unconditional:%s' % path.split('::')[-2], site(b, ps[0][0]), 'the push dominates the Ok return')
        cn = tonic.body('channel::service::tls::TlsConnector::connect::{closure#0}')
        ap = cn.calls(name='alpn_protocol')
        R.check(len(ap) == 1, 'C15.R4', 'alpn-read', site(cn), 'alpn_protocol() sites: %d' % len(ap))
        # Ok is reachable only through the edge "alpn == Some(h2)" or the edge "assume_http2 == true"
        okret = [bb for bb, i, p, a, ops in mirlib.aggregates(cn, 'result::Result', 'Ok') if p['l'] == 0]
        # by feasible path from the alpn_protocol() read to an Ok return: the path asserts "alpn == Some(h2)" or "assume_http2"
        is_alpn = lambda t_: term_contains(t_, lambda x: is_call(x, name='alpn_protocol'))
        is_h2 = lambda t_: mentions_constdef(t_, 'ALPN_H2')
        meta = {}
        start = ap[0][0] if ap else 0
        rows = mirlib.path_rows(cn, start=start, stop=set(okret), meta=meta, limit=200000)
        terms = meta.get('__terms__', {})
        nok = 0
        seen_cmp = False
        if OPT is None:
            raise CheckError('UNRECOGNISED: the connector field carrying the assume_http2 opt-out was not identified (see C15.R3 connector-fields); the ALPN decision cannot be read')
        for cons, path in rows:
            if path[-1] not in okret:
                continue
            nok += 1
            h2 = False
            opt = False
            some = False
            for subj, op, v in cons:
                t_ = terms.get(subj)
                if t_ is None:
                    continue
                truth = (op == '==' and v not in (0, False)) or (op == '!=' and v in (0, False)) or (op == 'notin' and 0 in v)
                falsy = (op == '==' and v in (0, False)) or (op == '!=' and v not in (0, False))
                neg = False
                u_ = t_
                while u_ and u_[0] == 'un' and u_[1] == 'Not':
                    u_ = u_[2]; neg = not neg
                val_true = (truth and not neg) or (falsy and neg)
                c_ = strip_refs(u_)
                if is_call(c_) and c_[3] in ('eq', 'ne') and len(c_[2]) == 2:
                    sides = [strip_refs(x) for x in c_[2]]
                    want = val_true if c_[3] == 'eq' else ((falsy and not neg) or (truth and neg))
                    whole = any(is_call(x, name='alpn_protocol') for x in sides) and any(x[0] == 'agg' and x[1].get('variant') == 'Some' and is_h2(x) for x in sides)
                    payload = any(term_contains(x, lambda y: y and y[0] == 'variant' and y[2] == 'Some' and is_call(strip_refs(y[1]), name='alpn_protocol')) for x in sides) and any(is_h2(x) and not is_alpn(x) for x in sides)
                    if whole or payload:
                        seen_cmp = True
                    if want and whole:
                        h2 = True
                    if want and payload:
                        h2 = True  # the payload only exists on the Some arm
                elif is_call(c_, name='is_some_and') and opt_eq_form(tonic, c_) is not None:
                    x_, k_ = opt_eq_form(tonic, c_)
                    if is_call(strip_refs(x_), name='alpn_protocol') and is_h2(k_):
                        seen_cmp = True   # alpn_protocol().is_some_and(|p| p == ALPN_H2): None does not match
                        if val_true:
                            h2 = True
                elif u_[0] == 'discr' and is_call(strip_refs(u_[1]), name='alpn_protocol'):
                    pass
                elif OPT[1] == 'bool' and field_names(u_)[-1:] == [OPT[0]] and val_true:
                    opt = True
                elif OPT[1] == 'enum' and u_[0] == 'discr' and field_names(u_[1])[-1:] == [OPT[0]]:
                    names_ = dict(meta.get(subj, []))
                    if op == '==' and names_.get(v) == OPT[2]:
                        opt = True
                    elif op == 'notin' and [n_ for d_, n_ in meta.get(subj, []) if d_ not in v] == [OPT[2]]:
                        opt = True
            R.check(h2 or opt, 'C15.R4', 'ok-requires-h2-or-opt-out', site(cn, path[-1]), 'a path to Ok asserts alpn_protocol() == Some(h2) (%r) or assume_http2 (%r)' % (h2, opt))
        R.check(seen_cmp, 'C15.R4', 'compares-with-Some(h2)', site(cn), 'alpn_protocol() is compared with Some(ALPN_H2) — None (no ALPN negotiated) does not match: %r' % seen_cmp)
        R.floor('C15.R4', 'paths to Ok after the ALPN read', nok, 2)
        h2e = [x for x in mirlib.aggregates(cn) if x[3].get('variant') == 'H2NotNegotiated']
        R.check(len(h2e) == 1, 'C15.R4', 'error-kind', site(cn), 'TlsError::H2NotNegotiated sites: %d' % len(h2e))

    # ---------------------------------------------------------------- R5 client auth on the server
    R.describe('C15.R5', 'TlsAcceptor::new: no client CA -> with_no_client_auth; else WebPkiClientVerifier::builder(roots of that CA only), allow_unauthenticated only when client_auth_optional; ServerTlsConfig::tls_acceptor passes the same-named fields in order')
    with R.guard('C15.R5'):
        b = tonic.body('server::service::tls::TlsAcceptor::new')
        ta = tonic.body('server::tls::ServerTlsConfig::tls_acceptor')
        R.saw(b, ta)
        c = ta.calls(pat='TlsAcceptor::new')
        if len(c) != 1:
            raise CheckError('ANCHOR-MISSING: %d calls of TlsAcceptor::new in ServerTlsConfig::tls_acceptor' % len(c))
        # which ServerTlsConfig field each location of TlsAcceptor::new (a parameter, or a field of a parameter struct) is fed from
        fmap = callsite_field_map(tonic, ta, c[0][1])
        R.note('TlsAcceptor::new is fed: %r' % {str(k): v for k, v in sorted(fmap.items())})

        def cfg(t_):
            lo = callee_loc(strip_refs(mirlib.simplify(t_)))
            return fmap.get(lo) if lo else None
        want = ['identity', 'client_ca_root', 'client_auth_optional', 'ignore_client_order', 'use_key_log']
        R.eq(sorted(set(fmap.values()) & set(want)), sorted(want), 'C15.R5', 'acceptor-args-in-order', site(ta), 'the configuration fields handed to TlsAcceptor::new')
        nca = b.calls(name='with_no_client_auth')
        R.check(len(nca) == 1 and any(tm[0] == 'discr' and cfg(tm) == 'client_ca_root' and vals in ([0], ['else']) for s, vals, tm in b.edge_guards(nca[0][0])), 'C15.R5', 'no-ca->no-client-auth', site(b), 'with_no_client_auth only when client_ca_root is None')
        wb = [(bb, t) for bb, t in b.calls(name='builder') if 'WebPkiClientVerifier' in (t.get('fn') or '')]
        R.floor('C15.R5', 'verifier builder sites', len(wb), 1)
        adds = [(bb, t) for bb, t in b.calls(name='add_parsable_certificates')]
        for bb, t in wb:
            r = b.origin(t['args'][0])
            # the store handed to the verifier is the one the client CA was added to
            stores = [strip_refs(x) for x in find_terms(r, lambda x: is_call(x, name='empty') and 'RootCertStore' in x[1])]
            added_to = [strip_refs(x) for bb2, t2 in adds for x in find_terms(b.origin(t2['args'][0]), lambda x: is_call(x, name='empty') and 'RootCertStore' in x[1])]
            R.check(bool(stores) and all(any(s_[4] is a_[4] for a_ in added_to) for s_ in stores), 'C15.R5', 'verifier-roots', site(b, bb), 'verifier roots = %s' % show(r)[:80])
            R.check(any(tm[0] == 'discr' and cfg(tm) == 'client_ca_root' and vals == [1] for s, vals, tm in b.edge_guards(bb)), 'C15.R5', 'verifier-when-ca', site(b, bb), 'verifier built only when a client CA is configured')
        okadd = len(adds) == 1 and any(cfg(x[2][0]) == 'client_ca_root' for x in find_terms(b.origin(adds[0][1]['args'][1]), lambda x: is_call(x, name='convert_certificate_to_pki_types')))
        R.check(okadd, 'C15.R5', 'roots-from-client-ca-only', site(b), 'client roots come from client_ca_root only (add sites: %d)' % len(adds))
        au = b.calls(name='allow_unauthenticated')
        R.check(len(au) == 1, 'C15.R5', 'allow_unauthenticated-site', site(b), 'allow_unauthenticated sites: %d' % len(au))
        for bb, t in au:
            g = b.edge_guards(bb)
            okg = any(cfg(tm) == 'client_auth_optional' and tm[0] != 'discr' and b.edge_truth(s, vals) is True for s, vals, tm in g)
            R.check(okg, 'C15.R5', 'optional-iff-client_auth_optional', site(b, bb), 'allow_unauthenticated guarded by client_auth_optional: %r' % [(v, show(tm)[:30], cfg(tm)) for s, v, tm in g])
        wv = b.calls(name='with_client_cert_verifier')
        R.check(len(wv) == 1 and term_contains(b.origin(wv[0][1]['args'][1]), lambda x: is_call(x, name='build')), 'C15.R5', 'verifier-installed', site(b), 'with_client_cert_verifier(built verifier)')
        ic = [(bb, i, st) for bb, i, st in mirlib.assignments(b, lambda st: mirlib.place_fields(st['p'])[-1:] == ['ignore_client_order'])]
        R.check(len(ic) == 1 and cfg(b._origin_def(('stmt', ic[0][0], ic[0][1], ic[0][2]['rv']), 0, set())) == 'ignore_client_order', 'C15.R5', 'ignore_client_order-from-arg4', site(b), 'config.ignore_client_order = the configured ignore_client_order')
        kl = [(bb, i, st) for bb, i, st in mirlib.assignments(b, lambda st: mirlib.place_fields(st['p'])[-1:] == ['key_log'])]
        okk = len(kl) == 1 and any(cfg(tm) == 'use_key_log' and tm[0] != 'discr' and b.edge_truth(s, vals) is True for s, vals, tm in b.edge_guards(kl[0][0]))
        R.check(okk, 'C15.R5', 'key_log-iff-use_key_log', site(b), 'config.key_log is installed only when use_key_log is set (a swapped flag would write TLS secrets to SSLKEYLOGFILE)')

    # ---------------------------------------------------------------- R6 server IO
    R.describe('C15.R6', 'ServerIoStream: plaintext ServerIo::new_io only in poll_next_without_tls, which is used only when no TLS state is configured; ServerIo::new_tls_io only after tls.accept(stream).await succeeded')
    with R.guard('C15.R6'):
        ni = sorted({short(bd.path) for bd, bb, t in call_sites_in_crate(tonic, pat='ServerIo::<IO>::new_io')} | {short(bd.path) for bd, bb, t in call_sites_in_crate(tonic, pat='ServerIo', name='new_io')})
        R.eq(ni, ['tonic::transport::server::io_stream::ServerIoStream::poll_next_without_tls'], 'C15.R6', 'new_io-callers', '', 'bodies constructing plaintext ServerIo')
        pn = tonic.body(re.compile(r'io_stream::ServerIoStream<S, IO, IE> as tokio_stream::Stream>::poll_next$'))
        R.saw(pn)
        wo = pn.calls(name='poll_next_without_tls')
        R.check(len(wo) == 1, 'C15.R6', 'fallback-site', site(pn), 'poll_next_without_tls sites: %d' % len(wo))
        for bb, t in wo:
            g = pn.edge_guards(bb)
            okg = any(tm[0] == 'discr' and 'state' in show(tm) and vals in ([0], ['else']) for s, vals, tm in g)
            R.check(okg, 'C15.R6', 'plaintext-only-without-tls-state', site(pn, bb), 'guards: %r' % [(v, show(tm)[:50]) for s, v, tm in g])
        nt = [(bd, bb, t) for bd, bb, t in call_sites_in_crate(tonic, name='new_tls_io')]
        R.check(len(nt) == 1, 'C15.R6', 'new_tls_io-site', '', 'ServerIo::new_tls_io sites: %d' % len(nt))
        for bd, bb, t in nt:
            R.saw(bd)
            v = bd.origin(t['args'][0])
            okv = term_contains(v, lambda x: is_call(x, name='accept') and 'TlsAcceptor' in x[1]) and term_contains(v, lambda x: x and x[0] == 'variant' and x[2] == 'Continue')
            R.check(okv, 'C15.R6', 'tls-io-after-successful-accept', site(bd, bb), 'new_tls_io(%s)' % show(v)[:100])
        ac = tonic.body('server::service::tls::TlsAcceptor::accept::{closure#0}')
        R.saw(ac)
        ra = [(bb, t) for bb, t in ac.calls(name='accept') if 'tokio_rustls' in (t.get('fn') or '')]
        # the handshake runs against the acceptor's own configuration: the receiver of tokio_rustls' accept is (made from) a field of self,
        # and TlsAcceptor::new stores in that field (an acceptor made from) the ServerConfig it built
        okown = False
        if len(ra) == 1:
            recv = resolve_env(tonic, ac, ac.origin(ra[0][1]['args'][0]))
            tadt = tonic.adt('server::service::tls::TlsAcceptor')['variants'][0]['fields']
            used = [f_ for f_ in tadt if mentions_field(recv, f_['n'])]
            tn = tonic.body('server::service::tls::TlsAcceptor::new')
            if len(used) == 1 and arg_root(strip_refs(find_terms(recv, lambda x: x and x[0] == 'field' and x[2] == used[0]['n'])[0])) == 1:
                f_ = used[0]
                made_here = term_contains(recv, lambda x: is_call(x, name='from') and 'tokio_rustls::TlsAcceptor' in x[1])
                shape = (made_here and 'ServerConfig' in f_['ty']) or (not made_here and 'tokio_rustls::TlsAcceptor' in f_['ty'])
                stored = []
                for bb_, i_, p_, a_, ops_ in mirlib.aggregates(tn):
                    if (a_.get('adt') or '').endswith('server::service::tls::TlsAcceptor') and f_['n'] in (a_.get('fields') or []):
                        stored.append(tn.origin(ops_[a_['fields'].index(f_['n'])]))
                built = lambda t_: term_contains(t_, lambda x: is_call(x) and x[3] in ('with_single_cert', 'with_cert_resolver'))
                okown = bool(shape and stored and all(built(t_) and ('ServerConfig' in f_['ty'] or term_contains(t_, lambda x: is_call(x, name='from') and 'tokio_rustls::TlsAcceptor' in x[1])) for t_ in stored))
        R.check(okown, 'C15.R6', 'accept-with-own-config', site(ac), 'RustlsAcceptor::from(self.inner).accept(io), or self.acceptor.accept(io) with the acceptor made from the built config in new()')
        # Server::serve_with wires the acceptor from the tls config
        st = [1 for bd in tonic.bodies for bb, t in bd.calls(name='tls_acceptor')]
        R.check(len(st) >= 1, 'C15.R6', 'acceptor-built-from-config', '', 'ServerTlsConfig::tls_acceptor call sites: %d' % len(st))

    # ---------------------------------------------------------------- R7 peer certificates
    R.describe('C15.R7', 'verified peer certificates are exposed: Connected for TlsStream reads session.peer_certificates(); Request::peer_certs reads TlsConnectInfo from extensions')
    with R.guard('C15.R7'):
        ci = [bd for bd in tonic.bodies if bd.kind == 'fn' and re.search(r'TlsStream<T> as .*Connected>::connect_info$', bd.path)]
        R.check(len(ci) == 1, 'C15.R7', 'connected-impl', '', 'Connected for TlsStream impls: %d' % len(ci))
        for bd in ci:
            R.saw(bd)
            pc = bd.calls(name='peer_certificates')
            ag = [x for x in mirlib.aggregates(bd) if (x[3].get('adt') or '').endswith('TlsConnectInfo')]
            okc = len(pc) == 1 and len(ag) == 1 and term_contains(bd.origin(ag[0][4][ag[0][3]['fields'].index('certs')]), lambda x: is_call(x, name='peer_certificates'))
            R.check(okc, 'C15.R7', 'certs-from-session', site(bd), 'TlsConnectInfo.certs = session.peer_certificates(): %r' % okc)
        pcs = tonic.body('request::Request::<T>::peer_certs')
        R.saw(pcs)
        g = [(bb, t) for bb, t in pcs.calls(name='get') if any('TlsConnectInfo' in x for x in t.get('ga', []))]
        R.check(len(g) >= 1, 'C15.R7', 'peer_certs-reads-extension', site(pcs), 'extensions().get::<TlsConnectInfo<..>>() sites: %d' % len(g))
