"""shared extraction for C10/C11: generated services (client + server modules) in every crate of the build, and
generator-level checks on tonic-build."""
import re
from common import *
import mirlib

SERVER_RE = re.compile(r'^<(?P<mod>.*?)(?P<snake>\w+)_server::(?P<svc>\w+)Server<T> as .*Service<.*Request<B>>>::call$')
CLIENT_RE = re.compile(r'^(?P<crate>\w+)::(?P<mod>.*?)(?P<snake>\w+)_client::(?P<svc>\w+)Client::<T>::(?P<method>\w+)::\{closure#0\}$')
KINDS = ('unary', 'server_streaming', 'client_streaming', 'streaming')

_cache = {}


def collect(R):
    """{(crate, module, Service): {'tag', 'server': {...}, 'client': {method: {...}}}}"""
    if 'services' in _cache and _cache.get('digest') == R.digest:
        return _cache['services']
    allc = R.all_crates('full')
    services = {}
    for cname, crates in sorted(allc.items()):
        crate = crates[0]
        for b in crate.bodies:
            if b.kind == 'fn':
                m = SERVER_RE.match(b.path)
                if m:
                    key = (cname, m.group('mod'), m.group('svc'))
                    sv = services.setdefault(key, {'tag': '%s/%s%s' % (cname, m.group('mod'), m.group('svc')), 'client': {}, 'crate': crate})
                    sv['server'] = server_info(crate, b, m)
            elif b.kind == 'coroutine':
                m = CLIENT_RE.match(b.path)
                if m:
                    key = (cname, m.group('mod'), m.group('svc'))
                    ci = client_info(crate, b)
                    if ci:
                        sv = services.setdefault(key, {'tag': '%s/%s%s' % (cname, m.group('mod'), m.group('svc')), 'client': {}, 'crate': crate})
                        sv['client'][m.group('method')] = ci
    _cache['services'] = services
    _cache['digest'] = R.digest
    return services


def server_info(crate, b, m):
    d = {'body': b, 'arms': {}, 'calls': [t.get('name') for bb, t in b.calls()]}
    rows = [r for r in mirlib.str_eq_chain(b) if isinstance(r['value'], str)]
    d['n_eq'] = len(rows)
    scr = ''
    ok = bool(rows)
    for r in rows:
        s = r['lhs']
        ok = ok and term_contains(s, lambda x: is_call(x, name='path') and 'Uri' in x[1]) and term_contains(s, lambda x: is_call(x, name='uri')) and term_contains(s, lambda x: x and x[0] == 'arg' and x[1] == 2)
        scr = show(s)
    d['scrutinee_ok'] = ok
    d['scrutinee'] = scr
    # arms
    for r in rows:
        tregion = b.reachable(r['true'], removed={r['switch']}) - b.reachable(r['false'], removed={r['switch']})
        arm = {'bb': r['bb'], 'kind': None, 'svc_trait': None, 'handler': None, 'codec': None}
        for x in sorted(tregion):
            for st in b.blocks[x]['stmts']:
                rv = st.get('rv')
                if rv and 'agg' in rv and rv['agg'].get('kind') == 'coroutine':
                    cb = crate.by_path.get(rv['agg']['def'])
                    if cb:
                        arm.update(arm_coroutine(crate, cb[0]))
        d['arms'][r['value']] = arm
    # default arm: blocks reachable when every comparison is false
    default_blocks = set(b.live_blocks())
    for r in rows:
        default_blocks &= (b.reachable(r['false'], removed={r['switch']}) | {r['switch']} | set(b.dominators().get(r['switch'], ())))
        default_blocks -= (b.reachable(r['true'], removed={r['switch']}) - b.reachable(r['false'], removed={r['switch']}))
    dok, detail = False, 'no default coroutine found'
    for x in sorted(default_blocks):
        for st in b.blocks[x]['stmts']:
            rv = st.get('rv')
            if rv and 'agg' in rv and rv['agg'].get('kind') == 'coroutine':
                cb = crate.by_path.get(rv['agg']['def'])
                if cb and not cb[0].calls(pat='server::Grpc'):
                    c = cb[0]
                    d['default_body'] = c
                    ins = c.calls(name='insert')
                    st_ok = any((constdef(c.origin(t['args'][1])) or '').endswith('GRPC_STATUS') and term_contains(c.origin(t['args'][2]), lambda y: y and y[0] == 'const' and y[1] == 12) for bb, t in ins)
                    ct_ok = any((constdef(c.origin(t['args'][1])) or '').endswith('CONTENT_TYPE') and (constdef(c.origin(t['args'][2])) or '').endswith('GRPC_CONTENT_TYPE') for bb, t in ins)
                    nb = c.calls(pat='Response', name='new')
                    dok = st_ok and ct_ok and len(nb) == 1
                    # .. or spelled with the library's own writer: tonic::Status::unimplemented(..).into_http() (status 200, content-type
                    # application/grpc, grpc-status 12 - the router's fallback does the same)
                    ih_ = c.calls(pat='Status::into_http')
                    if not dok and len(ih_) == 1 and is_call(strip_refs(c.origin(ih_[0][1]['args'][0])), pat='Status::unimplemented') and not ins:
                        dok = True
                    detail = 'grpc-status 12: %r, content-type application/grpc: %r, Response::new: %d' % (st_ok, ct_ok, len(nb))
    d['default_ok'] = dok
    d['default_detail'] = detail
    # SERVICE_NAME / NAME
    modpath = b.path[1:b.path.index('Server<T>')]
    modpath = modpath[:modpath.rindex('::')]
    sn = [v for k, v in crate.consts.items() if k.endswith(modpath + '::SERVICE_NAME')]
    d['service_name'] = sn[0].get('v') if len(sn) == 1 else None
    nb = [x for x in crate.bodies if x.kind == 'const' and x.path.startswith('<' + modpath + '::' + m.group('svc') + 'Server<T> as ') and x.path.endswith('NamedService>::NAME')]
    nv = None
    if len(nb) == 1:
        rt = mirlib.returned_terms(nb[0])
        if rt:
            nv = const_val(rt[0][1])
            if nv is None:
                cd = constdef(rt[0][1])
                if cd and cd in crate.consts:
                    nv = crate.consts[cd].get('v')
    d['name_const'] = nv
    return d


def arm_coroutine(crate, c):
    out = {}
    for bb, t in c.calls(pat='tonic::server::Grpc::<T>::'):
        if t.get('name') in KINDS:
            out['kind'] = t['name']
            out['kind_bb'] = bb
            svc = strip_refs(c.origin(t['args'][1]))
            if svc[0] == 'agg' and svc[1].get('adt'):
                out['svc_struct'] = svc[1]['adt']
            out['entry_body'] = c
    for bb, t in c.calls(name='default'):
        for g in t.get('ga', []):
            if 'Codec' in g:
                out['codec'] = g
    # the per-method Svc impl: find its call body via the struct name
    if out.get('svc_struct'):
        nm = out['svc_struct']
        for b2 in crate.bodies:
            if b2.kind == 'coroutine' and ('::' + nm.split('::')[-1] + '<T> as tonic::server::') in b2.path and b2.path.endswith('::call::{closure#0}') and b2.path.startswith('<<' + nm.rsplit('::', 1)[0].lstrip('<')[:40]):
                mt = re.search(r'as tonic::server::(\w+)Service<', b2.path)
                out['svc_trait'] = mt.group(1) if mt else None
                hc = [t for bb, t in b2.calls() if t.get('trait') and t['trait'].split('::')[-1] != 'Deref' and '_server::' in (t.get('fn') or '')]
                if hc:
                    out['handler'] = hc[0].get('name')
                    out['handler_trait'] = hc[0].get('trait')
    return out


def client_info(crate, b):
    ps = b.calls(name='from_static')
    ps = [(bb, t) for bb, t in ps if 'PathAndQuery' in (t.get('fn') or '')]
    if len(ps) != 1:
        return None
    d = {'body': b, 'path': const_val(b.origin(ps[0][1]['args'][0])), 'kind': None, 'grpc_method': None, 'codec': None}
    for bb, t in b.calls(pat='tonic::client::Grpc::<T>::'):
        if t.get('name') in KINDS:
            d['kind'] = t['name']
            d['path_flows'] = term_contains(b.origin(t['args'][2]), lambda x: is_call(x, name='from_static'))
    for bb, t in b.calls(pat='GrpcMethod', name='new'):
        d['grpc_method'] = (const_val(b.origin(t['args'][0])), const_val(b.origin(t['args'][1])))
    for bb, t in b.calls(name='default'):
        for g in t.get('ga', []):
            if 'Codec' in g:
                d['codec'] = g
    return d


KIND_OF_TRAIT = {'Unary': 'unary', 'ServerStreaming': 'server_streaming', 'ClientStreaming': 'client_streaming', 'Streaming': 'streaming'}


def check_formatters(R, rule):
    tb = R.crate('tonic_build')
    fm = tb.body('tonic_build::format_method_path')
    fs = tb.body('tonic_build::format_service_name')
    R.saw(fm, fs)
    rt = mirlib.returned_terms(fm)
    tpl, args = recipe_template(string_recipe(fm, rt[0][1])) if rt else (None, [])
    R.eq(tpl, '/{}/{}', rule, 'method-path-template', site(fm), 'format_method_path: literal pieces around the arguments (format!, concat or push_str spelling)')
    ok_a = len(args) == 2 and term_contains(args[0], lambda x: is_call(x, name='format_service_name') and show(strip_refs(x[2][0])).startswith('arg1') and show(x[2][1]).startswith('arg3')) and term_contains(args[1], lambda x: is_call(x, name='identifier') and show(strip_refs(x[2][0])).startswith('arg2'))
    R.check(ok_a, rule, 'method-path-args', site(fm), 'arguments = [format_service_name(service, emit_package), method.identifier()]: %s' % [show(a)[:70] for a in args])
    # format_service_name by feasible path: package empty -> "<identifier>", otherwise "<package>.<identifier>"
    meta = {}
    rows = mirlib.path_rows(fs, meta=meta)
    terms = lambda: meta.get('__terms__', {})
    is_pkg = lambda t_: term_contains(t_, lambda x: is_call(x, name='package'))
    is_id = lambda t_: term_contains(t_, lambda x: is_call(x, name='identifier')) and not term_contains(t_, lambda x: is_call(x, name='package'))
    seen_sh = {}
    for cons, path in rows:
        vw = cons_view(cons, meta)
        emp = view_get(vw, lambda k: terms().get(k) is not None and is_call(strip_refs(terms()[k]), name='is_empty') and is_pkg(terms()[k]))
        if emp is None:
            # `match package { "" => .., _ => .. }` / `package == ""`: a comparison of the package with the empty string
            for sub_, op_, v_ in cons:
                tm_ = terms().get(sub_)
                if v_ == '' and tm_ is not None and is_pkg(tm_):
                    emp = True if op_ == '==' else (False if op_ == '!=' else emp)
        val = mirlib.simplify(fs.ret_on_path(path))
        fs._path = {bb_: i_ for i_, bb_ in enumerate(path)}
        try:
            rec = string_recipe(fs, val)
        finally:
            fs._path = None
        if rec is not None:
            pieces = []
            for piece in rec:
                if isinstance(piece, str):
                    pieces.append(piece)
                else:
                    a_ = piece[1]
                    pieces.append('P' if is_pkg(a_) else ('I' if is_id(a_) else '?:' + show(a_)[:30]))
        else:
            pieces = ['?:' + show(val)[:40]]
        rendered_empty = [x for x in pieces if x not in ('P', '')]
        rendered_full = [x for x in pieces if x != '']
        st = site(fs, path[-1])
        if emp is True:
            seen_sh['empty'] = True
            R.check(rendered_empty == ['I'], rule, 'dot-iff-package', st, 'with an empty package the name is the bare identifier: pieces %r (else a package-less service would get "/.Svc/Method")' % pieces)
        elif emp in (False, 0) and 'P' not in pieces and pieces[:1] == ['']:
            continue  # the package piece is the literal "" on this path: is_empty() == false cannot happen
        elif emp in (False, 0):
            seen_sh['full'] = True
            R.check(rendered_full == ['P', '.', 'I'], rule, 'service-name-template', st, 'with a package the name is <package>.<identifier>: pieces %r' % pieces)
        else:
            R.bad(rule, 'service-name-template', st, 'a path builds the name (%r) without testing whether the package is empty' % pieces)
        if 'I' in pieces:
            R.check(True, rule, 'service-identifier', st, 'the service piece is service.identifier() (the protobuf name, not the Rust name)')
    R.check(seen_sh.get('empty') and seen_sh.get('full'), rule, 'separator-values', site(fs), 'both cases (package empty / not) are decided: %r' % sorted(seen_sh))
    pkt = [x for x in find_terms(fs.origin({'cp': {'l': 0}}) if False else ('x',), lambda x: False)]
    pk_ok = False
    for bb_, t_ in fs.calls(name='package'):
        g_ = fs.edge_guards(bb_)
        pk_ok = any(strip_refs(tm)[0] == 'arg' and (vals == ['else'] or 0 not in vals) for s_, vals, tm in g_)
    R.check(pk_ok, rule, 'package-or-empty', site(fs), 'the package piece = if emit_package { service.package() } else { "" }: package() is read only on the flag\'s true edge')
    # server match arms come from format_method_path; SERVICE_NAME from format_service_name
    sgm = focus_body(tb, 'tonic_build::server::generate_methods', name='format_method_path')
    c = sgm.calls(name='format_method_path')
    R.check(len(c) == 1 and [show(strip_refs(forigin(tb, sgm, a)))[:4] for a in c[0][1]['args'][:1]] == ['arg1'] and loc_of(strip_refs(mirlib.simplify(forigin(tb, sgm, c[0][1]['args'][2])))) is not None, rule, 'server-arms-use-formatter', site(sgm), 'server::generate_methods calls format_method_path(service, method, emit_package): %d site(s)' % len(c))
    sgi = tb.body('tonic_build::server::generate_internal')
    c = sgi.calls(name='format_service_name')
    gn = sgi.calls(name='generate_named')
    okn = len(c) == 1 and len(gn) == 1 and term_contains(sgi.origin(gn[0][1]['args'][1]), lambda x: is_call(x, name='format_service_name'))
    R.check(okn, rule, 'server-NAME-uses-formatter', site(sgi), 'generate_named(&server_service, &format_service_name(service, emit_package)): %r' % okn)
    # the package flag: follow it by data flow, not by parameter name.  flag_params(f) = the parameters of f that end up as the
    # emit_package argument of format_service_name / format_method_path (directly or through the generators f calls)
    memo = {}

    def flag_params(path, depth=0):
        if path in memo:
            return memo[path]
        memo[path] = set()
        bs = [x for x in tb.bodies if x.path == path and x.kind == 'fn']
        if not bs or depth > 6:
            return set()
        bd = bs[0]
        out = set()
        consts = []
        fam = [bd] + [c_ for c_ in tb.bodies if c_.kind == 'closure' and c_.path.startswith(bd.path + '::')]
        for fb in fam:
            for bb_, t_ in fb.calls():
                fn_ = t_.get('fn') or ''
                if fn_ == 'tonic_build::format_service_name':
                    idxs = [1]
                elif fn_ == 'tonic_build::format_method_path':
                    idxs = [2]
                elif fn_.startswith('tonic_build::') and fn_ != path:
                    idxs = [n_ - 1 for n_ in flag_params(fn_, depth + 1)]
                else:
                    continue
                for ix in idxs:
                    if ix < len(t_['args']):
                        o_ = strip_refs(mirlib.simplify(resolve_env(tb, fb, fb.origin(t_['args'][ix]))))
                        # the flag may travel in a struct of options built from the parameters (`opts.emit_package`)
                        if o_[0] == 'field' and strip_refs(o_[1])[0] == 'agg' and o_[2] in (strip_refs(o_[1])[1].get('fields') or []):
                            a_ = strip_refs(o_[1])
                            o_ = strip_refs(a_[2][a_[1]['fields'].index(o_[2])])
                        if o_[0] == 'arg':
                            out.add(o_[1])
                        else:
                            consts.append((fb, bb_, show(o_)[:60]))
        memo[path] = out
        memo[path + '#other'] = consts
        return out
    for side, m_ in (('client', 'generate_client'), ('server', 'generate_server')):
        inner = 'tonic_build::%s::generate_internal' % side
        gi = tb.body(inner)
        R.saw(gi)
        fp = flag_params(inner)
        other = memo.get(inner + '#other', [])
        for k_ in list(memo):
            if k_.endswith('#other') and k_.startswith('tonic_build::%s::' % side):
                other = other + [x for x in memo[k_] if x not in other]
        R.check(len(fp) == 1 and not other, rule, '%s:service-name-flag=emit_package' % side, site(gi),
                'every format_service_name / format_method_path flag under %s::generate_internal comes from one parameter: parameters %r, other sources %r' % (side, sorted(fp), [x[2] for x in other]))
        cg_ = tb.body('tonic_build::code_gen::CodeGenBuilder::' + m_)
        R.saw(cg_)
        cc = cg_.calls(pat='%s::generate_internal' % side)
        if len(cc) != 1:
            R.bad(rule, 'code_gen:%s:call' % m_, site(cg_), 'generate_internal call sites: %d' % len(cc), kind='ANCHOR-MISSING')
            continue
        fed = [i_ + 1 for i_, a_ in enumerate(cc[0][1]['args']) if field_names(cg_.origin(a_))[-1:] == ['emit_package']]
        R.check(len(fed) == 1 and set(fed) == fp, rule, 'code_gen:%s:emit_package->flag-parameter' % m_, site(cg_, cc[0][0]),
                'builder.emit_package is passed as parameter %r of %s::generate_internal; the parameter that decides the package prefix is %r' % (fed, side, sorted(fp)))
    gnb = tb.body('tonic_build::server::generate_named')
    sgn = tb.sig('tonic_build::server::generate_named')
    R.check(len(sgn['inputs']) == 2 and 'str' in sgn['inputs'][1], rule, 'generate_named-takes-the-name', site(gnb), 'generate_named inputs: %r (the service name is passed in, not rebuilt)' % sgn['inputs'])
    bad = [t.get('name') for bb, t in gnb.calls() if t.get('name') in ('format', 'package', 'name', 'identifier', 'format_service_name') and 'tonic_build' in (t.get('fn') or '')]
    R.check(not bad, rule, 'generate_named-does-not-rebuild', site(gnb), 'service/method accessors called inside generate_named: %r' % bad)
