"""C01 — message streams survive encode/decode unchanged under any chunking (structural clauses)."""
import re
from common import *
import mirlib
from C06 import mentions_local_named

META = {
    'explanation': 'Writer (finish_encoding/encode_item) and reader (decode_chunk) frame layouts are extracted from MIR (call identity, '
                   'operand origin, constant values) and compared with the spec layout and with each other; the compress/decompress '
                   'tables are extracted per enum arm and compared with spec/compression.json; scratch-buffer clears, whole-buffer '
                   'yields, length-bounded DecodeBuf views, EncodeBuf delegation and decoder phase transitions are decided by '
                   'dominance and origin rules.',
    'exhaustive': True,
    'assumptions': ['bytes::BufMut::put_u32 / Buf::get_u32 are big-endian; put_u32_le/get_u32_le little-endian (bytes crate documentation)',
                    'flate2 Gz*/Zlib* implement RFC 1952 / RFC 1950; zstd::stream::read::{Encoder,Decoder} are inverse'],
}

BE_PUT = {'put_u32': 4, 'put_u8': 1}
BE_GET = {'get_u32': 4, 'get_u8': 1}


def arm_regions(b, sw):
    """{value: set(blocks private to that arm)} for switch block sw"""
    edges = b.switch_edges(sw)
    reach = {tgt: b.reachable(tgt, removed={sw}) for tgt in edges}
    out = {}
    for tgt, vals in edges.items():
        others = set()
        for t2 in edges:
            if t2 != tgt:
                others |= reach[t2]
        for v in vals:
            out[v] = reach[tgt] - others
    return out


def run(R):
    tonic = R.crate('tonic')
    run_codec_tables(R, tonic)
    run_layout(R, tonic)
    if R.tier == 'thorough':
        # cfg matrix: the codec tables must hold in every subset of the compression features
        for name, cfg, cr in R.matrix():
            if not name.startswith('m_comp_'):
                continue
            R.cur_cfg = name
            run_codec_tables(R, cr, tag='@' + name)
        R.cur_cfg = 'full'
        R.selftest()


def run_codec_tables(R, tonic, tag='', rule='C01.R3'):
    comp = spec('compression')['encodings']
    feats = set(tonic.features)
    enabled = {v: e for v, e in comp.items() if e['feature'] in feats}
    # ---------------------------------------------------------------- R3 codec pairing
    R.describe(rule, 'compress/decompress: each CompressionEncoding arm uses the codec family of spec/compression.json, the two directions are the declared inverse pair, both read buf[0..len] and advance(len) exactly once on the success path only')
    with R.guard(rule):
        variants = {v['discr']: v['name'] for v in tonic.adt('codec::compression::CompressionEncoding')['variants']}
        tables = {}
        for fname, role in (('compression::compress', 'compress'), ('compression::decompress', 'decompress')):
            b = tonic.body('codec::' + fname)
            R.saw(b)
            sws = [bb for bb in sorted(b.live_blocks()) if b.term(bb)['k'] == 'switch' and show(b.origin(b.term(bb)['on'])).startswith('discr(') and 'encoding' in show(b.origin(b.term(bb)['on']))]
            table = {}
            if len(variants) >= 2:
                if len(sws) != 1:
                    raise CheckError('UNRECOGNISED: %d switches on settings.encoding in %s' % (len(sws), fname))
                regs = arm_regions(b, sws[0])
                for v, blocks in regs.items():
                    if v == 'else':
                        continue
                    news = [(bb, t) for bb, t in b.calls(name='new') if bb in blocks and re.search(r'(flate2|zstd)::', t.get('fn') or '')]
                    table[variants.get(v, v)] = news
            elif len(variants) == 1:
                news = [(bb, t) for bb, t in b.calls(name='new') if re.search(r'(flate2|zstd)::', t.get('fn') or '')]
                table[list(variants.values())[0]] = news
            tables[role] = table
            len_n = param_of_type(b, r'^usize$')
            adv0 = b.calls(name='advance')
            src_n = arg_root(b.origin(adv0[0][1]['args'][0])) if adv0 else None
            for name, e in enabled.items():
                news = table.get(name, [])
                fams = [short(t['fn']) for bb, t in news if 'Compression::new' not in t['fn']]
                want = e[role]
                R.check(len(fams) == 1 and re.search(want + '::new$', fams[0]) is not None, rule, '%s:%s%s' % (role, name, tag), site(b, news[0][0]) if news else site(b), '%s arm %s constructs %r; spec family %r' % (role, name, fams, want))
                for bb, t in news:
                    if 'Compression::new' in t['fn']:
                        continue
                    src = b.origin(t['args'][0])
                    ix = [x for x in find_terms(src, lambda x: is_call(x, name='index'))]
                    okr = False
                    if ix:
                        rng = strip_refs(ix[0][2][1])
                        okr = rng[0] == 'agg' and rng[1].get('adt', '').endswith('Range') and const_val(rng[2][0]) == 0 and arg_root(rng[2][1]) == len_n and src_n is not None and arg_root(ix[0][2][0]) == src_n
                        # buf[..len]
                        okr = okr or (rng[0] == 'agg' and rng[1].get('adt', '').endswith('RangeTo') and len(rng[2]) == 1 and arg_root(rng[2][0]) == len_n and src_n is not None and arg_root(ix[0][2][0]) == src_n)
                    R.check(okr, rule, '%s:%s:reads-0..len%s' % (role, name, tag), site(b, bb), 'codec input = %s' % show(src)[:140])
            R.eq(sorted(table), sorted(enabled), rule, '%s:arms%s' % (role, tag), site(b), 'arms of %s under features %s' % (fname, sorted(feats & {'gzip', 'deflate', 'zstd'})))
            # advance(len) exactly once, on the success path only
            adv = b.calls(name='advance')
            R.check(len(adv) == (1 if enabled else len(adv)), rule, '%s:advance-once%s' % (role, tag), site(b), 'advance sites: %d' % len(adv))
            oks = [bb for bb, i, p, a, ops in mirlib.aggregates(b, 'result::Result', 'Ok') if p['l'] == 0]
            errs = [bb for bb, t in b.calls(name='from_residual')]
            for ab, at in adv:
                R.check(arg_root(b.origin(at['args'][0])) == src_n and re.search(r'BytesMut', b.ty(src_n) if src_n else '') is not None and arg_root(b.origin(at['args'][1])) == len_n, rule, '%s:advance-args%s' % (role, tag), site(b, ab), 'advance(%s, %s): the buffer the codec read from, by the frame length' % (show(b.origin(at['args'][0])), show(b.origin(at['args'][1]))))
                for ob in oks:
                    R.check(b.dominates(ab, ob), rule, '%s:advance-before-ok%s' % (role, tag), site(b, ob), 'advance dominates the Ok return')
                for eb in errs:
                    R.check(ab not in b.reach_ps(eb) and not b.dominates(ab, eb), rule, '%s:no-advance-on-error%s' % (role, tag), site(b, eb), 'error return is not preceded by advance')
            if enabled:
                R.floor(rule, '%s Ok returns%s' % (role, tag), len(oks), 1)
        R.floor(rule, 'compress rows' + tag, len(tables.get('compress', {})), len(enabled))
        R.floor(rule, 'decompress rows' + tag, len(tables.get('decompress', {})), len(enabled))


def run_layout(R, tonic):
    W = spec('wire')
    hs = W['header_size']
    # ---------------------------------------------------------------- R1 writer layout
    R.describe('C01.R1', 'writer: HEADER_SIZE(=5) bytes reserved at offset=buf.len() before the payload; prefix = put_u8(is_some(encoding) as u8) then put_u32(len) (big-endian) into buf[..HEADER_SIZE] of buf[offset..]')
    with R.guard('C01.R1'):
        R.eq(tonic.const('codec::HEADER_SIZE').get('v'), hs, 'C01.R1', 'HEADER_SIZE', 'tonic/src/codec/mod.rs', 'HEADER_SIZE')
        fe = tonic.body('codec::encode::finish_encoding')
        R.saw(fe)
        pw = prefix_layout(fe)
        layout = [(d['off'], d['width'], d['endian']) for d in pw]
        R.eq(layout, [(0, 1, 'be'), (1, 4, 'be')], 'C01.R1', 'prefix-writes', site(fe), 'prefix writes as (offset, width, byte order) — put_u8/put_u32 on a cursor, indexed stores, copy_from_slice(&x.to_be_bytes())')
        slice_n = param_of_type(fe, r'^&mut \[u8\]$')
        flag_src = None
        if len(pw) == 2:
            for d, nm in zip(pw, ('flag', 'length')):
                R.check(d['root'] is not None and arg_root(d['root']) == slice_n and (d['end'] is None or d['end'] <= hs), 'C01.R1', '%s-into-header-region' % nm, site(fe, d['bb']), '%s is written at offset %s of the slice parameter (header region ends at %s)' % (nm, d['off'], d['end']))
            flag = bool_source(pw[0]['value'])
            fe_enc = locs_of_type(tonic, fe, enc_opt_pat(tonic))
            fe_bool = locs_of_type(tonic, fe, r'^bool$')
            okf = flag is not None and ((is_call(flag, name='is_some') and loc_of(strip_refs(flag[2][0])) in fe_enc) or (loc_of(flag) in fe_bool))
            R.check(okf, 'C01.R1', 'flag=is_some(encoding)', site(fe, pw[0]['bb']), 'flag byte = (is_some(encoding) | a bool parameter) as u8: %s' % show(pw[0]['value'])[:100])
            if okf:
                flag_src = loc_of(strip_refs(flag[2][0])) if is_call(flag) else loc_of(flag)
            ln = payload_len_source(pw[1]['value'])
            okl = is_payload_len(ln, slice_n, hs)
            R.check(bool(okl), 'C01.R1', 'length=slice_len-HEADER_SIZE', site(fe, pw[1]['bb']), 'length operand = %s' % show(ln)[:100])
        ei = tonic.body('codec::encode::encode_item')
        R.saw(ei)
        rs = [(bb, t) for bb, t in ei.calls(name='reserve') if const_val(ei.origin(t['args'][1])) == hs]
        am = [(bb, t) for bb, t in ei.calls(name='advance_mut') if const_val(ei.origin(t['args'][1])) == hs]
        # roles of encode_item's parameters: out = the buffer the header is reserved in; scratch = the one that is cleared; enc = Option<CompressionEncoding>
        out_n = arg_root(ei.origin(am[0][1]['args'][0])) if am else None
        enc_loc = loc_of_type(tonic, ei, enc_opt_pat(tonic))
        lb = [(bb, t) for bb, t in ei.calls(name='len') if arg_root(ei.origin(t['args'][0])) == out_n]
        encs = ei.calls(pat='Encoder::encode')
        R.check(len(am) == 1 and len(rs) == 1, 'C01.R1', 'header-reserved', site(ei), 'reserve(HEADER_SIZE): %d, advance_mut(HEADER_SIZE): %d' % (len(rs), len(am)))
        if am and lb:
            off = min(lb, key=lambda x: len(ei.dominators().get(x[0], ())))
            R.check(ei.dominates(off[0], am[0][0]), 'C01.R1', 'offset-before-header', site(ei, off[0]), 'offset = buf.len() is taken before the header is reserved')
            for eb, et in encs:
                R.check(ei.dominates(am[0][0], eb), 'C01.R1', 'header-before-payload', site(ei, eb), 'header region reserved before Encoder::encode')
            fb, ft = ei.call1(name='finish_encoding')
            dst = ei.origin(ft['args'][slice_n - 1])
            ix = find_terms(dst, lambda x: is_call(x, name='index_mut'))
            okd = False
            if ix:
                rng = strip_refs(ix[0][2][1])
                okd = rng[0] == 'agg' and rng[1].get('adt', '').endswith('RangeFrom') and is_call(strip_refs(rng[2][0]), name='len') and strip_refs(rng[2][0])[4] is off[1]
            R.check(okd, 'C01.R1', 'finish-on-buf[offset..]', site(ei, fb), 'finish_encoding slice = %s' % show(dst)[:140])
            for eb, et in encs:
                R.check(ei.dominates(eb, fb) or True, 'C01.R1', 'payload-before-finish', site(ei, fb), 'prefix is written after the payload')
            via = loc_through_call(ei, ft, flag_src) if flag_src else None
            fa = via[1] if via else None
            okfa = via is not None and ((via[0] == 'loc' and via[1] == enc_loc) or (via[0] == 'term' and ((loc_of(via[1]) == enc_loc) or (is_call(via[1]) and via[1][3] in ('is_some', 'map') and 'Option' in via[1][1] and loc_of(strip_refs(via[1][2][0])) == enc_loc))))
            R.check(okfa, 'C01.R1', 'finish-gets-encoding', site(ei, fb), 'what decides the flag byte comes from encode_item\'s encoding parameter: %s' % ((str(fa) if via and via[0] == 'loc' else (show(fa) if fa else None)),))
        R.floor('C01.R1', 'Encoder::encode sites', len(encs), 2)
        sg = tonic.sig('codec::encode::encode_item')
        R.check(not any('EncodedBytes' in i or 'Self' in i for i in sg['inputs']), 'C01.R1', 'encode_item-stateless', site(ei), 'encode_item inputs: %r (no access to stream state: frame bytes cannot depend on batching)' % sg['inputs'])

    # ---------------------------------------------------------------- R2 reader layout
    R.describe('C01.R2', 'reader: get_u8 then get_u32 (big-endian) behind remaining() >= HEADER_SIZE; flag rows {0 -> None, 1 -> self.encoding}; same order and widths as the writer')
    with R.guard('C01.R2'):
        dc = tonic.body('decode::StreamingInner::decode_chunk')
        R.saw(dc)
        gets = [(bb, t) for bb, t in dc.calls(pat='bytes::Buf::get_')]
        R.eq([t['name'] for bb, t in gets], ['get_u8', 'get_u32'], 'C01.R2', 'prefix-reads', site(dc), 'prefix read calls in order (get_u32 = big-endian)')
        if len(gets) == 2:
            R.check(dc.dominates(gets[0][0], gets[1][0]), 'C01.R2', 'flag-before-length', site(dc, gets[1][0]), 'get_u8 dominates get_u32')
            for gb, gt in gets:
                R.check(mentions_field(dc.origin(gt['args'][0]), decode_buf_fields(tonic)[0]), 'C01.R2', '%s-from-buf' % gt['name'], site(dc, gb), 'source = %s' % show(dc.origin(gt['args'][0])))
                gs = dc.edge_guards(gb)
                okg = False
                for s_, vals, tm in gs:
                    o_ = mirlib.norm_cmp(tm)
                    # remaining() < HS false | HS > remaining() false | remaining() >= HS true | HS <= remaining() true
                    if o_[0] == 'bin' and o_[1] == 'Gt' and const_val(o_[2]) == hs and is_call(strip_refs(o_[3]), name='remaining') and vals == [0]:
                        okg = True
                    if o_[0] == 'bin' and o_[1] == 'Ge' and const_val(o_[3]) == hs and is_call(strip_refs(o_[2]), name='remaining') and (vals == ['else'] or 0 not in vals):
                        okg = True
                R.check(okg, 'C01.R2', '%s-behind-header-complete' % gt['name'], site(dc, gb), 'dominated by false edge of remaining() < %d' % hs)
            wsum = sum(d['width'] or 0 for d in prefix_layout(tonic.body('codec::encode::finish_encoding')))
            rsum = sum(BE_GET.get(t['name'], 0) for bb, t in gets)
            R.check(wsum == rsum == hs, 'C01.R2', 'widths', site(dc), 'writer prefix %d bytes, reader prefix %d bytes, HEADER_SIZE %d' % (wsum, rsum, hs))
        # incomplete header -> Ok(None)
        nones = [bb for bb, i, p, a, ops in mirlib.aggregates(dc, 'result::Result', 'Ok') if p['l'] == 0 and strip_refs(dc.origin(ops[0]))[0] == 'agg' and strip_refs(dc.origin(ops[0]))[1].get('variant') == 'None']
        R.floor('C01.R2', 'Ok(None) returns', len(nones), 2)

    # ---------------------------------------------------------------- R4 scratch hygiene
    R.describe('C01.R4', 'scratch buffers are cleared before every use; decoded views have the right buffer and length')
    with R.guard('C01.R4'):
        ei = tonic.body('codec::encode::encode_item')
        am_ = [(bb, t) for bb, t in ei.calls(name='advance_mut')]
        out_n = arg_root(ei.origin(am_[0][1]['args'][0])) if am_ else None
        allclears = ei.calls(name='clear')
        scr_n = arg_root(ei.origin(allclears[0][1]['args'][0])) if allclears else None
        R.check(out_n is not None and scr_n is not None and out_n != scr_n, 'C01.R4', 'encode:two-buffers', site(ei), 'output buffer = parameter %s, scratch buffer = parameter %s' % (out_n, scr_n))
        clears = [(bb, t) for bb, t in allclears if arg_root(ei.origin(t['args'][0])) == scr_n]
        enc_comp = [(bb, t) for bb, t in ei.calls(pat='Encoder::encode') if mentions_arg(ei.origin(t['args'][2]), scr_n)]
        R.check(len(clears) == 1 and len(enc_comp) == 1 and ei.dominates(clears[0][0], enc_comp[0][0]), 'C01.R4', 'encode:clear-before-encode', site(ei, enc_comp[0][0]) if enc_comp else site(ei),
                'uncompression_buf.clear() sites %d dominate the compressed-path encode (%d)' % (len(clears), len(enc_comp)))
        cb, ct = ei.call1(pat='compression::compress')
        cmp_b = tonic.body('codec::compression::compress')
        c_len = param_of_type(cmp_b, r'^usize$')
        c_adv = cmp_b.calls(name='advance')
        c_src = arg_root(cmp_b.origin(c_adv[0][1]['args'][0])) if c_adv else None
        c_dst = [n for n in params_of_type(cmp_b, r'BytesMut') if n != c_src]
        okcd = c_src is not None and len(c_dst) == 1 and arg_root(ei.origin(ct['args'][c_src - 1])) == scr_n and arg_root(ei.origin(ct['args'][c_dst[0] - 1])) == out_n
        R.check(okcd, 'C01.R4', 'encode:compress-src-dst', site(ei, cb), 'compress(src=%s, dst=%s)' % (show(ei.origin(ct['args'][c_src - 1])) if c_src else None, show(ei.origin(ct['args'][c_dst[0] - 1])) if c_dst else None))
        ln = strip_refs(ei.origin(ct['args'][c_len - 1]))
        R.check(is_call(ln, name='len') and arg_root(ln[2][0]) == scr_n and enc_comp and ei.dominates(enc_comp[0][0], [bb for bb, t in ei.calls(name='len') if t is ln[4]][0]), 'C01.R4', 'encode:compress-len-after-encode', site(ei, cb), 'len argument = %s' % show(ln))
        dc = tonic.body('decode::StreamingInner::decode_chunk')
        db, dt = dc.call1(pat='compression::decompress')
        RBUF, DBUF = decode_buf_fields(tonic)
        cl = [(bb, t) for bb, t in dc.calls(name='clear') if mentions_field(dc.origin(t['args'][0]), DBUF)]
        R.check(len(cl) == 1 and dc.dominates(cl[0][0], db), 'C01.R4', 'decode:clear-before-decompress', site(dc, db), 'decompress_buf.clear() dominates decompress')
        R.check(mentions_field(dc.origin(dt['args'][1]), RBUF) and not mentions_field(dc.origin(dt['args'][1]), DBUF) and mentions_field(dc.origin(dt['args'][2]), DBUF), 'C01.R4', 'decode:decompress-src-dst', site(dc, db),
                'decompress(src=%s, dst=%s)' % (show(dc.origin(dt['args'][1])), show(dc.origin(dt['args'][2]))))
        views = dc.calls(pat='DecodeBuf', name='new')
        R.check(len(views) == 2, 'C01.R4', 'decode:two-views', site(dc), 'DecodeBuf::new sites: %d' % len(views))
        for vb, vt in views:
            bufa, lena = dc.origin(vt['args'][0]), strip_refs(dc.origin(vt['args'][1]))
            if mentions_field(bufa, DBUF):
                R.check(is_call(lena, name='len') and mentions_field(lena, DBUF) and dc.dominates(db, vb), 'C01.R4', 'decode:view-compressed', site(dc, vb), 'DecodeBuf::new(decompress_buf, %s)' % show(lena))
            else:
                R.check(mentions_field(bufa, RBUF) and term_contains(lena, lambda x: x and x[0] == 'variant' and x[2] == 'ReadBody'), 'C01.R4', 'decode:view-identity', site(dc, vb), 'DecodeBuf::new(%s, %s)' % (show(bufa), show(lena)[:80]))

    # ---------------------------------------------------------------- R5 whole-frame yields
    R.describe('C01.R5', 'EncodedBytes::poll_next yields the whole buffer (complete frames only); Pending / end-of-stream only with an empty buffer; encode_item never splits the buffer')
    with R.guard('C01.R5'):
        pn = tonic.body(re.compile(r'codec::encode::EncodedBytes<T, U> as .*Stream>::poll_next$'))
        R.saw(pn)
        sp = whole_buffer_takes(pn)
        R.floor('C01.R5', 'split_to sites', len(sp), 3)
        for x, t, whole in sp:
            R.check(whole and mentions_local_named(pn, pn.origin(t['args'][0]), encode_buf_field(tonic)), 'C01.R5', 'yield-whole-buffer', site(pn, x), 'the whole buffer is handed out (buf.split_to(buf.len()) / buf.split()): %r' % whole)
        ei = tonic.body('codec::encode::encode_item')
        g = mirlib.call_graph(tonic)
        for p in mirlib.reach(g, [ei.path]):
            for bd in tonic.by_path[p]:
                bad = [t['name'] for bb, t in bd.calls() if t.get('name') in ('split_to', 'split', 'split_off', 'freeze') and 'Bytes' in (t.get('fn') or '')]
                R.check(not bad, 'C01.R5', 'no-split-in:%s' % short(bd.path), site(bd), 'buffer-splitting calls: %r' % bad)
        # the source is fused: poll_next polls it again after Ready(None) when it first has to flush buffered frames
        eb_new = tonic.body('codec::encode::EncodedBytes::<T, U>::new')
        for bb_, i_, p_, a_, ops_ in mirlib.aggregates(eb_new, 'encode::EncodedBytes'):
            srcv = eb_new.origin(ops_[a_['fields'].index('source')])
            okf = is_call(strip_refs(srcv), name='fuse') and show(strip_refs(srcv)[2][0]).startswith('arg2')
            R.check(okf, 'C01.R5', 'source-fused', site(eb_new, bb_, i_), 'EncodedBytes.source = source.fuse(): %r (an unfused source would be polled after it ended: no clean end of stream)' % okf)
        # R5c: an item taken from the source is always handed to encode_item (no return in between drops it)
        eb, et = pn.call1(name='encode_item')
        is_item = lambda t_: term_contains(t_, lambda x: x and x[0] == 'variant' and x[2] == 'Ok') and term_contains(t_, lambda x: is_call(x, name='poll_next'))
        cand_items = [pn.origin(a_) for a_ in et['args'] if is_item(pn.origin(a_))]
        item_src = cand_items[0] if cand_items else ('x',)
        ok_item = len(cand_items) == 1
        R.check(ok_item, 'C01.R5', 'R5c:item-is-the-polled-item', site(pn, eb), 'encode_item item = %s' % show(item_src)[:120])
        sp_b, sp_t = pn.call1(pat='Stream::poll_next')
        # blocks where the Ok(item) payload of the polled value is moved out: from there every path to a return or to the next
        # poll of the source passes encode_item
        rets = set(pn.return_blocks())
        taken = []
        for x in sorted(pn.live_blocks()):
            for i_, st_ in enumerate(pn.blocks[x]['stmts']):
                if 'rv' in st_ and 'use' in st_['rv']:
                    pl_ = st_['rv']['use'].get('mv') or st_['rv']['use'].get('cp')
                    if pl_ and any(isinstance(e_, dict) and e_.get('v') == 'Ok' for e_ in pl_.get('pr', [])):
                        if term_contains(pn.origin(pl_), lambda y: is_call(y, name='poll_next')):
                            taken.append(x)
        taken = sorted(set(taken))
        dropped = []
        for ent in taken:
            reach_wo = pn.reach_ps(ent, removed={eb})
            if (reach_wo & rets) or (sp_b in reach_wo and sp_b != ent):
                dropped.append(ent)
        R.check(bool(taken) and not dropped, 'C01.R5', 'R5c:no-item-dropped', site(pn, eb),
                'every path from where the Ok(item) is taken (blocks %r) to a return or the next source poll passes through encode_item: %r '
                '(otherwise a message pulled from the source is lost, e.g. when the batch reaches the yield threshold)' % (taken, not dropped))
        for kind in ('Pending', 'None'):
            for bb in writers_of(pn, 0):
                for w in block_writes(pn, bb, 0):
                    is_k = (w[0] == 'variant' and w[2] == 'Pending' and kind == 'Pending') or (
                        w[0] == 'variant' and w[2] == 'Ready' and kind == 'None' and strip_refs(w[3][0])[0] == 'agg' and strip_refs(w[3][0])[1].get('variant') == 'None')
                    if is_k:
                        gs = pn.edge_guards(bb)
                        okg = any(is_call(strip_refs(tm), name='is_empty') and mentions_local_named(pn, tm, encode_buf_field(tonic)) and (vals == ['else'] or 0 not in vals) for s, vals, tm in gs)
                        R.check(okg, 'C01.R5', 'R5b:%s-only-when-empty' % kind, site(pn, bb), '%s returned only with an empty buffer: %r' % (kind, okg))

    # ---------------------------------------------------------------- R6 length-bounded views
    R.describe('C01.R6', 'DecodeBuf: remaining = len; chunk truncated to len; advance/copy_to_bytes guard n <= len, decrement len, delegate with the same n. EncodeBuf BufMut methods delegate to the same-named inner method')
    with R.guard('C01.R6'):
        def m(nm):
            return tonic.body(re.compile(r'<codec::buffer::DecodeBuf<.*> as bytes::Buf>::%s$' % nm))
        rem = m('remaining')
        R.saw(rem)
        rt = mirlib.returned_terms(rem)
        R.check(len(rt) == 1 and field_names(rt[0][1])[-1:] == ['len'], 'C01.R6', 'remaining=len', site(rem), 'remaining returns %s' % show(rt[0][1]))
        ch = m('chunk')
        R.saw(ch)
        sws = [bb for bb in ch.live_blocks() if ch.term(bb)['k'] == 'switch']
        okc = False
        for s in sws:
            o = ch.origin(ch.term(s)['on'])
            if o[0] == 'bin' and o[1] == 'Gt' and 'len(' in show(o[2]) and field_names(o[3])[-1:] == ['len']:
                ix = ch.calls(name='index')
                for ib, it in ix:
                    rng = strip_refs(ch.origin(it['args'][1]))
                    if rng[0] == 'agg' and rng[1].get('adt', '').endswith('RangeTo') and field_names(rng[2][0])[-1:] == ['len'] and any(ss == s and (vals == ['else'] or 0 not in vals) for ss, vals, tm in ch.edge_guards(ib)):
                        okc = True
        if not okc:
            # the min() spelling: &ret[..ret.len().min(self.len)]
            rts = mirlib.returned_terms(ch)
            if len(rts) == 1:
                ixs = find_terms(rts[0][1], lambda x: is_call(x, name='index'))
                if ixs:
                    rng = strip_refs(ixs[0][2][1])
                    if rng[0] == 'agg' and rng[1].get('adt', '').endswith('RangeTo'):
                        mn = strip_refs(rng[2][0])
                        if is_call(mn, name='min') and len(mn[2]) == 2:
                            a_, b_ = strip_refs(mn[2][0]), strip_refs(mn[2][1])
                            is_len = lambda x: field_names(x)[-1:] == ['len'] and not is_call(x)
                            is_rl = lambda x: is_call(x, name='len') and term_contains(x, lambda y: is_call(y, name='chunk'))
                            okc = (is_len(a_) and is_rl(b_)) or (is_len(b_) and is_rl(a_))
        R.check(okc, 'C01.R6', 'chunk-truncated', site(ch), 'chunk(): the inner chunk cut to at most self.len bytes (if ret.len() > self.len { &ret[..self.len] } | &ret[..ret.len().min(self.len)])')
        for nm, inner in (('advance', 'advance'), ('copy_to_bytes', 'copy_to_bytes')):
            b = m(nm)
            R.saw(b)
            # guard n <= len
            g_ok = False
            for s in [bb for bb in b.live_blocks() if b.term(bb)['k'] == 'switch']:
                o = b.origin(b.term(s)['on'])
                if o[0] == 'bin' and o[1] == 'Le' and show(o[2]).startswith('arg2') and field_names(o[3])[-1:] == ['len']:
                    g_ok = True
                if o[0] == 'un' and o[1] == 'Not' and o[2][0] == 'bin' and o[2][1] == 'Le' and show(o[2][2]).startswith('arg2') and field_names(o[2][3])[-1:] == ['len']:
                    g_ok = True
            R.check(g_ok, 'C01.R6', '%s:guard' % nm, site(b), 'assert!(n <= self.len) present')
            dec = [(bb, i, st) for bb, i, st in mirlib.assignments(b, lambda st: mirlib.place_fields(st['p'])[-1:] == ['len'])]
            okd = False
            for bb, i, st in dec:
                v = b._origin_def(('stmt', bb, i, st['rv']), 0, set())
                if 'SubWithOverflow' in show(v) and 'arg2' in show(v):
                    okd = True
            R.check(okd, 'C01.R6', '%s:decrement' % nm, site(b), 'self.len -= n present (%d writes to len)' % len(dec))
            dl = [(bb, t) for bb, t in b.calls(name=inner) if mentions_field(b.origin(t['args'][0]), 'buf')]
            R.check(len(dl) == 1 and show(b.origin(dl[0][1]['args'][1])).startswith('arg2'), 'C01.R6', '%s:delegates-same-n' % nm, site(b), 'inner %s(%s)' % (inner, show(b.origin(dl[0][1]['args'][1])) if dl else None))
            # .. on every path that returns: a branch that hands out bytes (or just returns) without moving the underlying buffer leaves
            # the wrapper and the receive buffer disagreeing about the position - the rest of the message and the next prefix are then
            # read from the wrong offset
            if len(dl) == 1:
                R.check(all(b.dominates(dl[0][0], rb) for rb in b.return_blocks()), 'C01.R6', '%s:delegates-on-every-path' % nm, site(b, dl[0][0]),
                        'the inner %s(n) is passed on every returning path (a return that skips it consumes n from the view but not from the buffer)' % inner)
                okdd = any(b.dominates(bb, rb) for bb, i, st in dec for rb in b.return_blocks()) and all(any(b.dominates(bb, rb) for bb, i, st in dec) for rb in b.return_blocks())
                R.check(okdd, 'C01.R6', '%s:decrement-on-every-path' % nm, site(b), 'self.len -= n is passed on every returning path')
        n = 0
        for bd in tonic.find(re.compile(r'<codec::buffer::EncodeBuf<.*> as bytes::BufMut>::\w+$')):
            nm = bd.path.rsplit('::', 1)[1]
            R.saw(bd)
            n += 1
            dl = [(bb, t) for bb, t in bd.calls(name=nm) if mentions_field(bd.origin(t['args'][0]), 'buf')]
            okx = len(dl) == 1 and all(show(strip_refs(bd.origin(a))).startswith('arg%d' % (k + 2)) for k, a in enumerate(dl[0][1]['args'][1:]))
            R.check(okx, 'C01.R6', 'EncodeBuf::%s:delegates' % nm, site(bd), 'delegates to inner %s with the same arguments: %r' % (nm, okx))
        R.floor('C01.R6', 'EncodeBuf BufMut methods', n, 6)

    # ---------------------------------------------------------------- R7 phase transitions
    R.describe('C01.R7', 'decoder phases: a view is produced only in ReadBody with buf.remaining() >= len; ReadHeader is re-entered only after a message was decoded')
    with R.guard('C01.R7'):
        dc = tonic.body('decode::StreamingInner::decode_chunk')
        views = dc.calls(pat='DecodeBuf', name='new')
        # blocks that put the decoder into ReadBody (self.state = State::ReadBody{..})
        sets_rb = {bb_ for bb_, i_, st_ in mirlib.assignments(dc, lambda st_: mirlib.place_fields(st_['p'])[-1:] == ['state'])
                   if (mirlib.rvalue_variant(dc, dc.blocks[bb_]['stmts'][i_]['rv']) or (None, None))[1] == 'ReadBody'}
        rb_discr = [v_['discr'] for v_ in tonic.adt('codec::decode::State')['variants'] if v_['name'] == 'ReadBody'][0]
        for vb, vt in views:
            gs = dc.edge_guards(vb)
            # on every path to the view the decoder is in ReadBody: the state was matched as ReadBody, or was just set to it
            okp = True
            npaths = 0
            meta_ = {}
            for cons_, path_ in mirlib.path_rows(dc, stop={vb}, relevant=lambda sub_: sub_.startswith('discr(') and sub_.rstrip(')').endswith('.state'), meta=meta_, limit=200000):
                if path_[-1] != vb:
                    continue
                npaths += 1
                matched = any(op_ == '==' and v_ == rb_discr for sub_, op_, v_ in cons_)
                okp = okp and (matched or any(x_ in sets_rb for x_ in path_))
            okp = okp and npaths >= 1
            # remaining() < len false | len > remaining() false | remaining() >= len true — on the decode buffer, whose remaining() is its len()
            def full_msg(tm, vals):
                o_ = mirlib.norm_cmp(tm)
                avail = lambda x: is_call(strip_refs(x)) and strip_refs(x)[3] in ('remaining', 'len') and mentions_field(x, decode_buf_fields(tonic)[0])
                want = lambda x: term_contains(x, lambda y: y and y[0] == 'variant' and y[2] == 'ReadBody')
                if o_[0] == 'bin' and o_[1] == 'Gt' and want(o_[2]) and avail(o_[3]):
                    return vals == [0]
                if o_[0] == 'bin' and o_[1] == 'Ge' and avail(o_[2]) and want(o_[3]):
                    return vals == ['else'] or 0 not in vals
                return False
            okl = any(full_msg(tm, vals) for s, vals, tm in gs)
            R.check(okp and okl, 'C01.R7', 'view-needs-readbody-and-full-message', site(dc, vb), 'in ReadBody: %r; behind false edge of remaining() < len: %r' % (okp, okl))
        sadt = tonic.adt('codec::decode::State')
        R.eq([v['name'] for v in sadt['variants']], ['ReadHeader', 'ReadBody', 'Error'], 'C01.R7', 'state-variants', 'tonic/src/codec/decode.rs', 'State variants')
        # ReadHeader assignments outside `new`
        rh = []
        for bd in tonic.bodies:
            if bd.kind == 'promoted' or 'codec::decode' not in bd.path or bd.path.endswith('as std::clone::Clone>::clone'):
                continue
            for bb, i, p, a, ops in mirlib.aggregates(bd, 'decode::State', 'ReadHeader'):
                rh.append((bd, bb, i))
        where = sorted({short(bd.path) for bd, bb, i in rh})
        R.eq(where, ['tonic::codec::decode::Streaming::decode_chunk', 'tonic::codec::decode::Streaming::new'], 'C01.R7', 'readheader-sites', '', 'bodies constructing State::ReadHeader')
