"""C14 — a channel always answers and recovers when the peer comes back (typestate over Reconnect)."""
import re
from common import *
import mirlib
from mirlib import TypeState

META = {
    'explanation': 'A forward typestate analysis over Reconnect::poll_ready tracks the variant of self.state, of the local `state`, whether '
                   'self.error is set, whether a completed connect future is still stored, and the kind of value in the return slot. '
                   'Proved on every path: Ready(Ok) is returned only with state Connected or an error pending (so the panic in call() is '
                   'unreachable after a successful poll_ready); a completed connect future is always replaced before returning or '
                   'looping; has_been_connected is monotone; an Err return on a connect failure happens only for an eager channel that '
                   'never connected. call() hands the stored error to exactly one call with Option::take. Connection::connect/lazy '
                   'flags, ConnectError wrapping and the UNAVAILABLE mapping are decided by call identity and constants.',
    'exhaustive': True,
    'assumptions': ['tower::buffer::Buffer drives poll_ready before call; hyper reports a dead connection from poll_ready'],
}


def _self_locals(body):
    """local 1 (`self: &mut Reconnect`) and every local that is only ever a reborrow `&mut *self` (what a spliced `&mut self` helper
    works on)"""
    cand, other = set(), set()
    for bb in range(len(body.blocks)):
        for st in body.blocks[bb]['stmts']:
            if 'p' not in st or st['p'].get('pr'):
                continue
            rv = st['rv']
            rf = rv.get('ref') if isinstance(rv, dict) else None
            if isinstance(rf, dict) and rf.get('l') == 1 and rf.get('pr') == ['*']:
                cand.add(st['p']['l'])
            else:
                other.add(st['p']['l'])
        t = body.blocks[bb]['term']
        if t.get('k') == 'call' and isinstance(t.get('dest'), dict) and not t['dest'].get('pr'):
            other.add(t['dest']['l'])
    return {1} | (cand - other)


def run(R):
    # helpers written after the pinned tree are spliced so that their result and their moved arguments are the caller's own locals
    os.environ['VERIF_SPLICE_RENAME'] = '1'
    tonic = R.crate('tonic')

    # ---------------------------------------------------------------- R1/R3 typestate over poll_ready
    R.describe('C14.R1', 'poll_ready returns Ready(Ok(())) only with state == Connected or an error pending; a completed connect future never stays in State::Connecting when poll_ready returns or loops')
    R.describe('C14.R3', 'connect failure: state reset to Idle; Err returned iff !(has_been_connected || is_lazy), otherwise the error is stored; a dead connection resets to Idle and reconnects; has_been_connected only ever becomes true')
    with R.guard('C14.R1'):
        pr = tonic.body(re.compile(r'reconnect::Reconnect<M, Target> as tower_service::Service<Request>>::poll_ready$'))
        R.saw(pr)
        # the fields of Reconnect by type and role (private names may change): the State field, the Option<BoxError> slot, the bool
        # that is assigned in poll_ready (has been connected) and the bool that is only set by the constructor (lazy)
        radt_ = tonic.adt('reconnect::Reconnect')['variants'][0]['fields']
        F_STATE = [f_['n'] for f_ in radt_ if f_['ty'].startswith('transport::channel::service::reconnect::State<')]
        F_ERR = [f_['n'] for f_ in radt_ if f_['ty'].startswith('std::option::Option<') and 'Error' in f_['ty']]
        # a flag: a bool, or a field-less two-variant enum of this crate (ConnectMode::{Eager, Lazy} is as good as is_lazy: bool)
        def flag_enum(ty_):
            try:
                ad_ = tonic.adt(ty_)
            except CheckError:
                return None
            if ad_.get('kind') == 'enum' and len(ad_['variants']) == 2 and all(not v_.get('fields') for v_ in ad_['variants']):
                return {v_['name']: v_['discr'] for v_ in ad_['variants']}
            return None
        bools_ = [f_['n'] for f_ in radt_ if f_['ty'] == 'bool' or ('::' in f_['ty'] and '<' not in f_['ty'] and flag_enum(f_['ty']) is not None)]
        assigned_ = {mirlib.place_fields(st_['p'])[-1] for bb_, i_, st_ in mirlib.assignments(pr, lambda st_: st_['p']['l'] in _self_locals(pr) and mirlib.place_fields(st_['p'])[-1:] and mirlib.place_fields(st_['p'])[-1] in bools_)}
        if len(F_STATE) != 1 or len(F_ERR) != 1 or len(bools_) != 2 or len(assigned_) != 1:
            raise CheckError('UNRECOGNISED: Reconnect fields by role: state %r, error slot %r, flags %r (assigned in poll_ready: %r)' % (F_STATE, F_ERR, bools_, sorted(assigned_)))
        F_STATE, F_ERR = F_STATE[0], F_ERR[0]
        F_CONN = sorted(assigned_)[0]
        F_LAZY = [b_ for b_ in bools_ if b_ != F_CONN][0]
        LAZY_TY = [f_['ty'] for f_ in radt_ if f_['n'] == F_LAZY][0]
        LAZY_ENUM = None if LAZY_TY == 'bool' else flag_enum(LAZY_TY)
        LAZY_PAT = r'^bool$' if LAZY_ENUM is None else r'(^|::)' + re.escape(LAZY_TY.split('::')[-1]) + '$'

        def flag_value(t_):
            # the constant a flag-typed term denotes: True/False, or the variant name
            x_ = strip_refs(mirlib.simplify(t_))
            if LAZY_ENUM is None:
                v_ = const_val(x_)
                return v_ if isinstance(v_, bool) else None
            if x_ and x_[0] == 'agg' and x_[1].get('variant') in LAZY_ENUM:
                return x_[1]['variant']
            v_ = const_val(x_)
            if isinstance(v_, int) and not isinstance(v_, bool):
                return {d_: n_ for n_, d_ in LAZY_ENUM.items()}.get(v_)
            return None
        # which value means "lazy": the one Connection::lazy passes (the other one is what Connection::connect passes)
        cn_new_ = tonic.body('connection::Connection::new')
        mode_pos_ = param_of_type(cn_new_, LAZY_PAT) - 1
        passed_ = {}
        for nm_ in ('connect', 'lazy'):
            for b_ in [b_ for b_ in tonic.bodies if b_.kind in ('fn', 'coroutine') and re.search(r'connection::Connection::%s(::\{closure#0\})?$' % nm_, b_.path)]:
                for bb_, t_ in b_.calls(pat='Connection::new'):
                    passed_[nm_] = flag_value(b_.origin(t_['args'][mode_pos_]))
        LAZY_V, EAGER_V = passed_.get('lazy'), passed_.get('connect')
        if LAZY_V is None or EAGER_V is None or LAZY_V == EAGER_V:
            raise CheckError('UNRECOGNISED: Connection::lazy / Connection::connect pass the flag values %r / %r to Connection::new' % (LAZY_V, EAGER_V))

        def pins_eager(g_):
            # some guard on the path decides the flag field to be the eager value
            # `a || b` materialised as a value is phi(true | b): it being false means every alternative is false
            g2_ = []
            for s_, vals_, tm_ in g_:
                t0_ = strip_refs(tm_)
                if t0_ and t0_[0] == 'phi' and vals_ == [0]:
                    g2_ += [(s_, vals_, a_) for a_ in t0_[1] if const_val(strip_refs(a_)) is None]
                else:
                    g2_.append((s_, vals_, tm_))
            for s_, vals_, tm_ in g2_:
                tm_ = strip_refs(tm_)
                if LAZY_ENUM is None:
                    if field_names(tm_)[-1:] == [F_LAZY]:
                        truth_ = pr.edge_truth(s_, vals_)
                        if truth_ is not None and truth_ == EAGER_V:
                            return True
                    continue
                if tm_ and tm_[0] == 'discr' and field_names(tm_[1])[-1:] == [F_LAZY]:
                    if vals_ == [LAZY_ENUM[EAGER_V]]:
                        return True
                    if vals_ == ['else'] and [v_ for v_, _ in pr.term(s_)['arms']] == [LAZY_ENUM[LAZY_V]]:
                        return True
                if is_call(tm_) and tm_[3] in ('eq', 'ne') and len(tm_[2]) == 2:
                    a_, b2_ = tm_[2]
                    for fld_, cst_ in ((a_, b2_), (b2_, a_)):
                        if field_names(fld_)[-1:] == [F_LAZY] and flag_value(cst_) is not None:
                            truth_ = pr.edge_truth(s_, vals_)
                            if truth_ is None:
                                continue
                            equal_ = truth_ if tm_[3] == 'eq' else (not truth_)
                            cv_ = flag_value(cst_)
                            if (equal_ and cv_ == EAGER_V) or (not equal_ and cv_ == LAZY_V):
                                return True
            return False
        sadt = tonic.adt('reconnect::State')
        vname = {v['discr']: v['name'] for v in sadt['variants']}
        state_locals = [l for l in range(len(pr.local_tys)) if pr.tystr(pr.local_tys[l]).startswith('transport::channel::service::reconnect::State<') and pr.name_of(l) is not None]
        if len(state_locals) > 1:
            raise CheckError('UNRECOGNISED: expected at most one named local of type State in poll_ready, found %r' % [pr.name_of(l) for l in state_locals])
        # the new state may be staged in a local (`state = State::X; ... self.state = state`) or assigned to self.state directly
        SL = state_locals[0] if state_locals else -1
        SELF = _self_locals(pr)

        def is_self_state(p):
            return mirlib.place_fields(p) == [F_STATE] and p['l'] in SELF

        def on_stmt(body, bb, i, stmt, st):
            if 'p' not in stmt:
                return None
            p = stmt['p']
            rv = stmt['rv']
            if is_self_state(p):
                st = dict(st)
                v = mirlib.rvalue_variant(body, rv)
                src = mirlib.root_local(body, rv['use']) if 'use' in rv else None
                if v and v[0].endswith('reconnect::State'):
                    st['ss'] = frozenset([v[1]])
                elif src == SL:
                    st['ss'] = frozenset(x for x in st['ls'] if x != 'Uninit') or frozenset(['?'])
                else:
                    st['ss'] = frozenset(['?'])
                st['fut'] = frozenset(['live'])
                return st
            if p['l'] == SL and not p.get('pr'):
                st = dict(st)
                v = mirlib.rvalue_variant(body, rv)
                st['ls'] = frozenset([v[1]]) if v and v[0].endswith('reconnect::State') else frozenset(['?'])
                return st
            if p['l'] in SELF and mirlib.place_fields(p) == [F_ERR]:
                st = dict(st)
                t = strip_refs(body._origin_def(('stmt', bb, i, rv), 0, set()))
                st['err'] = frozenset(['Some']) if (t[0] == 'agg' and t[1].get('variant') == 'Some') else (frozenset(['None']) if (t[0] == 'agg' and t[1].get('variant') == 'None') else frozenset(['Some', 'None']))
                return st
            if p['l'] == 0 and not p.get('pr'):
                st = dict(st)
                t = strip_refs(body._origin_def(('stmt', bb, i, rv), 0, {0}))
                kind = 'other'
                if t[0] == 'agg' and t[1].get('variant') == 'Pending':
                    kind = 'pending'
                elif t[0] == 'agg' and t[1].get('variant') == 'Ready':
                    inner = strip_refs(t[2][0])
                    if inner[0] == 'agg' and inner[1].get('variant') == 'Ok':
                        kind = 'ok'
                    elif inner[0] == 'agg' and inner[1].get('variant') == 'Err':
                        kind = 'err'
                st['ret'] = frozenset([(kind, bb)])
                return st
            return None

        def on_term(body, bb, t, st):
            if t['k'] != 'call':
                return None
            if t['dest']['l'] == 0 and not t['dest'].get('pr'):
                st = dict(st)
                st['ret'] = frozenset([('err' if t.get('name') == 'from_residual' else 'other', bb)])
                return st
            if (t.get('name') == 'take' or (t.get('name') in ('take', 'replace') and 'mem::' in (t.get('fn') or ''))) and mentions_field(body.origin(t['args'][0]), F_ERR):
                st = dict(st)
                st['err'] = frozenset(['None'])
                return st
            return None

        def on_edge(body, bb, tgt, vals, st):
            o = body.origin(body.term(bb)['on'])
            if o[0] == 'discr':
                base = strip_refs(o[1])
                if base[0] == 'field' and base[2] == F_STATE and strip_refs(base[1])[0] == 'arg':
                    cur = st['ss']
                    names = set(vname.get(v) for v in vals if v != 'else')
                    if vals == ['else']:
                        arms = set(vname.get(v) for v, _ in body.term(bb)['arms'])
                        new = set(x for x in cur if x not in arms)
                    else:
                        new = set(x for x in cur if x in names or x == '?')
                    if not new:
                        return False
                    st = dict(st)
                    st['ss'] = frozenset(new)
                    return st
                # result of polling the connect future: Ready => the stored future is finished
                if term_contains(base, lambda x: is_call(x, name='poll') and term_contains(x, lambda y: y and y[0] == 'variant' and y[2] == 'Connecting')):
                    if o[2]:
                        names = {v: n for v, n in o[2]}
                        if any(names.get(v) == 'Ready' for v in vals if v != 'else') and base[0] != 'field':
                            st = dict(st)
                            st['fut'] = frozenset(['done'])
                            return st
            if o[0] == 'discr' and o[2] and strip_refs(o[1])[0] == 'field' and strip_refs(o[1])[2] == F_ERR and strip_refs(strip_refs(o[1])[1])[0] == 'arg':
                names_ = {v: n for v, n in o[2]}
                cur = st['err']
                if vals == ['else']:
                    arms_ = set(names_.get(v) for v, _ in body.term(bb)['arms'])
                    new = set(x for x in cur if x not in arms_)
                else:
                    new = set(x for x in cur if x in set(names_.get(v) for v in vals))
                if not new:
                    return False
                st = dict(st)
                st['err'] = frozenset(new)
                return st
            if is_call(strip_refs(o), name='is_some') and mentions_field(o, F_ERR):
                cur = st['err']
                new = cur & ({'None'} if vals == [0] else {'Some'})
                if not new:
                    return False
                st = dict(st)
                st['err'] = frozenset(new)
                return st
            return None

        init = {'ss': set(vname.values()), 'ls': {'Uninit'}, 'err': {'Some', 'None'}, 'fut': {'live'}, 'ret': {('init', -1)}}
        ts = TypeState(pr, init, on_stmt, on_term, on_edge).run()
        rets = pr.return_blocks()
        n_ok = 0
        import C07
        for rb in rets:
            st = ts.inp.get(rb)
            if not st:
                continue
            for kind, wb in sorted(st['ret']):
                sub = C07.flow_from(pr, ts, wb, rb, on_stmt, on_term, on_edge) or st
                ss, err, fut = sorted(sub['ss']), sorted(sub['err']), sorted(sub['fut'])
                if kind == 'ok':
                    n_ok += 1
                    R.check(set(ss) <= {'Connected'} or set(err) <= {'Some'}, 'C14.R1', 'ready-ok:bb-kind-%d' % n_ok, site(pr, wb),
                            'Ready(Ok(())) returned with state in %r and error in %r; required: Connected, or an error pending (else call() panics "service not ready")' % (ss, err))
                # (an Err from poll_ready retires the service by the tower contract, so the Err exit is exempt)
                if kind in ('ok', 'pending', 'other'):
                    R.check(not (set(fut) == {'done'} or ('done' in fut and 'Connecting' in ss)) or 'Connecting' not in ss, 'C14.R1', 'finished-future-replaced:%s' % kind, site(pr, wb),
                            'on return (%s) a completed connect future may still be stored: state %r, future %r (the next poll_ready would poll a finished future)' % (kind, ss, fut))
        R.floor('C14.R1', 'Ready(Ok) exits', n_ok, 3)
        # loop head: the switch on self.state must never be entered with a finished future in Connecting
        heads = [bb for bb in sorted(pr.live_blocks()) if pr.term(bb)['k'] == 'switch' and (lambda o: o[0] == 'discr' and strip_refs(o[1])[0] == 'field' and strip_refs(o[1])[2] == 'state')(pr.origin(pr.term(bb)['on']))]
        for hb in heads:
            st = ts.at_term.get(hb)
            if st:
                R.check(not ('done' in st['fut'] and 'Connecting' in st['ss']), 'C14.R1', 'loop-head-no-finished-future', site(pr, hb), 'at the state dispatch: state %r, future %r' % (sorted(st['ss']), sorted(st['fut'])))
        R.floor('C14.R1', 'state dispatch sites', len(heads), 1)

    with R.guard('C14.R3'):
        # has_been_connected monotone
        hb = [(bb, i, st) for bb, i, st in mirlib.assignments(pr, lambda st: mirlib.place_fields(st['p']) == [F_CONN])]
        R.floor('C14.R3', 'has_been_connected writes', len(hb), 1)
        for bb, i, st in hb:
            v = const_val(pr._origin_def(('stmt', bb, i, st['rv']), 0, set()))
            g = pr.edge_guards(bb)
            in_connected = any(tm[0] == 'discr' and mentions_field(tm, F_STATE) and vals == [[d for d, n in vname.items() if n == 'Connected'][0]] for s, vals, tm in g)
            R.check(v is True and in_connected, 'C14.R3', 'has_been_connected-monotone', site(pr, bb, i),
                    'has_been_connected := %r on the Connected arm: %r (clearing it makes a later failed reconnect of an eager channel return Err, which kills the buffer worker for good)' % (v, in_connected))
        # Err return on connect failure only when !(has_been_connected || is_lazy)
        errw = [bb for bb in writers_of(pr, 0) if any(w[0] == 'variant' and w[2] == 'Ready' and strip_refs(w[3][0])[0] == 'agg' and strip_refs(w[3][0])[1].get('variant') == 'Err' for w in block_writes(pr, bb, 0))]
        R.check(len(errw) == 1, 'C14.R3', 'connect-error-return-site', site(pr), 'Ready(Err(e)) sites: %d' % len(errw))
        for bb in errw:
            g = pr.edge_guards(bb)
            hbf = any(field_names(tm)[-1:] == [F_CONN] and vals == [0] for s, vals, tm in g)
            lzf = pins_eager(g)
            R.check(hbf and lzf, 'C14.R3', 'eager-first-failure-only', site(pr, bb), 'Err returned only when has_been_connected == false (%r) and is_lazy == false (%r)' % (hbf, lzf))
            pay = [w for w in block_writes(pr, bb, 0)][0][3][0]
            R.check(term_contains(pay, lambda x: is_call(x, name='poll')) and term_contains(pay, lambda x: x and x[0] == 'variant' and x[2] == 'Err'), 'C14.R3', 'returns-the-connect-error', site(pr, bb), 'payload = %s' % show(pay)[:100])
        est = [(bb, i, st) for bb, i, st in mirlib.assignments(pr, lambda st: st['p']['l'] in SELF and mirlib.place_fields(st['p']) == [F_ERR])]
        R.check(len(est) == 1, 'C14.R3', 'error-store-site', site(pr), 'self.error assignments: %d' % len(est))
        for bb, i, st in est:
            v = pr._origin_def(('stmt', bb, i, st['rv']), 0, set())
            R.check(term_contains(v, lambda x: is_call(x, name='poll')) and term_contains(v, lambda x: x and x[0] == 'variant' and x[2] == 'Err'), 'C14.R3', 'stores-the-connect-error', site(pr, bb, i), 'self.error = Some(%s)' % show(v)[:80])
        # the local state written on the failure arms is Idle
        idle_w = [(bb, i) for bb, i, st in mirlib.assignments(pr, lambda st: (st['p']['l'] == SL and not st['p'].get('pr')) or is_self_state(st['p'])) if (mirlib.rvalue_variant(pr, st['rv']) or (None, None))[1] == 'Idle']
        R.check(len(idle_w) >= 2, 'C14.R3', 'failure-arms-reset-to-idle', site(pr), 'state = State::Idle assignments (connect failure + dead connection): %d' % len(idle_w))
        mk = pr.calls(name='make_service')
        R.check(len(mk) == 1 and any(tm[0] == 'discr' and mentions_field(tm, F_STATE) and vals == [[d for d, n in vname.items() if n == 'Idle'][0]] for s, vals, tm in pr.edge_guards(mk[0][0])), 'C14.R3', 'reconnect-from-idle', site(pr), 'make_service is called from the Idle arm (a reset state reconnects on the next loop iteration)')
        R.check(mk and mentions_field(pr.origin(mk[0][1]['args'][1]), 'target'), 'C14.R3', 'reconnect-same-target', site(pr), 'make_service(self.target.clone())')
        nw = tonic.body('reconnect::Reconnect::<M, Target>::new')
        ag = mirlib.aggregates(nw, 'reconnect::Reconnect')
        okn = len(ag) == 1
        if okn:
            f = ag[0][3]['fields']
            ops = ag[0][4]
            okn = const_val(nw.origin(ops[f.index(F_CONN)])) is False and (strip_refs(nw.origin(ops[f.index(F_LAZY)]))[0] == 'arg' and re.search(LAZY_PAT, nw.ty(strip_refs(nw.origin(ops[f.index(F_LAZY)]))[1])) is not None) and strip_refs(nw.origin(ops[f.index(F_STATE)]))[1].get('variant') == 'Idle' and strip_refs(nw.origin(ops[f.index(F_ERR)]))[1].get('variant') == 'None'
        R.check(okn, 'C14.R3', 'new:initial-state', site(nw), 'Reconnect{state: Idle, error: None, has_been_connected: false, is_lazy}')

    # ---------------------------------------------------------------- R2 call
    R.describe('C14.R2', 'call(): a stored connect error is taken (Option::take) and returned to exactly that call; otherwise the connected service is called')
    with R.guard('C14.R2'):
        cl = tonic.body(re.compile(r'reconnect::Reconnect<M, Target> as tower_service::Service<Request>>::call$'))
        R.saw(cl)
        ferr_ = [f_['n'] for f_ in tonic.adt('reconnect::Reconnect')['variants'][0]['fields'] if f_['ty'].startswith('std::option::Option<') and 'Error' in f_['ty']]
        F_ERR2 = ferr_[0] if len(ferr_) == 1 else 'error'
        # Option::take or mem::take on the error slot
        tk = [(bb, t) for bb, t in cl.calls(name='take') if mentions_field(cl.origin(t['args'][0]), F_ERR2)]
        R.check(len(tk) == 1, 'C14.R2', 'error-taken', site(cl), 'self.error.take() sites: %d (a clone/peek would replay the failure onto later calls)' % len(tk))
        er = cl.calls(pat='ResponseFuture', name='error')
        R.check(len(er) == 1 and term_contains(cl.origin(er[0][1]['args'][0]), lambda x: is_call(x, name='take')), 'C14.R2', 'error-returned-to-this-call', site(cl), 'ResponseFuture::error(taken error)')
        sc = [(bb, t) for bb, t in cl.calls(pat='Service::call')]
        R.check(len(sc) == 1 and term_contains(cl.origin(sc[0][1]['args'][0]), lambda x: x and x[0] == 'variant' and x[2] == 'Connected'), 'C14.R2', 'connected-service-called', site(cl), 'the Connected service is called')
        if sc and tk:
            g = cl.edge_guards(sc[0][0])
            R.check(any(tm[0] == 'discr' and 'take' in show(tm) and vals in ([0], ['else']) for s, vals, tm in g), 'C14.R2', 'service-called-only-without-error', site(cl, sc[0][0]), 'inner call only when no error was pending')
        ps = [p for p in mirlib.panic_sites(cl) if p[1] == 'panic']
        R.check(len(ps) == 1, 'C14.R2', 'single-not-ready-panic', site(cl), 'panic sites in call(): %d (unreachable after poll_ready returned Ready(Ok) by C14.R1)' % len(ps))
        rf = tonic.body(re.compile(r'reconnect::ResponseFuture<F> as std::future::Future>::poll$'))
        R.saw(rf)
        tke = [(bb, t) for bb, t in rf.calls(name='take')]
        R.check(len(tke) == 1, 'C14.R2', 'future-yields-error-once', site(rf), 'the error future takes its error (take sites: %d)' % len(tke))

    # ---------------------------------------------------------------- R4 eager vs lazy
    R.describe('C14.R4', 'Connection::connect = new(.., is_lazy=false).ready_oneshot() (initial failure reported immediately); Connection::lazy = new(.., is_lazy=true)')
    with R.guard('C14.R4'):
        for nm, lazy in (('connect', False), ('lazy', True)):
            cands = [b for b in tonic.bodies if b.kind in ('fn', 'coroutine') and re.search(r'connection::Connection::%s(::\{closure#0\})?$' % nm, b.path)]
            hit = [(b, bb, t) for b in cands for bb, t in b.calls(pat='Connection::new')]
            R.check(len(hit) == 1 and flag_value(hit[0][0].origin(hit[0][2]['args'][mode_pos_])) == (LAZY_V if lazy else EAGER_V), 'C14.R4', '%s:is_lazy=%s' % (nm, str(lazy).lower()), site(hit[0][0], hit[0][1]) if hit else '', 'Connection::new(.., %s)' % (flag_value(hit[0][0].origin(hit[0][2]['args'][-1])) if hit else None))
            if nm == 'connect' and hit:
                ro = [1 for b in cands for bb, t in b.calls(name='ready_oneshot')]
                R.check(len(ro) == 1, 'C14.R4', 'connect:ready_oneshot', site(hit[0][0]), 'eager connect drives poll_ready once (ready_oneshot sites: %d)' % len(ro))
        cn = tonic.body('connection::Connection::new')
        rc = cn.calls(pat='Reconnect', name='new')
        nwb = tonic.body('reconnect::Reconnect::<M, Target>::new')
        lz_pos = param_of_type(nwb, LAZY_PAT) - 1
        cn_lz = param_of_type(cn, LAZY_PAT)
        R.check(len(rc) == 1 and strip_refs(cn.origin(rc[0][1]['args'][lz_pos]))[:2] == ('arg', cn_lz), 'C14.R4', 'is_lazy-plumbed', site(cn), 'Reconnect::new(.., is_lazy) receives Connection::new\'s flag: %s' % (show(cn.origin(rc[0][1]['args'][lz_pos])) if rc else None))

    # the public entry points: eager connects go through Channel::connect (-> Connection::connect) on every path, lazy ones
    # through Channel::new (-> Connection::lazy); an eager function that builds the channel lazily reports no initial failure
    with R.guard('C14.R4', 'endpoint'):
        def fam_of(suffix):
            return [b_ for b_ in tonic.bodies if b_.kind in ('fn', 'coroutine') and re.search(r'channel::endpoint::Endpoint::%s(::\{closure#0\})?$' % suffix, b_.path)]
        for nm, eager in (('connect', True), ('connect_with_connector', True), ('connect_lazy', False), ('connect_with_connector_lazy', False)):
            fam = fam_of(nm)
            if not fam:
                R.bad('C14.R4', 'endpoint:%s' % nm, '', 'Endpoint::%s not found' % nm, kind='ANCHOR-MISSING')
                continue
            eag = [(b_, bb, t) for b_ in fam for bb, t in b_.calls(pat='transport::channel::Channel::connect')]
            laz = [(b_, bb, t) for b_ in fam for bb, t in b_.calls(pat='transport::channel::Channel::new')]
            R.saw(*fam)
            if eager:
                main = [b_ for b_ in fam if b_.kind == 'coroutine'] or fam
                mb_ = main[0]
                via = {bb for b_, bb, t in eag if b_ is mb_}
                okp = bool(via) and all(mb_.must_pass(0, rb, via) for rb in mb_.return_blocks())
                R.check(not laz and okp, 'C14.R4', 'endpoint:%s:eager' % nm, site(mb_), 'Endpoint::%s: Channel::new sites %d (must be 0); every path to a return passes Channel::connect(..).await: %r' % (nm, len(laz), okp))
            else:
                R.check(not eag and bool(laz), 'C14.R4', 'endpoint:%s:lazy' % nm, site(fam[0]), 'Endpoint::%s: Channel::connect sites %d (must be 0), Channel::new sites %d' % (nm, len(eag), len(laz)))
        for nm, inner in (('connect', 'Connection::connect'), ('new', 'Connection::lazy')):
            fam = [b_ for b_ in tonic.bodies if b_.kind in ('fn', 'coroutine') and re.search(r'transport::channel::Channel::%s(::\{closure#0\})?$' % nm, b_.path)]
            hits = [(b_, bb) for b_ in fam for bb, t in b_.calls(pat='service::connection::' + inner)]
            other = [(b_, bb) for b_ in fam for bb, t in b_.calls(pat='service::connection::Connection::') if (t.get('fn') or '').split('::')[-1] in ('connect', 'lazy') and not (t.get('fn') or '').endswith(inner)]
            R.check(len(hits) >= 1 and not other, 'C14.R4', 'channel:%s->%s' % (nm, inner), site(hits[0][0], hits[0][1]) if hits else '', 'Channel::%s builds its connection with %s: %d site(s), other constructors: %d' % (nm, inner, len(hits), len(other)))

    # ---------------------------------------------------------------- R5 UNAVAILABLE
    R.describe('C14.R5', 'connector errors are wrapped in ConnectError; a ConnectError in a source chain maps to Status::unavailable')
    with R.guard('C14.R5'):
        call = tonic.body(re.compile(r'connector::Connector<C> as tower_service::Service<http::Uri>>::call$'))
        fam = [c for c in tonic.bodies if c.path.startswith(call.path + '::') and c.kind in ('coroutine', 'closure')]
        okw = any(any('k' in a and (a['k'].get('fn') or '').endswith('ConnectError') for a in t['args']) for fb in fam for bb, t in fb.calls(name='map_err'))
        R.check(okw, 'C14.R5', 'connect-errors-wrapped', site(call), '.map_err(ConnectError) on the connect future')
        fs = tonic.body('status::find_status_in_source_chain')
        ffs = family(tonic, fs)   # the rungs of the chain walk may be functions of their own (named, or listed in a table)
        dcs = [(m_, bb, t) for m_, bb, t in fam_calls(ffs, name='downcast_ref') if any('ConnectError' in g for g in t.get('ga', []))]
        R.check(len(dcs) == 1, 'C14.R5', 'downcast-connect-error', site(fs), 'downcast_ref::<ConnectError> sites: %d' % len(dcs))
        un = fam_calls(ffs, pat='Status::unavailable')
        is_ce_dc = lambda x: is_call(x, name='downcast_ref') and any('ConnectError' in g for g in (x[4].get('ga') or []))
        oku = any(any(guard_is_some(tm, vals, is_ce_dc) for s, vals, tm in m_.edge_guards(bb)) for m_, bb, t in un)
        R.check(oku, 'C14.R5', 'connect-error->unavailable', site(fs), 'Status::unavailable behind the ConnectError downcast: %r' % oku)

    # ---------------------------------------------------------------- R6 connection attempts are bounded by connect_timeout
    R.describe('C14.R6', 'every connector built for dialing an Endpoint carries the configured connect_timeout (set on the HttpConnector in http_connector(), or by a TimeoutConnector wrapped around it at every site that builds one): a silent peer fails the attempt instead of hanging the call')
    with R.guard('C14.R6'):
        hc = tonic.body('channel::endpoint::Endpoint::http_connector')
        R.saw(hc)
        def sets_timeout(body_):
            return any(mentions_field(body_.origin(t_['args'][1]), 'connect_timeout') or mentions_field(resolve_env(tonic, body_, body_.origin(t_['args'][1])), 'connect_timeout')
                       for bb_, t_ in body_.calls(name='set_connect_timeout') if len(t_['args']) > 1)
        inside = sets_timeout(hc)
        sites = [(bd, bb, t) for bd, bb, t in call_sites_in_crate(tonic, pat='Endpoint::http_connector')]
        R.floor('C14.R6', 'http_connector call sites', len(sites), 2)
        for bd, bb, t in sites:
            fam_ = family(tonic, bd)
            oks = inside or any(sets_timeout(m_) for m_ in fam_)
            R.check(oks, 'C14.R6', 'connect-timeout-applied:%s' % re.sub(r'(::\{closure#\d+\})+$', '', short(bd.path)).split('::')[-1], site(bd, bb),
                    'the connector built here is bounded by self.connect_timeout (set in http_connector(): %r; set at this site: %r)' % (inside, oks and not inside))


    # ---------------------------------------------------------------- R7 every layer above Reconnect hands each call down
    R.describe('C14.R7', 'every tonic layer of the client stack (Channel, Connection, AddOrigin, UserAgent, GrpcTimeout) passes each call to its inner service on every path: Reconnect parks a connect error in poll_ready and hands it to the next call() - a layer that answers a call itself after poll_ready leaves that error parked for a later, unrelated call (and the connection attempt for it is never made)')
    with R.guard('C14.R7'):
        LAYERS = {
            'Channel': (r'<transport::channel::Channel as tower_service::Service<.*>>::call$', None),
            'Connection': (r'<transport::channel::service::connection::Connection as tower_service::Service<.*>>::call$', None),
            'UserAgent': (r'<transport::channel::service::user_agent::UserAgent<T> as tower_service::Service<.*>>::call$', None),
            'GrpcTimeout': (r'<transport::service::grpc_timeout::GrpcTimeout<S> as tower_service::Service<.*>>::call$', None),
            # AddOrigin refuses every call of a channel whose endpoint URI has no scheme or authority: a property of the endpoint, the
            # same for every call of that channel (none ever succeeds) - the one accepted skip
            'AddOrigin': (r'<transport::channel::service::add_origin::AddOrigin<T> as tower_service::Service<.*>>::call$', ('scheme', 'authority')),
        }
        n = 0
        for nm, (pat, skip_fields) in sorted(LAYERS.items()):
            lb = tonic.body(re.compile(pat))
            R.saw(lb)
            ic = [(bb, t) for bb, t in lb.calls(name='call') if t['args'] and arg_root(through_calls(strip_refs(lb.origin(t['args'][0])), {'deref', 'deref_mut'})) == 1]
            R.check(len(ic) == 1, 'C14.R7', '%s:one-inner-call' % nm, site(lb), 'calls of the inner service in %s::call: %d' % (nm, len(ic)))
            if len(ic) != 1:
                continue
            n += 1
            cb = ic[0][0]
            skipping = [rb for rb in lb.return_blocks() if not lb.must_pass(0, rb, [cb])]
            if not skipping:
                R.ok('C14.R7', '%s:always-forwards' % nm, site(lb, cb), 'every return of %s::call is behind the inner call' % nm)
                continue
            # which conditions lead around the inner call?
            gs = [(vals, tm) for s_, vals, tm in lb.edge_guards(cb)]
            okskip = skip_fields is not None and gs and all(any(mentions_field(tm, f) for f in skip_fields) and not term_contains(tm, lambda y: isinstance(y, tuple) and y[:1] == ('arg',) and y[1] == 2) for vals, tm in gs)
            R.check(okskip, 'C14.R7', '%s:always-forwards' % nm, site(lb, cb), 'a return of %s::call is reachable without the inner call; conditions in front of the inner call: %r' % (nm, [(v, show(tm)[:70]) for v, tm in gs]))
        R.floor('C14.R7', 'client stack layers read', n, 5)

    # ---------------------------------------------------------------- R8 balanced channel: every change of the endpoint set is handed on
    R.describe('C14.R8', 'balance_channel: DynamicServiceStream::poll_next turns every received Change into the tower Change of the same kind and key, deciding on nothing but what was received (no remembered set that swallows a re-announced endpoint: after Insert, Remove, Insert of one address the balancer would be left empty and every call would hang)')
    with R.guard('C14.R8'):
        dn = tonic.body(re.compile(r'<transport::channel::service::discover::DynamicServiceStream<K> as tokio_stream::Stream>::poll_next$'))
        R.saw(dn)
        recv = dn.calls(name='poll_recv')
        R.check(len(recv) == 1, 'C14.R8', 'one-poll_recv', site(dn), 'poll_recv sites: %d' % len(recv))
        foreign = []
        for bb in sorted(dn.live_blocks()):
            t = dn.term(bb)
            if t['k'] == 'switch' and not t.get('mac'):
                o = dn.origin(t['on'])
                base = mirlib.field_path(o[1])[0] if isinstance(o, tuple) and o[:1] == ('discr',) else None
                if not is_call(base, name='poll_recv'):
                    foreign.append((bb, o))
        for bb, o in foreign:
            R.bad('C14.R8', 'decides-on-received-change-only', site(dn, bb), 'a branch on %s: whether a change is handed to the balancer depends on something other than the change' % show(o)[:90])
        if not foreign:
            R.ok('C14.R8', 'decides-on-received-change-only', site(dn), 'every branch of poll_next is on the value poll_recv returned')
        for var, nfields in (('Insert', 2), ('Remove', 1)):
            ag = [x for x in mirlib.aggregates(dn) if (x[3].get('adt') or '').endswith('discover::Change') and x[3].get('variant') == var and 'tower' in (x[3].get('adt') or '')]
            R.check(len(ag) == 1, 'C14.R8', '%s:built-once' % var, site(dn), 'tower Change::%s built %d times' % (var, len(ag)))
            for bb, i, p, a, ops in ag:
                k = show(dn.origin(ops[0]))
                R.check(term_contains(dn.origin(ops[0]), lambda y: is_call(y, name='poll_recv')) and ('as %s.0' % var) in k, 'C14.R8', '%s:same-key' % var, site(dn, bb, i), 'key = %s' % k[-80:])
                # .. and returned: Ready(Some(Ok(that)))
                rts = [show(v) for rb, v in mirlib.returned_terms(dn)]
                R.check(any(('Ready{Some{Ok{%s{' % var) in r_.replace(' ', '') or ('Ok{%s{' % var) in r_ for r_ in rts), 'C14.R8', '%s:returned' % var, site(dn, bb, i), 'returned values: %r' % [r_[:50] for r_ in rts])
