"""C03 — requests and responses on the wire are spec-conformant gRPC (structural clauses)."""
import re
from common import *
import mirlib
from mirlib import TypeState
import C01

META = {
    'explanation': 'Request constants (POST, HTTP/2, te: trailers, content-type, path placement), response content-type and the absence of '
                   'any status override, the 5-byte prefix layout (shared with C01), the announced-encoding table, and the '
                   'single-trailers typestate of the body encoder (no frame after the end-of-stream flag is set; trailers only in the '
                   'server role) are decided from MIR constants, operand origins, dominance and a small typestate analysis.',
    'exhaustive': True,
    'assumptions': ['http::Response::new yields status 200; HeaderMap::insert replaces'],
}


def frame_kind(body, bb):
    """what a return-slot write in EncodeBody::poll_frame produces"""
    kinds = set()
    for w in block_writes(body, bb, 0):
        if w[0] == 'variant' and w[2] == 'Pending':
            kinds.add('pending')
        elif w[0] == 'variant' and w[2] == 'Ready':
            t = strip_refs(w[3][0])
            kinds.add('none' if t[0] == 'agg' and t[1].get('variant') == 'None' else 'other')
        elif w[0] == 'call':
            if w[3] == 'from_residual':
                kinds.add('err')
            elif w[3] == 'into':
                t = strip_refs(w[2][0])
                s = show(t)
                if t[0] == 'agg' and t[1].get('variant') == 'None':
                    kinds.add('none')
                elif 'Frame::data' in s or 'Frame::<T>::data' in s or term_contains(t, lambda x: is_call(x, name='data')):
                    kinds.add('data')
                elif term_contains(t, lambda x: is_call(x, name='trailers') and 'Frame' in x[1]):
                    kinds.add('trailers')
                elif term_contains(t, lambda x: is_call(x, name='trailers') and 'EncodeState' in x[1]):
                    kinds.add('maybe-trailers')
                elif term_contains(t, lambda x: x and x[0] == 'agg' and x[1].get('variant') == 'Err'):
                    kinds.add('err')
                else:
                    kinds.add('other')
            else:
                kinds.add('other')
        else:
            kinds.add('other')
    return kinds


def run(R):
    tonic = R.crate('tonic')
    W = spec('wire')

    # ---------------------------------------------------------------- R1 request constants
    R.describe('C03.R1', 'prepare_request: into_http(uri, POST, HTTP_2, SanitizeHeaders::Yes); afterwards te: trailers and content-type: application/grpc are inserted and never removed; the method path becomes path_and_query')
    with R.guard('C03.R1'):
        b = tonic.body('client::grpc::GrpcConfig::prepare_request')
        R.saw(b)
        ib, it = b.call1(name='into_http')
        ln = into_http_line(b, it)
        m = constdef(ln['method'])
        v = constdef(ln['version'])
        sz = strip_refs(ln['sanitize'])
        R.check(m is not None and m.endswith('Method::' + W['method']), 'C03.R1', 'method', site(b, ib), 'method = %s' % show(ln['method']))
        R.check(v is not None and v.endswith('Version::' + W['version']), 'C03.R1', 'version', site(b, ib), 'version = %s' % show(ln['version']))
        R.check(sz[0] == 'agg' and sz[1].get('variant') == 'Yes', 'C03.R1', 'sanitize-yes', site(b, ib), 'sanitize = %s' % show(sz))
        uri = ln['uri']
        R.check(mentions_call(uri, name='from_parts'), 'C03.R1', 'uri-from-parts', site(b, ib), 'uri = %s' % show(uri)[:120])
        ins = b.calls(pat='HeaderMap', name='insert')
        got = {}
        for bb, t in ins:
            k = b.origin(t['args'][1])
            kn = (constdef(k) or '').split('::')[-1] or const_val(k)
            got[kn] = (bb, b.origin(t['args'][2]))
            R.check(b.dominates(ib, bb), 'C03.R1', 'insert-after-into_http:%s' % kn, site(b, bb), 'header %s inserted into the request built by into_http' % kn)
        te = got.get('TE')
        if te is not None:
            tv_ = strip_refs(mirlib.simplify(te[1]))
            # `if let Some(te) = <value known to be Some(x)>`: the payload of a Some built on the way
            if tv_ and tv_[0] == 'field' and strip_refs(tv_[1])[0] == 'variant' and strip_refs(tv_[1])[2] == 'Some':
                inner_ = strip_refs(strip_refs(tv_[1])[1])
                if inner_ and inner_[0] == 'agg' and inner_[1].get('variant') == 'Some' and inner_[2]:
                    tv_ = strip_refs(inner_[2][0])
            te = (te[0], tv_)
        R.check(te is not None and is_call(te[1], name='from_static') and const_val(te[1][2][0]) == W['te'], 'C03.R1', 'te-trailers', site(b, te[0]) if te else site(b), 'te = %s' % (show(te[1]) if te else None))
        ct = got.get('CONTENT_TYPE')
        R.check(ct is not None and (constdef(ct[1]) or '').endswith('GRPC_CONTENT_TYPE'), 'C03.R1', 'content-type', site(b, ct[0]) if ct else site(b), 'content-type = %s' % (show(ct[1]) if ct else None))
        R.eq(header_name_value(tonic, 'metadata::GRPC_CONTENT_TYPE'), W['content_type'], 'C03.R1', 'GRPC_CONTENT_TYPE', 'tonic/src/metadata/mod.rs', 'GRPC_CONTENT_TYPE')
        for bb in (x[0] for x in (te, ct) if x):
            R.check(all(rb not in b.reachable(bb) for rb, rt in b.calls(pat='HeaderMap', name='remove')), 'C03.R1', 'no-remove-after', site(b, bb), 'no HeaderMap::remove follows')
            feas_ = b.reach_ps(0, removed={bb})
            for rb in b.return_blocks():
                R.check(b.dominates(bb, rb) or rb not in feas_, 'C03.R1', 'insert-unconditional:%s' % ('te' if te and bb == te[0] else 'ct'), site(b, bb), 'every feasible path to the return passes the insert')
        # path placement: both arms write parts.path_and_query from `path`
        wr = [(bb, i, st) for bb, i, st in mirlib.assignments(b, lambda st: mirlib.place_fields(st['p'])[-1:] == ['path_and_query'])]
        path_n = param_of_type(b, r'PathAndQuery$')
        is_path = lambda x: isinstance(x, tuple) and x and x[0] == 'arg' and x[1] == path_n
        alts = []
        for bb, i, st in wr:
            v = mirlib.simplify(b._origin_def(('stmt', bb, i, st['rv']), 0, set()))
            v = strip_refs(v)
            if v[0] == 'agg' and v[1].get('variant') == 'Some':
                v = strip_refs(v[2][0])
            for a_ in (v[1] if v[0] == 'phi' else [v]):
                alts.append((bb, i, strip_refs(a_)))
        R.check(len(alts) == 2, 'C03.R1', 'path-two-arms', site(b), 'values parts.path_and_query can take: %d (the method path, or the origin prefix + method path)' % len(alts))
        napp = nplain = 0
        for bb, i, v in alts:
            R.check(term_contains(v, is_path), 'C03.R1', 'path-from-method-path', site(b, bb, i), 'path_and_query = %s' % show(v)[:140])
            tpl, fargs = fmt_of(b, v)
            if tpl is not None:
                # the appended arm (origin with a path prefix): "{origin path}{method path}" — the origin's *path*, not path+query
                napp += 1
                R.eq(tpl, ['{}', '{}'], 'C03.R1', 'path-append-template', site(b, bb, i), 'template of the prefixed method path')
                ok0 = len(fargs) == 2 and is_call(strip_refs(fargs[0]), name='path') and 'PathAndQuery' in strip_refs(fargs[0])[1]
                ok1 = len(fargs) == 2 and term_contains(fargs[1], is_path)
                R.check(ok0 and ok1, 'C03.R1', 'path-append-args', site(b, bb, i), 'pieces = [origin.path() (not as_str(): that includes the query), method path]: %s' % [show(x)[:60] for x in fargs])
            elif is_path(v):
                nplain += 1
                R.ok('C03.R1', 'path-no-query-leak', site(b, bb, i), 'path_and_query = the method path itself')
            else:
                sv = show(v)
                R.check(('as_str' not in sv and 'to_string' not in sv) and not term_contains(v, lambda x: is_call(x, name='as_str') and 'PathAndQuery' in x[1]), 'C03.R1', 'path-no-query-leak', site(b, bb, i), 'path_and_query = %s' % sv[:120])
        R.check(napp <= 1, 'C03.R1', 'path-append-arms', site(b), 'arms that prefix the origin path: %d' % napp)
        if napp == 0:
            # hand-written join: the origin part must come from PathAndQuery::path
            used = [t_['name'] for bb_, t_ in b.calls() if 'PathAndQuery' in (t_.get('fn') or '') and t_.get('name') in ('as_str', 'path', 'query')]
            R.check('as_str' not in used and 'path' in used, 'C03.R1', 'path-append-args', site(b), 'PathAndQuery accessors used when joining the origin prefix: %r (as_str() would carry the origin query into the path)' % used)
        rets = mirlib.returned_terms(b)
        R.check(all(is_call(strip_refs(t), name='into_http') for bb, t in rets) and rets, 'C03.R1', 'returns-that-request', site(b), 'returned value = %s' % [show(t)[:60] for bb, t in rets])
        # Request::into_http installs what it was given
        rh = tonic.body('request::Request::<T>::into_http')
        R.saw(rh)
        # each of version / method / uri: the parameter of that type is what ends up in the request head — through the setter
        # (*request.uri_mut() = uri) or by filling in http::request::Parts (head.uri = uri; Request::from_parts(head, body))
        for fld, ty in (('version', r'(^|::)Version$'), ('method', r'(^|::)Method$'), ('uri', r'(^|::)Uri$')):
            loc_ = loc_of_type(tonic, rh, ty)   # a parameter of that type, or that field of a request-line struct parameter
            okv = False
            how = None
            for bb, t in rh.calls(name=fld + '_mut'):
                for wb, i, st in mirlib.assignments(rh, lambda st: st['p'].get('pr') == ['*'] and st['p']['l'] == t['dest']['l']):
                    v = strip_refs(rh._origin_def(('stmt', wb, i, st['rv']), 0, set()))
                    okv = loc_of(v) == loc_
                    how = '*request.%s_mut() = %s' % (fld, show(v))
            for wb, i, st in mirlib.assignments(rh, lambda st: mirlib.place_fields(st['p'])[-1:] == [fld]):
                tyl = rh.ty(st['p']['l'])
                if 'Parts' in tyl and 'request' in tyl:
                    v = strip_refs(rh._origin_def(('stmt', wb, i, st['rv']), 0, set()))
                    fp = rh.calls(pat='http::Request', name='from_parts')
                    okv = loc_of(v) == loc_ and len(fp) == 1 and mirlib.root_local(rh, fp[0][1]['args'][0]) == st['p']['l'] and fp[0][1]['dest']['l'] == 0
                    how = 'parts.%s = %s; Request::from_parts(parts, ..)' % (fld, show(v))
            R.check(okv, 'C03.R1', 'Request::into_http:%s' % fld, site(rh), 'the %s parameter is installed in the request: %s' % (fld, how))
        nw = rh.calls(pat='http::Request', name='new')
        fp = rh.calls(pat='http::Request', name='from_parts')
        body_src = [rh.origin(t_['args'][0]) for bb_, t_ in nw] + [rh.origin(t_['args'][1]) for bb_, t_ in fp]
        okb = [x for x in body_src if field_names(x)[-1:] == ['message'] and arg_root(strip_refs(x)) == 1]
        R.check(len(okb) == 1 and len(nw) + len(fp) <= 2, 'C03.R1', 'Request::into_http:body', site(rh), 'the http request carries self.message as its body (Request::new(self.message) or from_parts(head, self.message)): %r' % [show(x)[:60] for x in body_src])

    # ---------------------------------------------------------------- R2 responses
    R.describe('C03.R2', 'responses: map_response and Status::into_http insert content-type: application/grpc; nothing in tonic overrides the HTTP status of a gRPC response (http::Response::new => 200)')
    with R.guard('C03.R2'):
        for path in ('server::grpc::Grpc::<T>::map_response', 'status::Status::into_http'):
            b = tonic.body(path)
            R.saw(b)
            ins = [(bb, t) for bb, t in b.calls(pat='HeaderMap', name='insert') if (constdef(b.origin(t['args'][1])) or '').endswith('CONTENT_TYPE')]
            R.check(len(ins) == 1 and (constdef(b.origin(ins[0][1]['args'][2])) or '').endswith('GRPC_CONTENT_TYPE'), 'C03.R2', 'content-type:%s' % path.split('::')[-1], site(b), 'content-type insert sites: %d' % len(ins))
            if ins:
                okr = [rb for rb in b.return_blocks()]
                # on the path that builds a response (not the early error return of map_response, which goes through Status::into_http)
                R.check(any(b.dominates(ins[0][0], rb) for rb in okr) or bool(b.calls(name='from_parts')), 'C03.R2', 'content-type-on-response-path:%s' % path.split('::')[-1], site(b, ins[0][0]), 'insert precedes building the response')
        si = tonic.body('status::Status::into_http')
        nw = si.calls(pat='http::Response', name='new')
        R.check(len(nw) == 1 and is_call(si.origin(nw[0][1]['args'][0]), name='default'), 'C03.R2', 'trailers-only-empty-body', site(si), 'Status::into_http body = B::default()')
        ah = si.calls(name='add_header')
        R.check(len(ah) == 1, 'C03.R2', 'trailers-only-status-in-headers', site(si), 'add_header sites: %d' % len(ah))
        # who-may-call: status_mut / Builder::status inside tonic (zero expected)
        offenders = []
        for bd in tonic.bodies:
            if bd.kind == 'promoted':
                continue
            for bb, t in bd.calls():
                if t.get('name') in ('status_mut',) or (t.get('name') == 'status' and 'Builder' in (t.get('fn') or '')):
                    offenders.append('%s (%s)' % (short(bd.path), bd.loc(bb)))
        R.check(not offenders, 'C03.R2', 'no-status-override', '', 'call sites of http status_mut / Builder::status in tonic: %r' % offenders)
        # positive control: the same query must find tonic-web's Case::immediate (a crate that legitimately sets a status)
        web = R.crate('tonic_web')
        ctrl = [bd.path for bd in web.bodies for bb, t in bd.calls() if t.get('name') in ('status_mut',) or (t.get('name') == 'status' and 'Builder' in (t.get('fn') or ''))]
        R.check(bool(ctrl), 'C03.R2', 'no-status-override:positive-control', '', 'the who-may-call query matches %d site(s) in tonic-web (must be > 0 to be meaningful)' % len(ctrl))
        rs = tonic.body('response::Response::<T>::into_http')
        R.saw(rs)
        R.check(len(rs.calls(pat='http::Response', name='new')) == 1 and len(rs.calls(name='into_sanitized_headers')) == 1, 'C03.R2', 'Response::into_http', site(rs), 'http::Response::new + into_sanitized_headers')

    # ---------------------------------------------------------------- R6 the response to a path nobody serves is a gRPC response too
    R.describe('C03.R6', 'a call to a path no service is mounted at is answered by the router itself with status 200, content-type application/grpc and grpc-status (Status::unimplemented("").into_http()): every Routes value carries that fallback (C10.R1 instances re-evaluated under this id) - without it axum answers a bare HTTP 404 with no grpc-status')
    with R.guard('C03.R6'):
        import C10
        C10.check_routes_fallback(R, tonic, 'C03.R6')

    # ---------------------------------------------------------------- R3 prefix (shared with C01)
    R.describe('C03.R3', 'length-prefixed message layout: flag byte = is_some(encoding) as u8 (so 0 or 1), big-endian 4-byte length of the payload (C01.R1 instances re-evaluated under this id)')
    with R.guard('C03.R3'):
        fe = tonic.body('codec::encode::finish_encoding')
        pw = prefix_layout(fe)
        R.eq([(d['off'], d['width'], d['endian']) for d in pw], [(0, 1, 'be'), (1, 4, 'be')], 'C03.R3', 'prefix-writes', site(fe), 'prefix writes as (offset, width, byte order)')
        if len(pw) == 2:
            flag = bool_source(pw[0]['value'])
            R.check(flag is not None and (is_call(flag, name='is_some') or loc_of(flag) in locs_of_type(tonic, fe, r'^bool$')), 'C03.R3', 'flag-is-bool-cast', site(fe, pw[0]['bb']), 'flag = %s (made from a bool: 0 or 1)' % show(pw[0]['value'])[:100])
            ln = payload_len_source(pw[1]['value'])
            R.check(is_payload_len(ln, param_of_type(fe, r'^&mut \[u8\]$'), W['header_size']), 'C03.R3', 'length=payload', site(fe, pw[1]['bb']), 'length = %s' % show(ln)[:100])

    with R.guard('C03.R3', 'whole-frames'):
        # what goes out as a DATA frame is everything encoded so far (whole length-prefixed messages), never a part of the buffer
        pn_ = tonic.body(re.compile(r'codec::encode::EncodedBytes<T, U> as .*Stream>::poll_next$'))
        takes_ = whole_buffer_takes(pn_)
        for bb_, t_, ok_ in takes_:
            R.check(ok_, 'C03.R3', 'data-frame=whole-buffer', site(pn_, bb_), 'the bytes handed out are the whole batch buffer (split_to(len) / split()): %r — a partial take (split_off, split_to(n)) puts a torn message on the wire' % ok_)
        R.floor('C03.R3', 'buffer takes in poll_next', len(takes_), 1)
        # .. and only whole messages are in that buffer: a failed encode (limit, codec error, compressor) is cut off first
        check_partial_frame_cut(R, tonic, 'C03.R3')

    # ---------------------------------------------------------------- R4 announced encoding
    R.describe('C03.R4', 'the encoding announced in grpc-encoding is the one handed to the encoder, whose flag is is_some(effective encoding); tokens/codecs per spec table')
    with R.guard('C03.R4'):
        C01.run_codec_tables(R, tonic, tag='@C03', rule='C03.R4')
        pn = tonic.body(re.compile(r'codec::encode::EncodedBytes<T, U> as .*Stream>::poll_next$'))
        bb, t = pn.call1(name='encode_item')
        ei_ = tonic.body('codec::encode::encode_item')
        via_ = loc_through_call(pn, t, loc_of_type(tonic, ei_, enc_opt_pat(tonic)))
        enc_t = via_[1] if via_ and via_[0] == 'term' else (None if not via_ else ('arg', via_[1][0], None) if not via_[1][1] else ('field', ('arg', via_[1][0], None), via_[1][1][-1]))
        R.check(enc_t is not None and enc_field(tonic, 'codec::encode::EncodedBytes') in show(enc_t), 'C03.R4', 'effective-encoding-to-encode_item', site(pn, bb), 'encoding = %s' % (show(enc_t) if enc_t else None))
        ei = tonic.body('codec::encode::encode_item')
        enc_loc = loc_of_type(tonic, ei, enc_opt_pat(tonic))
        sw = [x for x in sorted(ei.live_blocks()) if ei.term(x)['k'] == 'switch' and ei.origin(ei.term(x)['on'])[0] == 'discr' and is_loc(ei.origin(ei.term(x)['on'])[1], enc_loc)]
        R.check(len(sw) == 1, 'C03.R4', 'compress-iff-encoding', site(ei), 'switch on compression_encoding: %d' % len(sw))
        if sw:
            cb, ct = ei.call1(pat='compression::compress')
            R.check(any(s == sw[0] and vals == [1] for s, vals, tm in ei.edge_guards(cb)), 'C03.R4', 'compress-on-some', site(ei, cb), 'compress only on Some(encoding)')
            # flag 1 <=> compressed: on the Some arm every path to finish_encoding passes through compress
            fb_, ft_ = ei.call1(name='finish_encoding')
            some_t = [t_ for t_, vals in ei.switch_edges(sw[0]).items() if vals == [1]]
            okp = bool(some_t) and fb_ not in ei.reachable(some_t[0], removed={cb})
            R.check(okp, 'C03.R4', 'compress-on-every-path-of-the-some-arm', site(ei, cb),
                    'with an encoding negotiated (flag 1) finish_encoding is reached only through compress(): %r (e.g. skipping compress for an empty message yields frame 01 00 00 00 00, which is not a valid compressed stream)' % okp)
            none_t = [t_ for t_, vals in ei.switch_edges(sw[0]).items() if vals != [1]]
            okn = all(cb not in ei.reachable(t_, removed={sw[0]}) for t_ in none_t)
            R.check(okn, 'C03.R4', 'no-compress-on-none-arm', site(ei, cb), 'without an encoding (flag 0) compress() is unreachable: %r' % okn)
            st = strip_refs(ei.origin(ct['args'][0]))
            okenc = st[0] == 'agg' and term_contains(st[2][0], lambda x: x and x[0] == 'variant' and x[2] == 'Some') and mentions_loc(st[2][0], enc_loc)
            if st[0] != 'agg':
                # the parameter already is Option<settings>: compress gets the Some payload itself
                okenc = term_contains(st, lambda x: x and x[0] == 'variant' and x[2] == 'Some') and mentions_loc(st, enc_loc) and not find_terms(st, lambda x: is_call(x))
            R.check(okenc, 'C03.R4', 'compress-with-that-encoding', site(ei, cb), 'settings.encoding = %s' % show(st[2][0] if st[0] == 'agg' else st))

    if R.tier == 'thorough':
        with R.guard('C03.R4', 'matrix'):
            for name, cfg, cr in R.matrix():
                if name.startswith('m_comp_'):
                    R.cur_cfg = name
                    C01.run_codec_tables(R, cr, tag='@C03@' + name, rule='C03.R4')
            R.cur_cfg = 'full'

    # ---------------------------------------------------------------- R5 exactly one grpc-status / trailers typestate
    R.describe('C03.R5', 'EncodeBody: once the end-of-stream flag is set no further frame is produced; trailers are built only in the server role and set the flag first; the client role never produces trailers')
    with R.guard('C03.R5'):
        pf, rows = encode_body_rows(tonic)
        R.saw(pf)

        def flag_place(p):
            return mirlib.place_fields(p)[-1:] == ['is_end_stream']
        # poll_frame entered with the flag already set: nothing but None may come out and the source is not polled
        prod = 0
        for r in rows:
            st = site(pf, r['path'][-1])
            if r['ended'] is True:
                prod += 1
                R.check(r['kind'] in ('none', 'pending') and not r['polled'], 'C03.R5', 'after-end:%s' % r['kind'], st,
                        'with is_end_stream already true, poll_frame produces %r (source polled: %r) — a frame after the trailers if the body is polled to exhaustion, '
                        'e.g. source yields Err(status) then further Ok items' % (r['kind'], r['polled']))
            elif r['ended'] is None:
                R.check(r['kind'] in ('none', 'pending') and not r['polled'], 'C03.R5', 'after-end:flag-not-consulted', st, 'a path to %r does not test is_end_stream first' % r['kind'])
        R.floor('C03.R5', 'return-slot writers reachable after end', prod, 1)
        ntr = 0
        for r in rows:
            st = site(pf, r['path'][-1])
            if r['kind'] == 'trailers' and r['res'] == 'Err':
                ntr += 1
                R.check(r['sets_end'] == [True], 'C03.R5', 'trailers-sets-end-first', st, 'is_end_stream := true on the path that builds the trailers frame: %r' % r['sets_end'])
                R.check(r['role'] == 'Server', 'C03.R5', 'trailers-server-only', st, 'role on that path: %r' % r['role'])
                okt = term_contains(r['value'], lambda x: is_call(x, name='to_header_map') and term_contains(x, lambda y: y and y[0] == 'variant' and y[2] == 'Err'))
                R.check(okt, 'C03.R5', 'trailers-carry-that-status', st, 'trailers built by to_header_map of the Err payload: %r' % okt)
            if r['role'] == 'Client':
                R.check(r['kind'] not in ('trailers', 'state-trailers') or r['kind'] == 'state-trailers', 'C03.R5', 'client-never-trailers', st, 'client role outcome %s' % r['kind'])
        R.floor('C03.R5', 'error-trailers sites in poll_frame', ntr, 1)
        # EncodeState::trailers decision table (by feasible path); read off poll_frame itself when the method was folded into it
        check_end_of_source(R, 'C03.R5', tonic, pf, rows)
        # is_end_stream() reports the flag
        ie = tonic.body(re.compile(r'codec::encode::EncodeBody<T, U> as http_body::Body>::is_end_stream$'))
        rt = mirlib.returned_terms(ie)
        R.check(len(rt) == 1 and field_names(rt[0][1])[-1:] == ['is_end_stream'], 'C03.R5', 'is_end_stream()', site(ie), 'returns %s' % show(rt[0][1]))
        # constructors: client role / server role, flag false
        for ctor, role in (('new_client', 'Client'), ('new_server', 'Server')):
            cb = tonic.body('codec::encode::EncodeBody::<T, U>::' + ctor)
            ag = mirlib.aggregates(cb, 'encode::EncodeState')
            okc = False
            for bb, i, p, a, ops in ag:
                f = a['fields']
                rl = strip_refs(cb.origin(ops[f.index('role')]))
                fl = const_val(cb.origin(ops[f.index('is_end_stream')]))
                okc = rl[0] == 'agg' and rl[1].get('variant') == role and fl is False
            R.check(okc, 'C03.R5', 'ctor:%s' % ctor, site(cb), 'EncodeState{role: %s, is_end_stream: false}' % role)
        # grpc-status inserted exactly once per header map: C04.R4 covers add_header; here: to_header_map -> add_header
        th = tonic.body('status::Status::to_header_map')
        R.check(len(writer_entry_blocks(tonic, th)) == 1, 'C03.R5', 'to_header_map->add_header', site(th), 'to_header_map builds the map with add_header')
