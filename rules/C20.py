"""C20 — rich error details round-trip through a status (structural clauses)."""
import re
from common import *
import mirlib
from C01 import arm_regions

META = {
    'explanation': 'Ten detail kinds x six tables (set encoder, list encoder, set decoder, list decoder, per-kind getter, TYPE_URL) are '
                   'extracted from MIR and must agree row by row with spec/error_details.json and with each other; Any packing and '
                   'unpacking use the same message type and URL; every From pair between the public structs and the generated prost '
                   'messages initialises each target field from the same-named source field; the embedded google.rpc.Status gets the '
                   'outer code and message; decoders propagate errors as values and have no reachable panic site.',
    'exhaustive': True,
    'assumptions': ['prost encodes/decodes the google.rpc messages faithfully'],
}


def kind_of(s):
    """last path segment naming a detail kind in a type/path string"""
    m = re.findall(r'::(\w+)(?:>|$| as)', s or '')
    return m[0] if m else None


def self_kind(t):
    st = t.get('self_ty') or ''
    return st.rsplit('::', 1)[-1] if st else kind_of(t.get('fn') or '')


def run(R):
    ty = R.crate('tonic_types')
    sp = spec('error_details')
    kinds = [k for k, f in sp['kinds']]
    field_of = {k: f for k, f in sp['kinds']}

    # ---------------------------------------------------------------- R1 kind tables
    R.describe('C20.R1', '10 kinds x {set-encoder, list-encoder, set-decoder, list-decoder, getter, TYPE_URL, From<T> for ErrorDetail}: present for every kind, consistent within a row, URLs = spec and pairwise distinct, set-encoder order = declaration order')
    with R.guard('C20.R1'):
        urls = {}
        for k in kinds:
            cs = [v for p, v in ty.consts.items() if p.endswith('::%s::TYPE_URL' % k)]
            R.check(len(cs) == 1 and cs[0].get('v') == sp['url_prefix'] + k, 'C20.R1', 'url:%s' % k, 'tonic-types/src/richer_error/std_messages', '%s::TYPE_URL = %r (spec %r)' % (k, cs[0].get('v') if cs else None, sp['url_prefix'] + k))
            if cs:
                urls[cs[0].get('v')] = k
        R.eq(len(urls), 10, 'C20.R1', 'urls-distinct', '', 'distinct TYPE_URL values')
        # (a) set encoder
        se = ty.body(re.compile(r'<tonic::Status as richer_error::StatusExt>::with_error_details_and_metadata$'))
        R.saw(se)
        seq = []
        for bb in sorted(se.live_blocks(), key=lambda x: (len(se.dominators().get(x, ())), x)):
            t = se.term(bb)
            if t['k'] == 'call' and t.get('name') == 'into_any':
                src = se.origin(t['args'][0])
                fld = [n for n in field_names(src) if n in field_of.values()]
                g = se.edge_guards(bb)
                guarded = any(tm[0] == 'discr' and fld and fld[-1] in show(tm) and vals == [1] for s, vals, tm in g)
                pushed = any(is_call(se.origin(pt['args'][1]), name='into_any') and se.origin(pt['args'][1])[4] is t for pb, pt in se.calls(name='push'))
                seq.append((self_kind(t), fld[-1] if fld else None, guarded, pushed, bb))
        if not seq:
            # the same table as data: [details.retry_info.map(IntoAny::into_any), ..].into_iter().flatten().collect() — the kind packed
            # is the field's own type (into_any is resolved by that type), None entries are skipped by flatten, order = array order
            edt = {f_['n']: f_['ty'] for f_ in ty.adt('error_details::ErrorDetails')['variants'][0]['fields']}
            fam_se = family(ty, se)
            for m_ in fam_se:
                for bb_, i_, p_, a_, ops_ in mirlib.aggregates(m_):
                    if a_.get('kind') != 'array' or len(ops_) != len(kinds):
                        continue
                    ents = [strip_refs(mirlib.simplify(m_.origin(o_))) for o_ in ops_]
                    if not all(is_call(e_, name='map') and 'Option' in e_[1] and has_fn(e_[2][1], 'into_any') for e_ in ents):
                        continue
                    flat_ = any(t_.get('name') == 'flatten' for bb2_, t_ in m_.calls()) and any(t_.get('name') == 'collect' for bb2_, t_ in m_.calls())
                    for e_ in ents:
                        fl_ = [n_ for n_ in field_names(e_[2][0]) if n_ in field_of.values()]
                        kty_ = re.sub(r'^.*Option<(.*)>$', r'\1', edt.get(fl_[-1], '')).rsplit('::', 1)[-1] if fl_ else None
                        seq.append((kty_, fl_[-1] if fl_ else None, flat_, flat_, bb_))
        if not seq:
            # .. or one `list.extend(details.<field>.map(IntoAny::into_any))` per kind, in program order: extend with an Option appends
            # its value or nothing (std: Option is IntoIterator)
            edt = {f_['n']: f_['ty'] for f_ in ty.adt('error_details::ErrorDetails')['variants'][0]['fields']}
            for bb in sorted(se.live_blocks(), key=lambda x: (len(se.dominators().get(x, ())), x)):
                t = se.term(bb)
                if t['k'] == 'call' and t.get('name') == 'extend' and len(t['args']) == 2:
                    e_ = strip_refs(mirlib.simplify(se.origin(t['args'][1])))
                    if is_call(e_, name='map') and 'Option' in e_[1] and has_fn(e_[2][1], 'into_any'):
                        fl_ = [n_ for n_ in field_names(e_[2][0]) if n_ in field_of.values()]
                        kty_ = re.sub(r'^.*Option<(.*)>$', r'\1', edt.get(fl_[-1], '')).rsplit('::', 1)[-1] if fl_ else None
                        seq.append((kty_, fl_[-1] if fl_ else None, True, True, bb))
        R.eq([k for k, f, g, p, bb in seq], kinds, 'C20.R1', 'set-encoder:order', site(se), 'kinds pushed by the set encoder, in order')
        for k, f, g, p, bb in seq:
            R.check(f == field_of.get(k) and g and p, 'C20.R1', 'set-encoder:%s' % k, site(se, bb), '%s::into_any(details.%s) guarded by Some: %r, pushed: %r (spec field %s)' % (k, f, g, p, field_of.get(k)))
        # (b) list encoder
        ve = ty.body(re.compile(r'<tonic::Status as richer_error::StatusExt>::with_error_details_vec_and_metadata$'))
        R.saw(ve)
        def ed_switches(b_):
            return [bb for bb in sorted(b_.live_blocks()) if b_.term(bb)['k'] == 'switch' and (lambda o: o[0] == 'discr' and (o[3] or '').endswith('ErrorDetail'))(b_.origin(b_.term(bb)['on']))]
        sws = ed_switches(ve)
        if not sws:
            # the per-variant packing may sit in a closure of the encoder or in an `impl IntoAny for ErrorDetail` it maps over
            cands = [b_ for b_ in family(ty, ve)[1:] if ed_switches(b_)]
            cands += [b_ for b_ in ty.bodies if b_.kind == 'fn' and re.search(r'ErrorDetail as (richer_error::)?IntoAny>::into_any$', b_.path) and ed_switches(b_)]
            uses = any(t_.get('name') == 'into_any' or any(isinstance(a_, dict) and a_.get('k', {}).get('fn', '').endswith('into_any') for a_ in t_['args']) for m_ in family(ty, ve) for bb_, t_ in m_.calls())
            if len(cands) == 1 and uses:
                ve = cands[0]
                R.saw(ve)
                sws = ed_switches(ve)
        if len(sws) != 1:
            raise CheckError('UNRECOGNISED: %d switches on ErrorDetail in the list encoder' % len(sws))
        o = ve.origin(ve.term(sws[0])['on'])
        vn = {v: n for v, n in o[2]}
        regs = arm_regions(ve, sws[0])
        got = {}
        for v, blocks in regs.items():
            if v == 'else':
                continue
            ia = [ve.term(x) for x in blocks if ve.term(x)['k'] == 'call' and ve.term(x).get('name') == 'into_any']
            got[vn.get(v)] = [self_kind(t) for t in ia]
        for k in kinds:
            R.eq(got.get(k), [k], 'C20.R1', 'list-encoder:%s' % k, site(ve, sws[0]), 'ErrorDetail::%s is packed with' % k)
        R.eq(sorted(x for x in got if x), sorted(kinds), 'C20.R1', 'list-encoder:variants', site(ve), 'ErrorDetail variants handled')
        # (c)/(d) decoders
        for nm, label in (('check_error_details', 'set-decoder'), ('check_error_details_vec', 'list-decoder')):
            dc = ty.body(re.compile(r'<generated::google_rpc::Status as richer_error::RpcStatusExt>::%s$' % nm))
            R.saw(dc)
            rows = [r for r in mirlib.str_eq_chain(dc) if isinstance(r['value'], str)]
            seen = {}
            if not rows:
                # the table as data: DECODERS.iter().find(|(url, _)| *url == any.type_url).map(|(_, decode)| decode(any)) with entries
                # (K::TYPE_URL, decode_as::<K>); what is decoded is then put away by kind (a match on the ErrorDetail variant)
                tl = None
                for bb_, t_ in dc.calls(name='map') + dc.calls(name='and_then'):
                    if 'Option' in (t_.get('fn') or ''):
                        tl = tl or table_lookup(ty, dc.origin({'cp': {'l': t_['dest']['l']}}))
                if tl is not None and tl['kind'] == 'find' and tl['value'] is not None:
                    R.check(mentions_field(resolve_env(ty, dc, tl['probe']), 'type_url') or term_contains(tl['probe'], lambda y: y and y[0] == 'field' and y[1] in (('env',), ('deref', ('env',)))), 'C20.R1', '%s:table:matches-type_url' % label, site(dc), 'the table is searched for the entry\'s type_url')
                    for e_ in tl['entries']:
                        url_ = const_value(ty, tl['key'](e_))
                        k = urls.get(url_)
                        fv_ = strip_refs(tl['value'](e_))
                        if fv_ and fv_[0] == 'agg' and fv_[1].get('kind') == 'tuple':
                            # the projection calls the entry's function (`decode(any)`): the function is the entry's fn-typed element
                            fns_ = [strip_refs(x_) for x_ in fv_[2] if find_terms(x_, lambda y: isinstance(y, tuple) and y and y[0] == 'fnitem')]
                            fv_ = fns_[0] if len(fns_) == 1 else fv_
                        while fv_ and fv_[0] == 'cast' and len(fv_) > 2:
                            fv_ = strip_refs(fv_[2])
                        ga_ = [g_.rsplit('::', 1)[-1] for g_ in ((fv_[2].get('ga') if fv_ and fv_[0] == 'fnitem' and isinstance(fv_[2], dict) else None) or [])]
                        fnb_ = [x for x in ty.bodies if fv_ and fv_[0] == 'fnitem' and x.kind == 'fn' and x.path == re.sub(r'::<[^:]*>$', '', fv_[1])]
                        generic_ok = bool(fnb_) and [self_kind(t2_) for bb2_, t2_ in fnb_[0].calls(name='from_any_ref')] != [] and all(re.match(r'^[A-Z]\w?$', self_kind(t2_) or '') for bb2_, t2_ in fnb_[0].calls(name='from_any_ref'))
                        sk = ga_ if (generic_ok and len(ga_) == 1) else ['?']
                        seen[k] = sk
                        R.check(k is not None and sk == [k], 'C20.R1', '%s:%s' % (label, k or url_), site(dc), 'URL %r is decoded as %r (table entry)' % (url_, sk))
                    # where each decoded kind goes
                    for sw_ in [bb_ for bb_ in sorted(dc.live_blocks()) if dc.term(bb_)['k'] == 'switch' and (lambda o: o[0] == 'discr' and (o[3] or '').endswith('ErrorDetail'))(dc.origin(dc.term(bb_)['on']))][:1]:
                        o_ = dc.origin(dc.term(sw_)['on'])
                        names_ = dict(o_[2]) if len(o_) > 2 and o_[2] else {}
                        edges_ = dc.switch_edges(sw_)
                        for tgt_, vals_ in edges_.items():
                            if len(vals_) != 1 or vals_[0] not in names_:
                                continue
                            k = names_[vals_[0]]
                            reg_ = dc.reachable(tgt_, removed={sw_}) - set().union(*[dc.reachable(t2_, removed={sw_}) for t2_ in edges_ if t2_ != tgt_])
                            if label == 'set-decoder' and k in field_of:
                                wr = [st for x in reg_ for st in dc.blocks[x]['stmts'] if 'p' in st and mirlib.place_fields(st['p'])[-1:] == [field_of[k]]]
                                R.check(len(wr) == 1, 'C20.R1', 'set-decoder:%s:field' % k, site(dc, sw_), 'decoded %s stored in details.%s: %d assignment(s)' % (k, field_of[k], len(wr)))
                    if label == 'list-decoder':
                        ps = [t_ for bb_, t_ in dc.calls(name='push')]
                        R.check(len(ps) == 1 and term_contains(dc.origin(ps[0]['args'][1]), lambda x: is_call(x, name='find')), 'C20.R1', 'list-decoder:table:pushed', site(dc), 'what the table entry decoded is pushed to the list')
            for r in rows:
                k = urls.get(r['value'])
                tregion = dc.reachable(r['true'], removed={r['switch']}) - dc.reachable(r['false'], removed={r['switch']})
                fa = [dc.term(x) for x in tregion if dc.term(x)['k'] == 'call' and dc.term(x).get('name') == 'from_any_ref']
                sk = [self_kind(t) for t in fa]
                seen[k] = sk
                R.check(k is not None and sk == [k], 'C20.R1', '%s:%s' % (label, k or r['value']), site(dc, r['bb']), 'URL %r is decoded as %r' % (r['value'], sk))
                R.check('type_url' in show(r['lhs']), 'C20.R1', '%s:%s:matches-type_url' % (label, k), site(dc, r['bb']), 'compared string = %s' % show(r['lhs'])[:60])
                if label == 'set-decoder' and k:
                    wr = [st for x in tregion for st in dc.blocks[x]['stmts'] if 'p' in st and mirlib.place_fields(st['p'])[-1:] == [field_of[k]]]
                    R.check(len(wr) == 1, 'C20.R1', 'set-decoder:%s:field' % k, site(dc, r['bb']), 'decoded %s stored in details.%s: %d assignment(s)' % (k, field_of[k], len(wr)))
                if label == 'list-decoder' and k:
                    ps = [dc.term(x) for x in tregion if dc.term(x)['k'] == 'call' and dc.term(x).get('name') == 'push']
                    okp = len(ps) == 1 and term_contains(dc.origin(ps[0]['args'][1]), lambda x: is_call(x, name='from_any_ref'))
                    if not ps:
                        # one push shared by all kinds, after the per-kind decoding (`if let Some(d) = decode_known(any)? { v.push(d) }`):
                        # what this kind decoded is among what is pushed, and once it decoded the loop cannot go on without the push
                        # (feasible paths: the Some built on this arm decides the later `if let`)
                        allp = dc.calls(name='push')
                        fbs = [x for x in tregion if dc.term(x)['k'] == 'call' and dc.term(x).get('name') == 'from_any_ref']
                        nxt = [bb_ for bb_, t_ in dc.calls(name='next') if 'Iterator' in (t_.get('fn') or '')]
                        if len(allp) == 1 and len(fbs) == 1 and nxt:
                            pb_ = allp[0][0]
                            mine = lambda x: is_call(x, name='from_any_ref') and x[4].get('t') == dc.term(fbs[0]).get('t')
                            feas = dc.reach_ps(fbs[0], removed={pb_})
                            okp = term_contains(dc.origin(allp[0][1]['args'][1]), mine) and pb_ in dc.reachable(fbs[0]) and not any(n_ in feas for n_ in nxt)
                    R.check(okp, 'C20.R1', 'list-decoder:%s:pushed' % k, site(dc, r['bb']), 'decoded %s pushed to the list' % k)
            R.eq(sorted(x for x in seen if x), sorted(kinds), 'C20.R1', '%s:kinds' % label, site(dc), 'kinds recognised by the %s' % label)
            # iterates self.details in order
            it = [t for bb, t in dc.calls() if t.get('name') in ('iter', 'into_iter') and t['args'] and mentions_field(dc.origin(t['args'][0]), 'details') and (t['name'] == 'iter' or '&' in str(t.get('self_ty') or t.get('ga') or ''))]
            it = [t for t in it if not const_table(ty, dc.origin(t['args'][0]))]
            R.check(len(it) == 1 and not dc.calls(name='filter') and not dc.calls(name='rev') and not dc.calls(name='skip'), 'C20.R1', '%s:iterates-all-in-order' % label, site(dc), 'iterates self.details.iter() without filtering/reordering')
        def getter_facts(gb):
            # the URL the getter compares type_url with, and the kind it decodes — in the getter itself or in the closures it
            # hands to iterator adaptors (possibly written in a generic helper: T is then the helper's type argument at this call)
            gfam = family(ty, gb)
            gen_arg = {}
            for m_ in gfam:
                for bb_, i_, p_, a_, ops_ in mirlib.aggregates(m_):
                    if a_.get('kind') == 'closure' and a_.get('inl_ga') and a_.get('def'):
                        gen_arg[a_['def']] = [g_.rsplit('::', 1)[-1] for g_ in a_['inl_ga']]
            cmp_urls = [r['value'] for r in mirlib.str_eq_chain(gb) if isinstance(r['value'], str)]
            fa = []
            for m_ in gfam:
                for bb_, t_ in m_.calls(name='from_any_ref'):
                    sk_ = self_kind(t_)
                    if re.match(r'^[A-Z]\w?$', sk_ or '') and (m_.path in gen_arg or t_.get('inl_ga')):
                        ga_ = gen_arg.get(m_.path) or [g_.rsplit('::', 1)[-1] for g_ in t_['inl_ga']]
                        sk_ = ga_[0] if len(ga_) == 1 else sk_
                    fa.append(sk_)
                if m_ is not gb:
                    for bb_, t_ in m_.calls(name='eq') + m_.calls(name='ne'):
                        sides = [m_.origin(a_) for a_ in t_['args']]
                        if any(mentions_field(x_, 'type_url') for x_ in sides):
                            for x_ in sides:
                                v_ = const_value(ty, resolve_env(ty, m_, x_, within=gfam))
                                if v_ is None and len(gen_arg.get(m_.path) or []) == 1:
                                    # `T::URL` of a private trait in a generic helper: the constant of the impl for this getter's T
                                    v_ = trait_const_value(ty, x_, gen_arg[m_.path][0])
                                if isinstance(v_, str):
                                    cmp_urls.append(v_)
            return cmp_urls, fa
        # (e) getters
        for k in kinds:
            gb = ty.body(re.compile(r'<generated::google_rpc::Status as richer_error::RpcStatusExt>::get_details_%s$' % field_of[k]))
            R.saw(gb)
            cmp_urls, fa = getter_facts(gb)
            R.check(len(cmp_urls) == 1 and urls.get(cmp_urls[0]) == k and fa == [k], 'C20.R1', 'getter:%s' % k, site(gb), 'get_details_%s matches %r and decodes %r' % (field_of[k], cmp_urls, fa))
            st = ty.body(re.compile(r'<tonic::Status as richer_error::StatusExt>::get_details_%s$' % field_of[k]))
            inner = [t for bb, t in st.calls(name='get_details_%s' % field_of[k])]
            okst = len(inner) == 1 and len(fam_calls(family(ty, st), name='decode')) == 1
            if not inner:
                # .. or decodes pb::Status and runs the same search itself (through a shared generic helper): same URL, same kind
                cu_, fa_ = getter_facts(st)
                okst = len([1 for m_, bb_, t_ in fam_calls(family(ty, st), name='decode') if 'Status' in str(t_.get('self_ty') or t_.get('fn') or '')]) == 1 and len(cu_) == 1 and urls.get(cu_[0]) == k and fa_ == [k]
            R.check(okst, 'C20.R1', 'status-getter:%s' % k, site(st), 'Status::get_details_%s decodes pb::Status and delegates' % field_of[k])
        # (g) From<T> for ErrorDetail
        for k in kinds:
            fb = [b for b in ty.bodies if re.search(r'<richer_error::error_details::vec::ErrorDetail as std::convert::From<richer_error::std_messages::\w+::%s>>::from$' % k, b.path)]
            okv = len(fb) == 1 and variant_of([w for bb in writers_of(fb[0], 0) for w in block_writes(fb[0], bb, 0)]) == k
            R.check(okv, 'C20.R1', 'from-kind:%s' % k, site(fb[0]) if fb else '', 'From<%s> for ErrorDetail builds ErrorDetail::%s' % (k, k))

    # ---------------------------------------------------------------- R2 Any agreement
    R.describe('C20.R2', 'IntoAny for T: Any{type_url: T::TYPE_URL, value: pb::T::encode_to_vec}; FromAnyRef for T decodes the same pb::T from any.value')
    with R.guard('C20.R2'):
        for k in kinds:
            ia = ty.body(re.compile(r'::%s as richer_error::IntoAny>::into_any$' % k))
            fr = ty.body(re.compile(r'::%s as richer_error::FromAnyRef>::from_any_ref$' % k))
            R.saw(ia, fr)
            ag = [x for x in mirlib.aggregates(ia) if (x[3].get('adt') or '').endswith('Any')]
            oka = False
            encty = None
            if len(ag) == 1:
                bb, i, p, a, ops = ag[0]
                f = a['fields']
                tu = ia.origin(ops[f.index('type_url')])
                val = ia.origin(ops[f.index('value')])
                url_ok = term_contains(tu, lambda x: x and x[0] == 'const' and x[1] == sp['url_prefix'] + k) or mentions_constdef(tu, 'TYPE_URL')
                ev = [x for x in find_terms(val, lambda x: is_call(x, name='encode_to_vec'))]
                encty = (ev[0][4].get('self_ty') or '') if ev else None
                oka = url_ok and bool(ev) and term_contains(val, lambda x: x and x[0] == 'arg')
            R.check(oka and encty is not None and encty.endswith('google_rpc::' + k), 'C20.R2', 'into_any:%s' % k, site(ia), 'Any{type_url: %s::TYPE_URL, value: %s::encode_to_vec(self.into())}' % (k, encty))
            dcs = fr.calls(name='decode')
            decty = dcs[0][1].get('self_ty') if dcs else None
            okd = len(dcs) == 1 and (decty or '').endswith('google_rpc::' + k) and mentions_field(fr.origin(dcs[0][1]['args'][0]), 'value')
            R.check(okd and decty == encty, 'C20.R2', 'from_any_ref:%s' % k, site(fr), 'decodes %s from any.value (encoder used %s)' % (decty, encty))
            # `let x = decode(..)?; Ok(x.into())`, or the decoder's own Result mapped: `decode(..).map(Self::from)`
            rt_ = mirlib.returned_terms(fr)
            mapped = len(rt_) == 1 and is_call(strip_refs(rt_[0][1]), name='map') and 'Result' in strip_refs(rt_[0][1])[1] and is_call(strip_refs(strip_refs(rt_[0][1])[2][0]), name='decode')
            R.check((len(fr.calls(name='from_residual')) == 1 or mapped) and not mirlib.panic_sites(fr), 'C20.R2', 'from_any_ref:%s:error-propagated' % k, site(fr), 'DecodeError propagated with ? (or the decoder\'s Result mapped), no panic site')

    # ---------------------------------------------------------------- R3 field agreement of From pairs
    R.describe('C20.R3', 'every From pair between a public detail struct and its generated prost message initialises each target field from the same-named source field')
    with R.guard('C20.R3'):
        n = 0
        for b in ty.bodies:
            if b.kind != 'fn' or 'richer_error::std_messages' not in b.path or '::tests::' in b.path:
                continue
            if not re.search(r'convert::From<.*>(>| for )', b.path) or 'google_rpc' not in b.path:
                continue
            R.saw(b)
            rets = [x for x in mirlib.aggregates(b) if x[2]['l'] == 0 and x[3].get('kind') == 'adt']
            if len(rets) != 1:
                # value built in a temporary then moved
                rets = [x for x in mirlib.aggregates(b) if x[3].get('kind') == 'adt' and x[3].get('fields') and not (x[3].get('adt') or '').startswith('std::') and not (x[3].get('adt') or '').startswith('core::')]
                rets = [x for x in rets if (x[3].get('adt') or '').split('::')[-1] in b.path]
            if len(rets) != 1:
                R.bad('C20.R3', 'shape:%s' % short(b.path)[-60:], site(b), 'cannot find the single target aggregate (%d candidates)' % len(rets), kind='UNRECOGNISED')
                continue
            bb, i, p, a, ops = rets[0]
            for fname, op in zip(a['fields'], ops):
                n += 1
                v = b.origin(op)
                okf = term_contains(v, lambda x: x and x[0] == 'field' and x[2] == fname and term_contains(x, lambda y: y and y[0] == 'arg' and y[1] == 1))
                R.check(okf, 'C20.R3', 'field:%s.%s' % (short(b.path).split('::')[-2][-40:] if '::' in short(b.path) else short(b.path), fname) if False else 'field:%s<-%s.%s' % ((a.get('adt') or '').split('::')[-1] + ('@pb' if 'google_rpc' in (a.get('adt') or '') else ''), 'src', fname), site(b, bb, i),
                        'target field %s of %s is initialised from %s (must derive from the source\'s field %s)' % (fname, a.get('adt'), show(v)[:100], fname))
        R.floor('C20.R3', 'From-pair fields', n, 40)

    # ---------------------------------------------------------------- R3b the one lossy conversion loses only what the wire type cannot hold
    R.describe('C20.R3b', 'RetryInfo -> google.rpc.RetryInfo: the delay is converted by prost_types::Duration::try_from (lossless for every representable duration); only its Err arm substitutes the maximum (315576000000 s, 999999999 ns); None stays None')
    with R.guard('C20.R3b'):
        cb = [b for b in ty.bodies if b.kind == 'fn' and re.search(r'impl std::convert::From<[^>]*std_messages::retry_info::RetryInfo> for generated::google_rpc::RetryInfo>::from$', b.path)]
        if len(cb) != 1:
            raise CheckError('ANCHOR-MISSING: From<RetryInfo> for pb::RetryInfo matched %d bodies' % len(cb))
        b = cb[0]
        R.saw(b)
        def max_pb(t_):
            """is the term the wire maximum Duration{315576000000, 999999999} (literal or a const holding it)"""
            t_ = strip_refs(t_)
            if t_[0] == 'agg':
                return [const_val(x) for x in t_[2]] == [315576000000, 999999999]
            cd = constdef(t_)
            if cd:
                cbs = [x for x in ty.bodies if x.kind == 'const' and x.path == cd]
                if cbs:
                    rt_ = [mirlib.simplify(x) for _, x in mirlib.returned_terms(cbs[0])]
                    return bool(rt_) and all(strip_refs(x)[0] == 'agg' and [const_val(y) for y in strip_refs(x)[2]] == [315576000000, 999999999] for x in rt_)
            return False
        meta = {}
        seen = set()
        # combinator spelling: value.retry_delay.map(|d| prost_types::Duration::try_from(d).unwrap_or(MAX))
        whole = [x for _, rt in mirlib.returned_terms(b) for x in built_parts(mirlib.simplify(rt)) if x[1].get('adt', '').endswith('RetryInfo')]
        fv0 = strip_refs(mirlib.simplify(whole[0][2][whole[0][1]['fields'].index('retry_delay')])) if len(whole) == 1 else ('?',)
        if is_call(fv0, name='map') and mentions_field(fv0[2][0], 'retry_delay') and strip_refs(fv0[2][1])[0] == 'agg' and 'def' in strip_refs(fv0[2][1])[1]:
            cbd = ty.body(re.compile('^' + re.escape(strip_refs(fv0[2][1])[1]['def']) + '$'))
            R.saw(cbd)
            rts = [strip_refs(mirlib.simplify(x)) for _, x in mirlib.returned_terms(cbd)]
            okc = len(rts) == 1 and is_call(rts[0], name='unwrap_or') and is_call(strip_refs(rts[0][2][0]), name='try_from') and 'Duration' in str(strip_refs(rts[0][2][0])[4].get('resolved') or strip_refs(rts[0][2][0])[4].get('fn')) and arg_root(strip_refs(rts[0][2][0])[2][0]) == 2
            R.check(okc, 'C20.R3b', 'representable->try_from', site(cbd), 'Option::map(|d| prost_types::Duration::try_from(d).unwrap_or(..)): %r' % okc)
            R.check(okc and max_pb(rts[0][2][1]), 'C20.R3b', 'too-large->max', site(cbd), 'the fallback is Duration{seconds: 315576000000, nanos: 999999999}')
            R.ok('C20.R3b', 'none->none', site(b), 'Option::map keeps None')
            R.ok('C20.R3b', 'rows', site(b), 'combinator form: None / Ok / Err decided by Option::map and Result::unwrap_or')
            rows_ = []
        else:
            rows_ = mirlib.path_rows(b, meta=meta)
        for cons, path in rows_:
            v = cons_view(cons, meta)
            terms = meta.get('__terms__', {})
            src = view_get(v, lambda k: k.startswith('discr(') and terms.get(k) and mentions_field(terms[k], 'retry_delay') and not term_contains(terms[k], lambda x: is_call(x, name='try_from')))
            conv = view_get(v, lambda k: k.startswith('discr(') and terms.get(k) and term_contains(terms[k], lambda x: is_call(x, name='try_from')))
            val = mirlib.simplify(b.ret_on_path(path))
            parts = [x for x in built_parts(val) if x[1].get('adt', '').endswith('RetryInfo')]
            fv = strip_refs(mirlib.simplify(parts[0][2][parts[0][1]['fields'].index('retry_delay')])) if parts else ('?',)
            st = site(b, path[-1])
            seen.add((src, conv))
            if src == 'None':
                R.check(fv[0] == 'agg' and fv[1].get('variant') == 'None', 'C20.R3b', 'none->none', st, 'no delay -> no delay: %s' % show(fv)[:60])
            elif src == 'Some' and conv == 'Ok':
                inner = strip_refs(fv[2][0]) if fv[0] == 'agg' and fv[1].get('variant') == 'Some' else ('?',)
                okc = term_contains(inner, lambda x: is_call(x, name='try_from') and 'Duration' in str(x[4].get('resolved') or x[4].get('fn')) and mentions_field(x, 'retry_delay')) and inner[0] != 'agg'
                R.check(okc, 'C20.R3b', 'representable->try_from', st, 'a representable delay is the Ok payload of prost_types::Duration::try_from(delay): %s' % show(inner)[:100])
            elif src == 'Some' and conv == 'Err':
                inner = strip_refs(fv[2][0]) if fv[0] == 'agg' and fv[1].get('variant') == 'Some' else ('?',)
                okm = max_pb(inner)
                R.check(okm, 'C20.R3b', 'too-large->max', st, 'an unrepresentable delay becomes Duration{seconds: 315576000000, nanos: 999999999}: %s' % show(inner)[:100])
            else:
                R.bad('C20.R3b', 'conversion-shape', st, 'a path builds retry_delay = %s without going through prost_types::Duration::try_from (source %r, conversion %r): a hand-written range test decides which delays are altered' % (show(fv)[:80], src, conv), kind='UNRECOGNISED')
        if rows_:
            R.check({('None', None), ('Some', 'Ok'), ('Some', 'Err')} <= seen, 'C20.R3b', 'rows', site(b), 'rows seen: %r' % sorted(map(str, seen)))

    # ---------------------------------------------------------------- R6 a status recovered from an error chain keeps its details
    R.describe('C20.R6', 'Status::from_error / try_from_error: the Status found in a source chain is copied with its code, message, details and metadata (Status is not Clone; only `source` is left behind)')
    with R.guard('C20.R6'):
        check_recovered_status(R, R.crate('tonic'), 'C20.R6', ('code', 'message', 'details', 'metadata'))

    # ---------------------------------------------------------------- R7 the details header is written, once, and wins
    R.describe('C20.R7', 'Status::add_header writes grpc-status-details-bin whenever details are attached (no early return for a message-less status) and after the user metadata (a forwarded grpc-status-details-bin entry cannot overwrite the attached details)')
    with R.guard('C20.R7'):
        import C04
        C04.check_status_writer(R, R.crate('tonic'), 'C20.R7')

    # ---------------------------------------------------------------- R4 inner status = outer status
    R.describe('C20.R4', 'the embedded google.rpc.Status is built from the same code and message as the outer tonic::Status, always (also with no details attached)')
    with R.guard('C20.R4'):
        gdb = ty.body('richer_error::gen_details_bytes')
        # the shared tail may have moved into the helper as a whole: the helper then builds the outer status itself
        # (`fn status_with_packed_details(code, message, details, metadata) -> Status`); the constructors hand over and return
        tail_in_helper = len(gdb.calls(name='with_details_and_metadata')) >= 1
        MSG_T = r"^(&('\w+ )?str|(\w+::)*String)$"
        WRAP = {'deref', 'as_str', 'as_ref', 'borrow', 'clone', 'to_owned', 'to_string'}
        for nm in ('with_error_details_and_metadata', 'with_error_details_vec_and_metadata'):
            b = ty.body(re.compile(r'<tonic::Status as richer_error::StatusExt>::%s$' % nm))
            gd = b.calls(name='gen_details_bytes')
            wd = b.calls(name='with_details_and_metadata')
            if tail_in_helper:
                R.check(len(gd) == 1 and not wd, 'C20.R4', '%s:sites' % nm, site(b), 'calls of the shared status builder %d, own with_details_and_metadata %d' % (len(gd), len(wd)))
                if len(gd) == 1:
                    GC, GM = param_of_type(gdb, r'(^|::)Code$'), param_of_type(gdb, MSG_T)
                    c1 = b.origin(gd[0][1]['args'][GC - 1])
                    R.check(c1[0] == 'arg', 'C20.R4', '%s:same-code' % nm, site(b, gd[0][0]), 'code handed to the shared builder = %s' % show(c1))
                    m1 = through_calls(b.origin(gd[0][1]['args'][GM - 1]), WRAP)
                    R.check('message' in show(m1), 'C20.R4', '%s:same-message' % nm, site(b, gd[0][0]), 'message handed to the shared builder = %s' % show(m1)[:60])
                    rt = mirlib.returned_terms(b)
                    R.check(len(rt) == 1 and is_call(strip_refs(rt[0][1]), name='gen_details_bytes') and all(b.dominates(gd[0][0], rb) for rb in b.return_blocks()), 'C20.R4', '%s:unconditional' % nm, site(b, gd[0][0]),
                            'the status returned is the one the shared builder made, on every path')
                continue
            R.check(len(gd) == 1 and len(wd) == 1, 'C20.R4', '%s:sites' % nm, site(b), 'gen_details_bytes %d, with_details_and_metadata %d' % (len(gd), len(wd)))
            if gd and wd:
                GC, GM, GD = param_of_type(gdb, r'(^|::)Code$'), param_of_type(gdb, r"^&('\w+ )?str$"), param_of_type(gdb, r'Vec<.*Any>')
                c1, c2 = b.origin(gd[0][1]['args'][GC - 1]), b.origin(wd[0][1]['args'][0])
                R.check(c1 == c2 and c1[0] == 'arg', 'C20.R4', '%s:same-code' % nm, site(b, gd[0][0]), 'inner code = %s, outer code = %s' % (show(c1), show(c2)))
                m1, m2 = b.origin(gd[0][1]['args'][GM - 1]), b.origin(wd[0][1]['args'][1])
                core1 = through_calls(m1, WRAP)
                core2 = through_calls(m2, WRAP)
                same = core1 == core2 or show(core1) == show(core2)
                R.check(same and 'message' in show(core1), 'C20.R4', '%s:same-message' % nm, site(b, gd[0][0]), 'inner message = %s, outer message = %s' % (show(m1)[:60], show(m2)[:60]))
                d = b.origin(wd[0][1]['args'][2])
                R.check(is_call(strip_refs(d), name='gen_details_bytes'), 'C20.R4', '%s:details-are-those-bytes' % nm, site(b, wd[0][0]), 'details argument = %s' % show(d)[:60])
                R.check(b.dominates(gd[0][0], wd[0][0]) and all(b.dominates(gd[0][0], rb) for rb in b.return_blocks()), 'C20.R4', '%s:unconditional' % nm, site(b, gd[0][0]), 'gen_details_bytes is on every path')
        g = ty.body('richer_error::gen_details_bytes')
        R.saw(g)
        ag = [x for x in mirlib.aggregates(g) if (x[3].get('adt') or '').endswith('google_rpc::Status')]
        okg = False
        if len(ag) == 1:
            bb, i, p, a, ops = ag[0]
            f = a['fields']
            c = g.origin(ops[f.index('code')])
            m = g.origin(ops[f.index('message')])
            d = g.origin(ops[f.index('details')])
            GC, GM, GD = param_of_type(g, r'(^|::)Code$'), param_of_type(g, MSG_T if tail_in_helper else r"^&('\w+ )?str$"), param_of_type(g, r'Vec<.*Any>')
            okg = c[0] == 'cast' and mentions_arg(c[2], GC) and mentions_arg(m, GM) and strip_refs(d)[:2] == ('arg', GD)
            R.check(okg, 'C20.R4', 'gen:fields', site(g, bb, i), 'pb::Status{code: %s, message: %s, details: %s}' % (show(c), show(m)[:40], show(d)))
            R.check(all(g.dominates(bb, rb) for rb in g.return_blocks()) and len(g.return_blocks()) == 1, 'C20.R4', 'gen:always-encodes', site(g), 'the status is built and encoded on every path (no early return for empty details)')
        R.check(len(ag) == 1, 'C20.R4', 'gen:one-status', site(g), 'pb::Status aggregates in gen_details_bytes: %d' % len(ag))
        en = g.calls(name='encode')
        rt = mirlib.returned_terms(g)
        frozen = len(en) == 1 and len(rt) == 1 and is_call(strip_refs(rt[0][1]), name='freeze')
        # .. or Bytes::from(status.encode_to_vec())
        ev_ = g.calls(name='encode_to_vec')
        vec_form = len(ev_) == 1 and len(rt) == 1 and is_call(strip_refs(rt[0][1]), name='from') and 'Bytes' in strip_refs(rt[0][1])[1] + str(strip_refs(rt[0][1])[4].get('self_ty')) and is_call(strip_refs(strip_refs(rt[0][1])[2][0]), name='encode_to_vec')
        if tail_in_helper:
            # the helper returns the outer status: built from its own code / message parameters and the bytes just encoded
            wd = g.calls(name='with_details_and_metadata')
            R.check(len(wd) == 1, 'C20.R4', 'gen:one-outer-status', site(g), 'the shared builder makes the outer status in one place (%d); a second one would carry other details' % len(wd))
            wa = wd[0][1]['args']
            oc, om, od = g.origin(wa[0]), through_calls(g.origin(wa[1]), WRAP), strip_refs(g.origin(wa[2]))
            R.check(strip_refs(oc)[:2] == ('arg', GC), 'C20.R4', 'gen:outer-code', site(g, wd[0][0]), 'outer status code = %s (the code parameter the embedded status is built from)' % show(oc))
            R.check(strip_refs(om)[:2] == ('arg', GM), 'C20.R4', 'gen:outer-message', site(g, wd[0][0]), 'outer status message = %s (the message parameter the embedded status is built from)' % show(om)[:60])
            enc_ok = (len(en) == 1 and is_call(od, name='freeze')) or (len(g.calls(name='encode_to_vec')) == 1 and is_call(od, name='from') and is_call(strip_refs(od[2][0]), name='encode_to_vec'))
            R.check(enc_ok, 'C20.R4', 'gen:returns-encoding', site(g, wd[0][0]), 'details = the frozen buffer the status was encoded into (or Bytes::from(encode_to_vec())): %s' % show(od)[:60])
            R.check(len(rt) == 1 and is_call(strip_refs(rt[0][1]), name='with_details_and_metadata') and len(ag) == 1 and g.dominates(ag[0][0], wd[0][0]), 'C20.R4', 'gen:returns-outer-status', site(g, wd[0][0]), 'the helper returns that status, on every path')
        else:
            R.check(frozen or vec_form, 'C20.R4', 'gen:returns-encoding', site(g), 'returns the frozen buffer the status was encoded into (or Bytes::from(encode_to_vec()))')

    # ---------------------------------------------------------------- R5 decode side is total
    R.describe('C20.R5', 'check_* propagate DecodeError with ?; get_* fall back to default / None; no panic site is reachable from the decoders and getters')
    with R.guard('C20.R5'):
        g = mirlib.call_graph(ty)
        roots = []
        for b in ty.bodies:
            if b.kind == 'fn' and re.search(r'as richer_error::(RpcStatusExt|StatusExt)>::(check_|get_)', b.path):
                roots.append(b.path)
        rs = mirlib.reach(g, roots)
        n = 0
        for p in sorted(rs):
            for b in ty.by_path[p]:
                if b.kind == 'promoted':
                    continue
                n += 1
                R.saw(b)
                for bb, kind, what, t in mirlib.panic_sites(b):
                    R.bad('C20.R5', 'panic:%s:%s' % (short(b.path)[-60:], what), site(b, bb), 'panic site reachable from the detail decoders on peer-supplied bytes: %s %s' % (kind, what))
        R.floor('C20.R5', 'decoder bodies', n, 40)
        if not any(o['rule'] == 'C20.R5' and not o['ok'] for o in R.obls):
            R.ok('C20.R5', 'no-panic-sites', '', '%d bodies reachable from %d decoder/getter entry points have no panic site' % (n, len(roots)))
        for nm in ('check_error_details', 'check_error_details_vec'):
            b = ty.body(re.compile(r'<tonic::Status as richer_error::StatusExt>::%s$' % nm))
            dcs = b.calls(name='decode')
            prop = len(b.calls(name='from_residual')) >= 1
            if not prop and len(dcs) == 1:
                # spelled as a match: Err(e) => Err(e)
                prop = any(term_contains(b.origin(o_[0]), lambda x: x and x[0] == 'variant' and x[2] == 'Err' and term_contains(x, lambda y: is_call(y, name='decode'))) for bb_, i_, p_, a_, o_ in returned_aggs(b, 'result::Result', 'Err'))
            R.check(len(dcs) == 1 and prop, 'C20.R5', '%s:decode?' % nm, site(b), 'pb::Status::decode(self.details()): its error is propagated, then delegate')
            dc = b.calls(name='decode')
            R.check(bool(dc) and mentions_call(b.origin(dc[0][1]['args'][0]), name='details'), 'C20.R5', '%s:reads-status-details' % nm, site(b), 'decodes self.details()')
        for nm in ('get_error_details', 'get_error_details_vec'):
            b = ty.body(re.compile(r'<tonic::Status as richer_error::StatusExt>::%s$' % nm))
            R.check(len(b.calls(name='unwrap_or_default')) == 1 or len(b.calls(name='unwrap_or')) == 1, 'C20.R5', '%s:defaults' % nm, site(b), 'falls back to the empty value on a decode error')
