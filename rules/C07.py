"""C07 — hostile or truncated input ends a stream with one error, never a hang or panic."""
import re
from common import *
import mirlib
from mirlib import TypeState
import C01

META = {
    'explanation': 'A forward typestate analysis over Streaming::poll_next tracks the decoder state field (Live / Error(Some) / '
                   'Error(None)) with may-assign summaries of decode_chunk, poll_frame and response, and the kind of value last '
                   'written to the return slot; every exit that returns an error item must leave the state Error(None) (latched, not '
                   'replayed), and no decode/poll call may be reachable in an Error state. Every potential panic site in the call-graph '
                   'reach of the receive path is enumerated and must be discharged by a dominating guard of a listed kind.',
    'exhaustive': True,
    'assumptions': ['prost::Message::decode, flate2 and zstd readers return Err (not panic) on malformed input',
                    'http-body 1.x frames are either data or trailers',
                    '64-bit usize (the target analysed)'],
}

FAMILY = ('decode::Streaming::<T>::decode_chunk', 'decode::StreamingInner::decode_chunk', 'decode::StreamingInner::poll_frame',
          'decode::StreamingInner::response')


def state_place(body, p):
    """does place p denote (exactly) the decoder state field `….state`?"""
    if p.get('pr'):
        names = [e.get('n') for e in p['pr'] if isinstance(e, dict) and 'f' in e]
        tail = p['pr'][-1]
        if names and names[-1] == 'state' and isinstance(tail, dict) and tail.get('n') == 'state':
            return True
        if p['pr'] == ['*']:
            t = body.origin(p['l'])
            t = strip_refs(t)
            return t[0] == 'field' and t[2] == 'state'
    return False


def err_payload_kind(body, ops):
    if not ops:
        return {'ErrSome', 'ErrNone'}
    t = strip_refs(ops[0])
    if t[0] == 'agg' and t[1].get('variant') == 'None':
        return {'ErrNone'}
    if t[0] == 'agg' and t[1].get('variant') == 'Some':
        return {'ErrSome'}
    return {'ErrSome', 'ErrNone'}


def assigned_states(body, val_term_or_rv):
    v = mirlib.rvalue_variant(body, val_term_or_rv)
    if v is None and isinstance(val_term_or_rv, dict):
        # not a literal State::X: follow the value (through `?`, let-else, a helper's return ..) to the variants it can be
        t = strip_refs(mirlib.simplify(body._origin_def(('stmt', 0, 0, val_term_or_rv), 0, set())))
        alts = t[1] if t and t[0] == 'phi' else [t]
        out = set()
        for a in alts:
            a = strip_refs(a)
            if a and a[0] == 'agg' and (a[1].get('adt') or '').endswith('decode::State'):
                out |= err_payload_kind(body, a[2]) if a[1].get('variant') == 'Error' else {'Live'}
            else:
                return {'Live', 'ErrSome', 'ErrNone'}
        return out or {'Live', 'ErrSome', 'ErrNone'}
    if v is None:
        return {'Live', 'ErrSome', 'ErrNone'}
    adt, variant, ops = v
    if not adt.endswith('decode::State'):
        return {'Live', 'ErrSome', 'ErrNone'}
    if variant == 'Error':
        return err_payload_kind(body, ops)
    return {'Live'}


def may_assign(crate, body, seen=None):
    """abstract values a body (and the family callees it calls) may store into the state field"""
    seen = seen or set()
    if body.path in seen:
        return set()
    seen.add(body.path)
    out = set()
    for bb in sorted(body.live_blocks()):
        for st in body.blocks[bb]['stmts']:
            if 'p' in st and state_place(body, st['p']):
                out |= assigned_states(body, st['rv'])
        t = body.term(bb)
        if t['k'] == 'call':
            if t.get('name') == 'replace' and 'mem::replace' in (t.get('fn') or ''):
                tgt = strip_refs(body.origin(t['args'][0]))
                if tgt[0] == 'field' and tgt[2] == 'state':
                    vt = strip_refs(body.origin(t['args'][1]))
                    if vt[0] == 'agg' and vt[1].get('adt', '').endswith('decode::State'):
                        out |= err_payload_kind(body, vt[2]) if vt[1]['variant'] == 'Error' else {'Live'}
                    else:
                        out |= {'Live', 'ErrSome', 'ErrNone'}
            for fam in FAMILY:
                if (t.get('fn') or '').endswith(fam):
                    out |= may_assign(crate, crate.body(fam), seen)
    return out


def classify_ret(body, term):
    """kind of value written into the return slot of poll_next"""
    t = strip_refs(term)
    if is_call(t, name='from_residual'):
        return 'err'
    if t[0] == 'agg' and t[1].get('variant') == 'Pending':
        return 'pending'
    if t[0] == 'agg' and t[1].get('variant') == 'Ready':
        inner = strip_refs(t[2][0])
        if inner[0] == 'agg' and inner[1].get('variant') == 'None':
            return 'none'
        if inner[0] == 'agg' and inner[1].get('variant') == 'Some':
            i2 = strip_refs(inner[2][0])
            if i2[0] == 'agg' and i2[1].get('variant') == 'Err':
                return 'err'
            if i2[0] == 'agg' and i2[1].get('variant') == 'Ok':
                return 'ok'
            return 'maybe-err'
        if is_call(inner, name='map') and term_contains(inner, lambda x: is_call(x, name='take')):
            return 'replay'
        return 'maybe-err'
    return 'maybe-err'


def err_source(body, term):
    """name of the fallible call an error value came from"""
    names = []
    for x in find_terms(term, lambda x: is_call(x)):
        if x[3] in ('decode_chunk', 'poll_frame', 'response', 'decode', 'decompress'):
            names.append(x[3])
    return names[0] if names else '?'


def _calls_outside_err(t, allowed, out=None, depth=0):
    """call terms in `t` whose name is not in `allowed`, not looking into Err(..) / None aggregates (a size that is read out of an
    Ok / Some / Continue projection cannot come from the payload of the error alternative of a merged value)"""
    if out is None:
        out = []
    if not isinstance(t, tuple) or not t or depth > 60:
        return out
    if t[0] == 'agg' and isinstance(t[1], dict) and t[1].get('variant') in ('Err', 'None', 'Break'):
        return out
    if is_call(t, name='from_residual'):
        return out   # an error handed on with `?` inside a spliced helper: the Err alternative of the merged result
    if is_call(t) and t[3] not in allowed:
        out.append(t)
    for x in t[1:]:
        if isinstance(x, tuple):
            _calls_outside_err(x, allowed, out, depth + 1)
        elif isinstance(x, list):
            for y in x:
                if isinstance(y, tuple):
                    _calls_outside_err(y, allowed, out, depth + 1)
    return out


def run(R):
    tonic = R.crate('tonic')

    # ---------------------------------------------------------------- R1 error latch typestate
    R.describe('C07.R1', 'typestate over Streaming::poll_next: every exit returning an error item leaves state = Error(None) (latched, never replayed); decode/poll calls are unreachable in an Error state; the replay arm hands the stored error out once (take)')
    with R.guard('C07.R1'):
        pn = tonic.body(re.compile(r'codec::decode::Streaming<T> as .*Stream>::poll_next$'))
        R.saw(pn)
        summaries = {}
        for fam in FAMILY:
            fb = tonic.body(fam)
            R.saw(fb)
            summaries[fam] = may_assign(tonic, fb)
        R.note('may-assign summaries: %r' % {k.split('::')[-2] + '::' + k.split('::')[-1]: sorted(v) for k, v in summaries.items()})
        sadt = tonic.adt('codec::decode::State')
        err_discr = [v['discr'] for v in sadt['variants'] if v['name'] == 'Error']
        if len(err_discr) != 1:
            raise CheckError('ANCHOR-MISSING: State::Error variant')
        err_discr = err_discr[0]
        calls_seen = []

        def on_stmt(body, bb, i, stmt, st):
            if 'p' not in stmt:
                return None
            p = stmt['p']
            if state_place(body, p):
                st = dict(st)
                st['st'] = frozenset(assigned_states(body, stmt['rv']))
                return st
            if p['l'] == 0 and not p.get('pr'):
                st = dict(st)
                term = body._origin_def(('stmt', bb, i, stmt['rv']), 0, {0})
                st['ret'] = frozenset([(classify_ret(body, term), err_source(body, term), bb)])
                return st
            return None

        def on_term(body, bb, t, st):
            if t['k'] != 'call':
                return None
            st2 = None
            fn = t.get('fn') or ''
            if t['dest']['l'] == 0 and not t['dest'].get('pr'):
                term = body._origin_def(('call', bb, t), 0, {0})
                st2 = dict(st)
                st2['ret'] = frozenset([(classify_ret(body, term), err_source(body, term), bb)])
            if t.get('name') == 'replace' and 'mem::replace' in fn:
                tgt = strip_refs(body.origin(t['args'][0]))
                if tgt[0] == 'field' and tgt[2] == 'state':
                    vt = strip_refs(body.origin(t['args'][1]))
                    st2 = dict(st2 or st)
                    if vt[0] == 'agg' and vt[1].get('adt', '').endswith('decode::State'):
                        st2['st'] = frozenset(err_payload_kind(body, vt[2]) if vt[1]['variant'] == 'Error' else {'Live'})
                    else:
                        st2['st'] = frozenset({'Live', 'ErrSome', 'ErrNone'})
            if t.get('name') == 'take' and 'Option' in fn:
                tgt = strip_refs(body.origin(t['args'][0]))
                # (state as Error).0
                if term_contains(tgt, lambda x: x and x[0] == 'variant' and x[2] == 'Error') and mentions_field(tgt, 'state'):
                    st2 = dict(st2 or st)
                    st2['st'] = frozenset('ErrNone' if v == 'ErrSome' else v for v in st2['st'])
            for fam in FAMILY:
                if fn.endswith(fam):
                    calls_seen.append((bb, fam, frozenset(st['st'])))
                    st2 = dict(st2 or st)
                    st2['st'] = frozenset(st2['st'] | summaries[fam])
            return st2

        def on_edge(body, bb, tgt, vals, st):
            o = body.origin(body.term(bb)['on'])
            if o[0] == 'discr':
                base = strip_refs(o[1])
                if base[0] == 'field' and base[2] == 'state':
                    cur = st['st']
                    if vals == ['else']:
                        arms = [v for v, _ in body.term(bb)['arms']]
                        new = set(cur)
                        if err_discr in arms:
                            new -= {'ErrSome', 'ErrNone'}
                        if all(d in arms for d in [v['discr'] for v in sadt['variants'] if v['name'] != 'Error']):
                            new -= {'Live'}
                    else:
                        new = set()
                        if err_discr in vals:
                            new |= cur & {'ErrSome', 'ErrNone'}
                        if any(v != err_discr for v in vals if v != 'else'):
                            new |= cur & {'Live'}
                        if 'else' in vals:
                            new = set(cur)
                    if not new:
                        return False
                    st = dict(st)
                    st['st'] = frozenset(new)
                    return st
            return None

        ts = TypeState(pn, {'st': {'Live', 'ErrSome', 'ErrNone'}, 'ret': {('init', '?', -1)}}, on_stmt, on_term, on_edge).run()
        rets = pn.return_blocks()
        R.floor('C07.R1', 'return blocks of poll_next', len(rets), 1)
        nexits = 0
        for rb in rets:
            st = ts.inp.get(rb)
            if st is None:
                continue
            # per writer-of-_0 reaching this return: use the state at that writer's block end joined along its path.
            for kind, src, wb in sorted(st['ret']):
                # state at return restricted to paths through wb: recompute by flowing from wb only
                sub = flow_from(pn, ts, wb, rb, on_stmt, on_term, on_edge)
                sts = sorted(sub['st']) if sub else sorted(st['st'])
                nexits += 1
                key = 'exit:%s<-%s' % (kind, src)
                if kind in ('err', 'maybe-err'):
                    R.check(set(sts) <= {'ErrNone'}, 'C07.R1', key, site(pn, wb),
                            'poll_next returns an error item (from %s) with decoder state in %r; required: Error(None) — otherwise a later poll decodes on '
                            '(e.g. bytes 02 00 00 00 00 | 00 00 00 00 00: error, then a spurious message), repeats the error forever on a truncated body, or reports a body error twice' % (src, sts))
                elif kind == 'replay':
                    R.check(set(sts) <= {'ErrNone'}, 'C07.R1', key, site(pn, wb), 'replay arm leaves state %r (stored error handed out once by take())' % sts)
                elif kind in ('ok', 'none', 'pending'):
                    R.ok('C07.R1', key, site(pn, wb), 'returns %s with state in %r' % (kind, sts))
                else:
                    R.bad('C07.R1', key, site(pn, wb), 'unclassified return value written at bb%d' % wb, kind='UNRECOGNISED')
        R.floor('C07.R1', 'classified exits', nexits, 5)
        # no decode/poll in an Error state
        for bb, fam, sts in calls_seen:
            R.check(not (sts & {'ErrSome', 'ErrNone'}), 'C07.R1', 'no-call-in-error:%s' % fam.split('::')[-1], site(pn, bb), 'state at call of %s may be %r' % (fam, sorted(sts)))
        R.floor('C07.R1', 'family calls in poll_next', len({(bb, fam) for bb, fam, _ in calls_seen}), 3)
        # Ready(None) clean end only behind response() == Ok
        for rb in rets:
            st = ts.inp.get(rb) or {'ret': ()}
            for kind, src, wb in st['ret']:
                if kind == 'none':
                    g = pn.edge_guards(wb)
                    okg = any('response' in show(t) and 'discr(' in show(t) and pn.guard_values(s, vals) == {0} for s, vals, t in g)
                    R.check(okg, 'C07.R1', 'clean-end-behind-response-ok', site(pn, wb), 'guards on Ready(None): %r' % [(v, show(t)[:70]) for s, v, t in g])

    # ---------------------------------------------------------------- R2 panic reachability
    R.describe('C07.R2', 'every potential panic site reachable from the receive path (Streaming::poll_next, ProstDecoder::decode, body-mapping closures) is discharged by a dominating guard of a listed kind')
    with R.guard('C07.R2'):
        g = mirlib.call_graph(tonic)
        roots = [pn.path, tonic.body(re.compile(r'ProstDecoder<U> as .*Decoder>::decode$')).path]
        roots += [b.path for b in tonic.bodies if b.path.startswith('tonic::codec::decode::Streaming::<T>::new::') and b.kind == 'closure']
        rs = mirlib.reach(g, roots)
        dc = tonic.body('decode::StreamingInner::decode_chunk')
        n_sites = 0
        for p in sorted(rs):
            for b in tonic.by_path[p]:
                if b.kind == 'promoted':
                    continue
                R.saw(b)
                for bb, kind, what, t in mirlib.panic_sites(b):
                    n_sites += 1
                    key = 'panic:%s:%s:%s' % (short(b.path), kind, what)
                    ok, why = discharge(tonic, b, bb, kind, what, t, dc)
                    R.check(ok, 'C07.R2', key, site(b, bb), why)
        # allocation sizes: BytesMut::reserve / Vec::with_capacity panic ("capacity overflow") or abort on an absurd size; on the receive
        # path their argument may be computed from the frame length (bounded by the limit test) and the buffer settings, never from a
        # number read out of the payload (a content-size field of a compressed frame is the peer's word)
        ARITH = {'min', 'max', 'saturating_mul', 'saturating_add', 'saturating_sub', 'checked_mul', 'checked_add', 'wrapping_mul', 'wrapping_add', 'unwrap_or', 'unwrap_or_default',
                 'next_multiple_of', 'div_ceil', 'next_power_of_two', 'len', 'remaining', 'capacity', 'from', 'into', 'try_from', 'try_into', 'clone', 'deref', 'unwrap', 'expect', 'remaining_mut',
                 'get_u32'}   # the length prefix itself (C06.R1: reserve only behind the limit test)
        n_alloc = 0
        for p in sorted(rs):
            for b in tonic.by_path[p]:
                if b.kind == 'promoted' or not re.search(r'codec::(compression|decode)::', b.path):
                    continue
                for bb, t in b.calls():
                    if t.get('name') not in ('reserve', 'with_capacity', 'reserve_exact', 'resize', 'try_reserve') or len(t['args']) < 1:
                        continue
                    n_alloc += 1
                    sz = b.origin(t['args'][-1] if t.get('name') != 'resize' else t['args'][1])
                    foreign = _calls_outside_err(sz, ARITH | {'branch', 'get_u8'})
                    R.check(not foreign, 'C07.R2', 'alloc-size:%s:%s' % (short(b.path).split('::')[-1], t.get('name')), site(b, bb),
                            'size = %s; computed from %s' % (show(sz)[:90], 'the frame length and settings only' if not foreign else 'the result of %s' % short(foreign[0][1])[-60:]))
        R.floor('C07.R2', 'allocation sites on the receive path', n_alloc, 2)
        R.floor('C07.R2', 'bodies in reach', len(rs), 25)
        R.floor('C07.R2', 'panic sites examined', n_sites, 12)

    # ---------------------------------------------------------------- R4 yielded messages respect frame boundaries
    R.describe('C07.R4', 'a compressed message is inflated from exactly buf[0..len] of its frame and the frame is consumed by advance(len) once (every decompress arm); so a yielded message never crosses a frame boundary')
    with R.guard('C07.R4'):
        C01.run_codec_tables(R, tonic, tag='@C07', rule='C07.R4')

    R.describe('C07.R5', 'the body adapter of Streaming::new hands every byte of each data buffer to the decoder: copy_to_bytes(buf.remaining()) (a first-chunk-only copy loses bytes of non-contiguous buffers)')
    with R.guard('C07.R5'):
        sn = tonic.body('codec::decode::Streaming::<T>::new')
        cl = [c for c in tonic.bodies if c.path.startswith(sn.path + '::') and c.kind == 'closure']
        cps = [(c, bb, t) for c in cl for bb, t in c.calls(name='copy_to_bytes')]
        okc = len(cps) == 1 and is_call(strip_refs(cps[0][0].origin(cps[0][2]['args'][1])), name='remaining')
        R.check(okc, 'C07.R5', 'adapter-copies-whole-buffer', site(cps[0][0], cps[0][1]) if cps else site(sn), 'frame.map_data(|mut buf| buf.copy_to_bytes(buf.remaining())): %r' % okc)
        chunks = [short(c.path) for c in cl for bb, t in c.calls(name='chunk')]
        R.check(not chunks, 'C07.R5', 'adapter-no-first-chunk-only', site(sn), 'Buf::chunk() used in the adapter (only the first contiguous chunk): %r' % chunks)
        pt = tonic.body('decode::StreamingInner::poll_frame')
        put = pt.calls(name='put')
        R.check(len(put) == 1 and mentions_call(pt.origin(put[0][1]['args'][1]), name='into_data'), 'C07.R5', 'whole-frame-appended', site(pt), 'self.buf.put(frame.into_data()) appends the whole data frame')

    # ---------------------------------------------------------------- R3 errors are values
    R.describe('C07.R3', 'decompress failure -> Err(Status::internal); prost decode failure -> map_err(from_decode_error) -> Status::internal; no unwrap')
    with R.guard('C07.R3'):
        dc = tonic.body('decode::StreamingInner::decode_chunk')
        db, dt = dc.call1(pat='compression::decompress')
        # switch on the result: Err edge leads to an Err return built by Status::internal
        errs = [(bb, i, ops) for bb, i, p, a, ops in mirlib.aggregates(dc, 'result::Result', 'Err')]
        hit = False
        for bb, i, ops in errs:
            gs = dc.edge_guards(bb)
            if any('decompress' in show(tm) and 'discr(' in show(tm) and vals == [1] for s, vals, tm in gs):
                hit = True
                R.check(is_call(strip_refs(dc.origin(ops[0])), pat='Status::internal'), 'C07.R3', 'decompress-err-internal', site(dc, bb, i), 'status = %s' % show(dc.origin(ops[0]))[:100])
        if not hit:
            # the `?` spelling: decompress(..).map_err(|e| Status::internal(..))?
            for mb_, mt_ in dc.calls(name='map_err'):
                if not is_call(strip_refs(dc.origin(mt_['args'][0])), pat='compression::decompress'):
                    continue
                clo = strip_refs(dc.origin(mt_['args'][1]))
                if clo[0] == 'agg' and 'def' in clo[1]:
                    cbd = tonic.body(re.compile('^' + re.escape(clo[1]['def']) + '$'))
                    R.saw(cbd)
                    rts = mirlib.returned_terms(cbd)
                    okm = bool(rts) and all(is_call(strip_refs(t_), pat='Status::internal') for _, t_ in rts)
                    br = [x for x, t_ in dc.calls(name='branch') if term_contains(dc.origin(t_['args'][0]), lambda y: y and y[0] == 'call' and len(y) > 4 and y[4] is mt_)]
                    hit = okm and bool(br)
                    R.check(okm, 'C07.R3', 'decompress-err-internal', site(cbd), 'map_err closure returns %s' % [show(t_)[:80] for _, t_ in rts])
        R.check(hit, 'C07.R3', 'decompress-err-handled', site(dc, db), 'the Err of decompress(..) becomes an Err(Status::internal) return (matched, or map_err + ?)')
        pd = tonic.body(re.compile(r'ProstDecoder<U> as .*Decoder>::decode$'))
        R.saw(pd)
        me = pd.calls(name='map_err')
        R.check(len(me) == 1 and any('k' in a and a['k'].get('fn', '').endswith('from_decode_error') for a in me[0][1]['args']), 'C07.R3', 'prost-map_err', site(pd), 'map_err(from_decode_error) sites: %d' % len(me))
        fd = tonic.body('codec::prost::from_decode_error')
        R.saw(fd)
        R.check(len(fd.calls(pat='Status::internal')) == 1, 'C07.R3', 'from_decode_error-internal', site(fd), 'from_decode_error builds Status::internal')
        sd = tonic.body('decode::Streaming::<T>::decode_chunk')
        R.saw(sd)
        ps = mirlib.panic_sites(sd)
        R.check(not ps, 'C07.R3', 'decode_chunk-no-panic', site(sd), 'panic sites in Streaming::decode_chunk: %r' % [(k, w) for _, k, w, _ in ps])
        # state reset only on Some(msg)
        resets = [(bb, i) for bb, i, st in mirlib.assignments(sd, lambda st: state_place(sd, st['p']))]
        R.check(len(resets) == 1, 'C07.R3', 'reset-once', site(sd), 'assignments to the state in Streaming::decode_chunk: %d' % len(resets))
        for bb, i in resets:
            gs = sd.edge_guards(bb)
            def some_msg(tm, vals):
                t_ = strip_refs(tm)
                if not term_contains(t_, lambda x: is_call(x, name='decode')):
                    return False
                if t_[0] == 'discr':
                    return vals == [1]
                if is_call(t_, name='is_some'):
                    return vals == ['else'] or 0 not in vals
                if is_call(t_, name='is_none'):
                    return vals == [0]
                return False
            R.check(any(some_msg(tm, vals) for s, vals, tm in gs), 'C07.R3', 'reset-on-some-msg', site(sd, bb, i),
                    'guards: %r' % [(v, show(tm)[:80]) for s, v, tm in gs])


def flow_from(body, ts, wb, rb, on_stmt, on_term, on_edge):
    """re-run the transfer functions along all paths wb -> rb starting from the state at wb's entry; returns state at rb"""
    sub = TypeState(body, {}, on_stmt, on_term, on_edge)
    sub.inp[wb] = dict(ts.inp[wb])
    # restrict to blocks on paths wb -> rb that do not re-enter wb
    work = [wb]
    seen = set()
    inp = {wb: dict(ts.inp[wb])}
    order = []
    while work:
        bb = work.pop()
        if bb in seen:
            continue
        seen.add(bb)
        order.append(bb)
        st = dict(inp[bb])
        for i, stmt in enumerate(body.blocks[bb]['stmts']):
            r = on_stmt(body, bb, i, stmt, st)
            if r is not None:
                st = r
        t = body.term(bb)
        r = on_term(body, bb, t, st)
        if r is not None:
            st = r
        if bb == rb:
            continue
        if t['k'] == 'switch':
            for tgt, vals in body.switch_edges(bb).items():
                s2 = on_edge(body, bb, tgt, vals, dict(st))
                if s2 is False:
                    continue
                s2 = s2 or st
                inp[tgt] = TypeState.join(inp.get(tgt), s2)
                if tgt not in seen and tgt != wb:
                    work.append(tgt)
        else:
            for tgt in body.succs(bb):
                inp[tgt] = TypeState.join(inp.get(tgt), st)
                if tgt not in seen and tgt != wb:
                    work.append(tgt)
    return inp.get(rb)


def discharge(tonic, b, bb, kind, what, t, dc):
    """decide whether a panic site is guarded; returns (ok, explanation)"""
    gs = b.edge_guards(bb)
    gtxt = [(v, show(tm)[:90]) for s, v, tm in gs]
    hs = spec('wire')['header_size']
    RBUF = decode_buf_fields(tonic)[0]
    # (a) header getters behind remaining() >= HEADER_SIZE
    if kind == 'buf' and ('get_u8' in what or 'get_u32' in what) and b.path.endswith('StreamingInner::decode_chunk'):
        need = 0
        for bb2, t2 in b.calls(pat='bytes::Buf::get_'):
            need += {'get_u8': 1, 'get_u32': 4, 'get_u16': 2, 'get_u64': 8}.get(t2.get('name'), 99)
        okg = any(tm[0] == 'bin' and tm[1] == 'Lt' and is_call(strip_refs(tm[2]), name='remaining') and mentions_field(tm[2], RBUF) and const_val(tm[3]) == hs and vals == [0]
                  for s, vals, tm in gs)
        recv = b.origin(t['args'][0])
        return (okg and need <= hs and mentions_field(recv, RBUF),
                '%s on %s: dominated by the false edge of remaining() < %d: %r; bytes read by all header getters: %d' % (what, show(recv), hs, okg, need))
    # (f) copy_to_bytes(buf, buf.remaining()): takes exactly what is there
    if kind == 'buf' and 'copy_to_bytes' in what:
        recv = strip_refs(b.origin(t['args'][0]))
        n = strip_refs(b.origin(t['args'][1]))
        okg = is_call(n, name='remaining') and strip_refs(n[2][0]) == recv
        return okg, 'copy_to_bytes(%s, %s): the count is remaining() of the same buffer: %r' % (show(recv), show(n), okg)
    # (b) unwrap of into_data()/into_trailers() behind is_data()/is_trailers()
    if kind == 'unwrap' and b.path.endswith('StreamingInner::poll_frame'):
        recv = strip_refs(b.origin(t['args'][0]))
        if is_call(recv, name='into_data'):
            okg = any(is_call(strip_refs(tm), name='is_data') and (vals == ['else'] or 0 not in vals) for s, vals, tm in gs)
            return okg, 'into_data().unwrap() guarded by is_data(): %r; guards %r' % (okg, gtxt)
        if is_call(recv, name='into_trailers'):
            okg = any(is_call(strip_refs(tm), name='is_trailers') and (vals == ['else'] or 0 not in vals) for s, vals, tm in gs)
            return okg, 'into_trailers().unwrap() guarded by is_trailers(): %r; guards %r' % (okg, gtxt)
        return False, 'unwrap of %s' % show(recv)[:100]
    # (d) the dead "unexpected frame" arm: exactly one named exception
    if kind == 'panic' and b.path.endswith('StreamingInner::poll_frame'):
        def not_kind(nm):
            # is_<kind>() false, or into_<kind>() returned Err(frame)
            return any((is_call(strip_refs(tm), name='is_' + nm) and vals == [0]) or (tm[0] == 'discr' and is_call(strip_refs(tm[1]), name='into_' + nm) and vals == [1]) for s, vals, tm in gs)
        okg = not_kind('data') and not_kind('trailers')
        return okg, 'named exception: panic!("unexpected frame") is reached only when a frame is neither data nor trailers (impossible for http-body 1.x frames): guards %r' % gtxt
    # (c) slice index / advance(len) in decompress: len is bounded at the unique call site
    if b.path.endswith('compression::decompress') and (kind == 'index' or (kind == 'buf' and 'advance' in what)):
        sites = call_sites_in_crate(tonic, pat='compression::decompress')
        ok_sites = True
        for cb, cbb, ct in sites:
            cg = cb.edge_guards(cbb)
            lenarg = cb.origin(ct['args'][3])
            bufarg = cb.origin(ct['args'][1])
            okc = False
            for s, vals, tm in cg:
                # false edge of `buf.remaining() < len` (possibly one disjunct of an ||)
                if tm[0] == 'bin' and tm[1] == 'Lt' and vals == [0] and (is_call(strip_refs(tm[2]), name='remaining') or is_call(strip_refs(tm[2]), name='len')) and mentions_field(tm[2], RBUF):
                    okc = True
            ok_sites = ok_sites and okc and mentions_field(bufarg, RBUF)
        arg = b.origin(t['args'][1]) if kind == 'index' else b.origin(t['args'][1])
        return (ok_sites and len(sites) == 1,
                '%s in decompress uses the `len` parameter; its only call site (%d found) is dominated by the false edge of buf.remaining() < len: %r' % (what, len(sites), ok_sites))
    # (e) arithmetic on the length (<= u32::MAX) and the configured buffer size
    if b.path.endswith('compression::decompress') and kind == 'assert':
        cond = b.origin(t['cond'])
        s = show(cond)
        if what == 'DivisionByZero' or 'buffer_growth_interval' in s:
            return True, 'named exception: arithmetic on BufferSettings::buffer_size (configuration, not peer input): %s' % what
        if 'arg4' in s or 'len' in s:
            # len comes from get_u32 at the call site
            sites = call_sites_in_crate(tonic, pat='compression::decompress')
            okl = all(term_contains(cb.origin(ct['args'][3]), lambda x: x and x[0] == 'variant' and x[2] == 'ReadBody') for cb, cbb, ct in sites)
            rb = mirlib.aggregates(dc, 'decode::State', 'ReadBody')
            oku = all(term_contains(dc.origin(ops[a['fields'].index('len')]), lambda x: is_call(x, name='get_u32')) for bb_, i_, p_, a, ops in rb) and bool(rb)
            return okl and oku, '%s on len: len is State::ReadBody.len, which is always written from get_u32() as usize (<= 2^32-1), so len*2 cannot overflow a 64-bit usize: %r/%r' % (what, okl, oku)
        return False, '%s: %s' % (what, s[:120])
    # bounds checks of Code::from_bytes: index k under len == n, k < n (same rule as C04.R5)
    if kind == 'assert' and what == 'BoundsCheck':
        idx = const_val(b.origin(t['index']))
        lens = [vals for s, vals, term in gs if ('len(' in show(term) or 'PtrMetadata' in show(term)) and vals != ['else']]
        ok = isinstance(idx, int) and any(all(isinstance(v, int) and idx < v for v in vals) for vals in lens)
        return ok, 'bounds check index %r under length guards %r' % (idx, lens)
    return False, 'unguarded %s %s; guards: %r' % (kind, what, gtxt)
