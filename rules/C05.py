"""C05 — compression is used only as negotiated and configured."""
import re
from collections import defaultdict
from common import *
import mirlib

META = {
    'explanation': 'Both header parsers are turned into decision rows (token -> encoding, with the is_enabled guards on the row); '
                   'each row must carry the guard for its own encoding and the spec token. The refusal path, the accept list, the '
                   'send/accept field plumbing of the four server handlers and the client, the flag-without-encoding rejection and '
                   'the per-message opt-out are decided by operand origins and dominance.',
    'exhaustive': True,
}


def run(R):
    tonic = R.crate('tonic')
    comp = spec('compression')
    encs = comp['encodings']
    feats = set(tonic.features)
    enabled = {v: e for v, e in encs.items() if e['feature'] in feats}
    run_parsers(R, tonic, comp, enabled)
    run_plumbing(R, tonic, comp, enabled)
    if R.tier == 'thorough':
        for name, cfg, cr in R.matrix():
            if not name.startswith('m_comp_'):
                continue
            R.cur_cfg = name
            en = {v: e for v, e in encs.items() if e['feature'] in set(cr.features)}
            run_parsers(R, cr, comp, en, tag='@' + name)
        R.cur_cfg = 'full'
        R.selftest()


def run_parsers(R, tonic, comp, enabled, tag=''):
    encs = comp['encodings']
    # ---------------------------------------------------------------- R1 guarded selection
    R.describe('C05.R1', 'every header-token -> Some(encoding) row of both parsers is guarded by is_enabled(enabled, that same encoding) and the token is the spec token of that encoding')
    with R.guard('C05.R1', 'from_encoding_header'):
        b = tonic.body('CompressionEncoding::from_encoding_header')
        R.saw(b)
        hb, ht = b.call1(pat='HeaderMap', name='get')
        R.eq(const_val(b.origin(ht['args'][1])), comp['headers']['encoding'], 'C05.R1', 'encoding-header-name' + tag, site(b, hb), 'header read by from_encoding_header')
        # by feasible path: the value returned at the end of the path (phis resolved along it), the token the path matched and the
        # is_enabled tests it passed — so a token table in a helper (token -> Option<encoding>) followed by one guard is read the same
        rows = mirlib.path_rows(b, stop=set(writers_of(b, 0)))
        seen = {}
        ident = False
        absent = False
        default_err = 0
        for cons, path in rows:
            bb = path[-1]
            val = mirlib.simplify(b.ret_on_path(path))
            tok, _ = token_of(cons)
            kind, vname = classify_val(val)
            x0 = strip_refs(val)
            if kind is None and x0 and x0[0] == 'agg' and x0[1].get('variant') == 'Ok' and strip_refs(x0[2][0])[0] == 'agg' and strip_refs(x0[2][0])[1].get('variant') == 'Some':
                # Ok(Some(e)) with e looked up in the table of encodings by its wire name, kept only if enabled
                payload = strip_refs(x0[2][0])[2][0]
                tc = table_candidate(tonic, b, payload)
                if tc is not None:
                    praw = show(tc['probe'])
                    if tc['guarded'] is not True:
                        # .. or the entry found is tested afterwards on this path: `if enabled.is_enabled(found)`
                        for bb_, tm_, vals_ in b.path_tests(path):
                            c_ = strip_refs(tm_)
                            if is_call(c_, name='is_enabled') and len(c_[2]) >= 2 and show(strip_refs(c_[2][1])) == show(strip_refs(payload)) and 0 not in vals_ \
                                    and arg_root(strip_refs(c_[2][0])) == param_of_type(b, r'EnabledCompressionEncodings$'):
                                tc['guarded'] = True
                    for tok_, vname_ in tc['rows']:
                        R.check('as_bytes' in praw and 'to_str' not in praw, 'C05.R1', 'enc:token-on-raw-bytes:%s%s' % (vname_, tag), site(b, bb), 'token compared on %s' % praw[:100])
                        R.check(tok_ == encs.get(vname_, {}).get('token'), 'C05.R1', 'enc:token:%s%s' % (vname_, tag), site(b, bb), 'table entry %s is found by the name %r (spec token %r)' % (vname_, tok_, encs.get(vname_, {}).get('token')))
                        R.check(tc['guarded'] is True, 'C05.R1', 'enc:guard:%s%s' % (vname_, tag), site(b, bb), 'the entry found is kept only if is_enabled(enabled set, that entry): %r' % tc['guarded'])
                        seen[vname_] = tok_
                    continue
            if kind == 'some':
                g = path_guards_enabled(b, path)
                tsub = [s for s, op, v in cons if re.search(r'\[const\(0\)\]$', s) or (op == '==' and isinstance(v, (str, bytes)))]
                R.check(bool(tsub) and all('as_bytes' in x and 'to_str' not in x for x in tsub), 'C05.R1', 'enc:token-on-raw-bytes:%s%s' % (vname, tag), site(b, bb), 'token compared on %s' % (tsub[:1],))
                R.check(tok == encs.get(vname, {}).get('token'), 'C05.R1', 'enc:token:%s%s' % (vname, tag), site(b, bb), 'token %r selects %s (spec token %r)' % (tok, vname, encs.get(vname, {}).get('token')))
                R.check(g.get(vname) is True, 'C05.R1', 'enc:guard:%s%s' % (vname, tag), site(b, bb),
                        'row %r -> Some(%s) is guarded by is_enabled(%s)=%r; all guards on the row: %r' % (tok, vname, vname, g.get(vname), g))
                seen[vname] = tok
            elif kind == 'none':
                if tok == comp['identity']:
                    ident = True
                elif tok is None and any(s.startswith('discr(') and 'get(' in s for s, op, v in cons):
                    subj = [s for s, op, v in cons if s.startswith('discr(') and 'get(' in s][0]
                    pure = not re.search(r'and_then|to_str|::ok\(|map\(|filter', subj)
                    R.check(pure, 'C05.R1', 'enc:absent-is-really-absent' + tag, site(b, bb),
                            'Ok(None) for "no header" is decided on %s; it must be the raw HeaderMap::get result (a value that fails a str conversion, e.g. non-ASCII bytes, is not absent and must be refused)' % subj)
                    absent = pure
                else:
                    R.bad('C05.R1', 'enc:none-row:%r%s' % (tok, tag), site(b, bb), 'token %r yields Ok(None)' % tok)
            elif kind == 'err':
                default_err += 1
            else:
                R.bad('C05.R1', 'enc:shape' + tag, site(b, bb), 'unrecognised result %s' % show(val)[:200], kind='UNRECOGNISED')
        R.eq(sorted(seen), sorted(enabled), 'C05.R1', 'enc:rows' + tag, site(b), 'encodings selectable by grpc-encoding (features %s)' % sorted(e['feature'] for e in enabled.values()))
        R.check(ident, 'C05.R1', 'enc:identity' + tag, site(b), '"identity" -> Ok(None)')
        R.check(absent, 'C05.R1', 'enc:absent' + tag, site(b), 'absent header -> Ok(None)')
        R.check(default_err >= 1, 'C05.R1', 'enc:default-err' + tag, site(b), 'every other value -> Err')

    with R.guard('C05.R1', 'from_accept_encoding_header'):
        b = tonic.body('CompressionEncoding::from_accept_encoding_header')
        R.saw(b)
        hb, ht = b.call1(pat='HeaderMap', name='get')
        R.eq(const_val(b.origin(ht['args'][1])), comp['headers']['accept'], 'C05.R1', 'accept-header-name' + tag, site(b, hb), 'header read by from_accept_encoding_header')
        def fn_body(term):
            t_ = strip_refs(term)
            if t_[0] == 'agg' and 'def' in t_[1]:
                return tonic.body(re.compile('^' + re.escape(t_[1]['def']) + '$')), t_
            if t_[0] == 'fnitem':
                return tonic.body(re.compile('^' + re.escape(t_[1]) + '$')), t_
            raise CheckError('UNRECOGNISED: %s is neither a closure nor a function item' % show(t_)[:80])
        fm = b.calls(name='find_map')
        seen = {}
        if fm:
            fb, ft = b.call1(name='find_map')
            R.check(ft['dest']['l'] == 0, 'C05.R1', 'accept:first-match-returned' + tag, site(b, fb), 'find_map result is the return value')
            src = b.origin(ft['args'][0])
            cb, clo = fn_body(b.origin(ft['args'][1]))
            pred_guard = None
        else:
            # filter_map(name -> Option<encoding>).find(|e| enabled.is_enabled(e)): the same first-match selection in two stages
            fb, ft = b.call1(name='find')
            R.check(ft['dest']['l'] == 0, 'C05.R1', 'accept:first-match-returned' + tag, site(b, fb), 'find(..) result is the return value')
            fmc = strip_refs(b.origin(ft['args'][0]))
            if not is_call(fmc, name='filter_map'):
                raise CheckError('UNRECOGNISED: find() is not applied to filter_map(..): %s' % show(fmc)[:100])
            src = fmc[2][0]
            cb, clo = fn_body(fmc[2][1])
            pb, pclo = fn_body(b.origin(ft['args'][1]))
            R.saw(pb)
            okp = pred_is_enabled(tonic, b, pb)
            R.check(okp, 'C05.R1', 'accept:find-predicate' + tag, site(pb), 'find predicate = |e| enabled_encodings.is_enabled(e) on the candidate itself: %r' % okp)
            pred_guard = okp
        R.check(mentions_call(src, name='split_by_comma') and mentions_call(src, name='to_str'), 'C05.R1', 'accept:iterates-header' + tag, site(b, fb), 'iterates %s' % show(src)[:200])
        R.saw(cb)
        rows = mirlib.path_rows(cb, stop=set(writers_of(cb, 0)))
        for cons, path in rows:
            bb = path[-1]
            rv = strip_refs(mirlib.simplify(cb.ret_on_path(path)))
            row_pred = None
            if is_call(rv, name='filter') and 'Option' in rv[1] and len(rv[2]) == 2:
                # candidate.filter(|&e| enabled.is_enabled(e)): the candidate is kept only if the predicate holds
                fpb, _ = fn_body(rv[2][1])
                R.saw(fpb)
                row_pred = pred_is_enabled(tonic, b, fpb)
                R.check(row_pred, 'C05.R1', 'accept:filter-predicate' + tag, site(fpb), 'filter predicate = |e| enabled_encodings.is_enabled(e) on the candidate itself: %r' % row_pred)
                rv = strip_refs(rv[2][0])
            tok, _ = token_of(cons)
            kind, val = classify_val(rv, opt_only=True)
            if kind is None:
                tc = table_candidate(tonic, b, rv)
                if tc is not None:
                    for tok_, val_ in tc['rows']:
                        R.check(tok_ == encs.get(val_, {}).get('token'), 'C05.R1', 'accept:token:%s%s' % (val_, tag), site(cb, bb), 'table entry %s is found by the name %r (spec token %r)' % (val_, tok_, encs.get(val_, {}).get('token')))
                        R.check(tc['guarded'] is True or row_pred is True or pred_guard is True, 'C05.R1', 'accept:guard:%s%s' % (val_, tag), site(cb, bb),
                                'the entry found is kept only if is_enabled(send-enabled set, that entry): filter %r / find predicate %r' % (tc['guarded'] or row_pred, pred_guard))
                        seen[val_] = tok_
                    continue
            if kind == 'some':
                g = path_guards_enabled(cb, path)
                R.check(tok == encs.get(val, {}).get('token'), 'C05.R1', 'accept:token:%s%s' % (val, tag), site(cb, bb), 'token %r selects %s (spec token %r)' % (tok, val, encs.get(val, {}).get('token')))
                R.check(g.get(val) is True or pred_guard is True or row_pred is True, 'C05.R1', 'accept:guard:%s%s' % (val, tag), site(cb, bb),
                        'row %r -> Some(%s) must be guarded by is_enabled(send-enabled set, %s); guards on the row: %r; find/filter predicate: %r '
                        '(unguarded: a server configured to send only gzip answers "grpc-accept-encoding: zstd,gzip" with zstd)' % (tok, val, val, g, pred_guard or row_pred))
                seen[val] = tok
            elif kind == 'none':
                pass
            else:
                R.bad('C05.R1', 'accept:shape' + tag, site(cb, bb), 'unrecognised result %s' % show(rv)[:200], kind='UNRECOGNISED')
        R.eq(sorted(seen), sorted(enabled), 'C05.R1', 'accept:rows' + tag, site(cb), 'encodings selectable by grpc-accept-encoding')
        # the guard's receiver is the enabled_encodings parameter (captured)
        for bb, t in cb.calls(name='is_enabled'):
            recv = cb.origin(t['args'][0])
            R.check('enabled_encodings' in show(recv) or arg_root(strip_refs(resolve_env(tonic, cb, recv))) == param_of_type(b, r'EnabledCompressionEncodings$'), 'C05.R1', 'accept:guard-receiver' + tag, site(cb, bb), 'is_enabled receiver = %s' % show(recv))
        sp = tonic.body('compression::split_by_comma')
        R.saw(sp)
        R.check(any(const_val(sp.origin(a)) == ',' for bb, t in sp.calls(name='split') for a in t['args']), 'C05.R1', 'accept:split-comma' + tag, site(sp), 'split_by_comma splits at ","')
        tr = [c for c in tonic.children(sp) if c.calls(name='trim')]
        # .. or the function item itself handed to map: `.map(str::trim)`
        trf = [1 for bb_, t_ in sp.calls(name='map') for a_ in t_['args'] if 'k' in a_ and re.search(r'(^|::)str::trim$|core::str::<impl str>::trim$', a_['k'].get('fn') or '')]
        R.check(bool(tr) or bool(trf), 'C05.R1', 'accept:trim' + tag, site(sp), 'list items are trimmed')

    # is_enabled itself: contains(&Some(encoding)) over self.inner
    with R.guard('C05.R1', 'is_enabled'):
        b = tonic.body('EnabledCompressionEncodings::is_enabled')
        R.saw(b)
        cont = b.calls(name='contains')
        anyc = b.calls(name='any')
        if cont:
            cb_, ct = cont[0]
            a0, a1 = b.origin(ct['args'][0]), b.origin(ct['args'][1])
            R.check(len(cont) == 1 and mentions_field(a0, 'inner') and ct['dest']['l'] == 0, 'C05.R1', 'is_enabled:inner' + tag, site(b, cb_), 'contains over %s' % show(a0))
            s1 = strip_refs(a1)
            R.check(s1[0] == 'agg' and s1[1].get('variant') == 'Some' and 'arg2' in show(s1), 'C05.R1', 'is_enabled:some(encoding)' + tag, site(b, cb_), 'needle = %s' % show(s1))
        elif anyc:
            cb_, ct = anyc[0]
            a0 = b.origin(ct['args'][0])
            R.check(len(anyc) == 1 and mentions_field(a0, 'inner') and ct['dest']['l'] == 0, 'C05.R1', 'is_enabled:inner' + tag, site(b, cb_), 'any() over %s' % show(a0))
            clo = strip_refs(b.origin(ct['args'][1]))
            okq = False
            if clo[0] == 'agg' and 'def' in clo[1]:
                qb = tonic.body(clo[1]['def'])
                for eb_, et in qb.calls(name='eq'):
                    sides = [strip_refs(qb.origin(a)) for a in et['args']]
                    okq = any(x[0] == 'agg' and x[1].get('variant') == 'Some' and 'encoding' in show(x) for x in sides) and et['dest']['l'] == 0
            R.check(okq, 'C05.R1', 'is_enabled:some(encoding)' + tag, site(b, cb_), 'any(|e| *e == Some(encoding)): %r' % okq)
        else:
            raise CheckError('UNRECOGNISED: is_enabled uses neither contains(&Some(encoding)) nor iter().any(|e| *e == Some(encoding))')

    # ---------------------------------------------------------------- R2 refusal path
    R.describe('C05.R2', 'refusal: Status::unimplemented + grpc-accept-encoding metadata built from the enabled set (or "identity")')
    with R.guard('C05.R2'):
        b = tonic.body('CompressionEncoding::from_encoding_header')
        errs = [(bb, i, ops) for bb, i, p, a, ops in returned_aggs(b, 'result::Result', 'Err')]
        R.floor('C05.R2', 'Err returns' + tag, len(errs), 1)
        for bb, i, ops in errs:
            st = b.origin(ops[0])
            R.check(mentions_call(st, pat='Status::unimplemented'), 'C05.R2', 'status-unimplemented' + tag, site(b, bb, i), 'Err payload = %s' % show(st)[:160])
        ins = [(bb, t) for bb, t in b.calls(name='insert') if 'Metadata' in (t.get('fn') or '')]
        R.check(len(ins) == 1, 'C05.R2', 'metadata-insert' + tag, site(b), 'metadata insert sites: %d' % len(ins))
        for bb, t in ins:
            k = const_val(b.origin(t['args'][1]))
            R.eq(k, comp['headers']['accept'], 'C05.R2', 'insert-key' + tag, site(b, bb), 'metadata key')
            v = b.origin(t['args'][2])
            en_n = param_of_type(b, r'EnabledCompressionEncodings$')
            R.check(mentions_call(v, name='into_accept_encoding_header_value') and mentions_arg(v, en_n), 'C05.R2', 'insert-value-from-enabled' + tag, site(b, bb), 'value = %s' % show(v)[:200])
            recv = b.origin(t['args'][0])
            R.check(mentions_call(recv, name='metadata_mut') and mentions_call(recv, pat='Status::unimplemented'), 'C05.R2', 'insert-into-status' + tag, site(b, bb), 'receiver = %s' % show(recv)[:160])
            for eb, i, ops in errs:
                R.check(b.dominates(bb, eb), 'C05.R2', 'insert-before-err' + tag, site(b, eb, i), 'the metadata insert dominates the Err return')
        # every refusal carries the list: each feasible path that returns an error — built here or handed on with `?` from a lookup
        # helper — goes through the insert (an unknown name must be answered like a known-but-disabled one)
        n_err = 0
        bare = []
        for cons_, path_ in mirlib.path_rows(b, stop=set(writers_of(b, 0))):
            k_, _ = classify_val(mirlib.simplify(b.ret_on_path(path_)))
            if k_ == 'err':
                n_err += 1
                if not any(bb_ in path_ for bb_, t_ in ins):
                    bare.append(path_[-1])
        R.check(n_err >= 1 and not bare, 'C05.R2', 'every-refusal-lists-accepted' + tag, site(b, bare[0]) if bare else site(b),
                'error paths of from_encoding_header: %d, of which %d return without inserting grpc-accept-encoding into the status' % (n_err, len(bare)))
        # fallback "identity"
        cl = [c for c in tonic.bodies if c.kind == 'closure' and (c.parent == b.path or any(c.path.startswith(h + '::') for h in getattr(tonic, 'inlined_helpers', [])))]
        idc = False
        for c in cl + [b]:
            for bb, t in c.calls(name='from_static'):
                if const_val(c.origin(t['args'][0])) == comp['identity'] and 'Metadata' in (t.get('fn') or ''):
                    if c is b:
                        # inline form: only on the None arm of into_accept_encoding_header_value()
                        idc = any(tm[0] == 'discr' and term_contains(tm, lambda x: is_call(x, name='into_accept_encoding_header_value')) and vals == [0] for s_, vals, tm in b.edge_guards(bb))
                    else:
                        idc = True
        R.check(idc, 'C05.R2', 'identity-fallback' + tag, site(b), 'an empty enabled set is advertised as "identity" (unwrap_or_else(|| from_static("identity")) or the None arm of a match)')

    # ---------------------------------------------------------------- R3 accept list
    R.describe('C05.R3', 'into_accept_encoding_header_value lists every enabled slot by as_str and appends identity; enable is idempotent and append-only; as_str table = spec tokens')
    with R.guard('C05.R3'):
        b = tonic.body('EnabledCompressionEncodings::into_accept_encoding_header_value')
        R.saw(b)
        it = [t for bb, t in b.calls(name='into_iter')]
        R.check(any(mentions_field(b.origin(t['args'][0]), 'inner') for t in it), 'C05.R3', 'iterates-inner' + tag, site(b), 'iterates self.inner')
        # pop() really removes: the slot it empties (Option::take) is a slot of self.inner reached through a mutable iterator, not a
        # copy of the array (the array is Copy: `.into_iter()` on it would empty a temporary and leave the encoding enabled)
        pp = tonic.find('compression::EnabledCompressionEncodings::pop')
        if pp:
            pp = pp[0]
            R.saw(pp)
            tk = [(bb_, t_) for bb_, t_ in pp.calls(name='take') if 'Option' in (t_.get('fn') or '')]
            okp = False
            for bb_, t_ in tk:
                src_ = pp.origin(t_['args'][0])
                okp = mentions_field(src_, 'inner') and arg_root(strip_refs(find_terms(src_, lambda y: isinstance(y, tuple) and y and y[0] == 'field' and y[2] == 'inner')[0])) == 1 \
                    and bool(find_terms(src_, lambda y: is_call(y) and y[3] in ('iter_mut', 'get_mut', 'index_mut', 'last_mut', 'first_mut'))) \
                    and not find_terms(src_, lambda y: is_call(y) and y[3] in ('into_iter', 'clone', 'iter') and 'IntoIterator' in y[1] + ' ' + str(y[4].get('trait') or ''))
            R.check(len(tk) == 1 and okp, 'C05.R3', 'pop-removes-in-place' + tag, site(pp), 'pop() takes the encoding out of a slot of self.inner (iter_mut): %r' % okp)
        R.check(bool(b.calls(name='flatten')), 'C05.R3', 'flatten' + tag, site(b), 'skips empty slots (flatten)')
        puts = b.calls(name='put_slice')
        srcs = [show(b.origin(t['args'][1])) for bb, t in puts]
        R.check(any('as_str' in s for s in srcs), 'C05.R3', 'writes-as_str' + tag, site(b), 'put_slice sources: %r' % srcs)
        R.check(any(const_val(b.origin(t['args'][1])) == comp['identity'].encode() or comp['identity'] in show(b.origin(t['args'][1])) for bb, t in puts), 'C05.R3', 'appends-identity' + tag, site(b), 'put_slice sources: %r' % srcs)
        R.check(any(const_val(b.origin(t['args'][1])) == ord(',') for bb, t in b.calls(name='put_u8')), 'C05.R3', 'comma' + tag, site(b), 'separator is ","')
        a = tonic.body('CompressionEncoding::as_str')
        R.saw(a)
        rows = decision_rows(a, 0, writers_of(a, 0))
        got = {}
        variants = {v['discr']: v['name'] for v in tonic.adt('codec::compression::CompressionEncoding')['variants']}
        for cons, bb in rows:
            d = cons_dict(cons)
            w = block_writes(a, bb, 0)
            ds = [v for k, v in d.items() if k.startswith('discr(')]
            s = const_str(w[0][1]) if w and w[0][0] == 'term' else None
            if ds and ds[0][0] == '==':
                got[variants.get(ds[0][1])] = s
            elif len(variants) == 1 and not ds:
                got[list(variants.values())[0]] = s
        for v, e in enabled.items():
            R.eq(got.get(v), e['token'], 'C05.R3', 'as_str:%s%s' % (v, tag), site(a), 'as_str(%s)' % v)
        R.eq(sorted(variants.values()), sorted(enabled), 'C05.R3', 'variants' + tag, site(a), 'CompressionEncoding variants under features %s' % sorted(tonic.features))
        hv = tonic.find('CompressionEncoding::into_header_value')
        if enabled:
            R.check(len(hv) == 1 and any(is_call(hv[0].origin(t['args'][0]), name='as_str') for bb, t in hv[0].calls(name='from_static')), 'C05.R3', 'into_header_value=as_str' + tag,
                    site(hv[0]) if hv else '', 'into_header_value = from_static(self.as_str())')
        en = tonic.body('EnabledCompressionEncodings::enable')
        R.saw(en)
        # writes only into a slot that matched None; returns when an equal Some is found
        wr = [(bb, i, st) for bb, i, st in mirlib.assignments(en, lambda st: st['p'].get('pr') == ['*'])]
        okw = bool(wr)
        for bb, i, st in wr:
            g = en.edge_guards(bb)
            val = strip_refs(en._origin_def(('stmt', bb, i, st['rv']), 0, set()))
            okw = okw and any('discr(' in show(t) and vals == [0] for s, vals, t in g) and val[0] == 'agg' and val[1].get('variant') == 'Some' and 'arg2' in show(val)
        R.check(okw, 'C05.R3', 'enable:fills-first-empty' + tag, site(en), 'slot writes: %d, each guarded by the slot being None' % len(wr))
        R.check(bool(en.calls(name='eq')) or bool(en.calls(name='ne')), 'C05.R3', 'enable:idempotent' + tag, site(en), 'an equal existing entry is detected (PartialEq)')

    # ---------------------------------------------------------------- R6 flag without encoding
    R.describe('C05.R6', 'decode_chunk: compressed flag with no negotiated encoding -> Err(Status::internal); any flag other than 0/1 -> Err(Status::internal)')
    with R.guard('C05.R6'):
        b = tonic.body('decode::StreamingInner::decode_chunk')
        R.saw(b)
        gb, gt = b.call1(name='get_u8')
        fterm = b.origin({'cp': gt['dest']})
        fsub = show(strip_casts(mirlib.simplify(fterm)))
        # the Err(Status) values (an Err of some helper conversion, e.g. TryFrom<u8>, is an intermediate value, not an outcome)
        errs = [(bb, i, ops) for bb, i, p, a, ops in mirlib.aggregates(b, 'result::Result', 'Err') if any(g_.endswith('Status') for g_ in (a.get('ga') or [])[1:2])]
        rb = [x for x in mirlib.aggregates(b, 'decode::State', 'ReadBody')]
        R.check(len(rb) == 1, 'C05.R6', 'readbody-site' + tag, site(b), 'State::ReadBody constructions: %d' % len(rb))
        if not rb:
            raise CheckError('ANCHOR-MISSING: State::ReadBody is not built in decode_chunk')
        rbb, rbi, rbp, rba, rbops = rb[0]

        def is_flag(sub):
            return sub == fsub

        def is_enc(sub):
            return sub.count('(') <= 3 and len(sub) < 140 and sub.rstrip(')').endswith('.encoding') and ('discr(' in sub or 'is_some' in sub or 'is_none' in sub)

        def row_of(cons):
            """(flag class, encoding class) of a path: flag in {0, 1, 'other', None(unconstrained)}; encoding in {'some','none',None}"""
            fl, en = None, None
            for sub, op, v in cons:
                if is_flag(sub):
                    if op == '==':
                        fl = v
                    elif op == 'notin' and set(v) >= {0, 1}:
                        fl = 'other'
                    elif op == '!=' and fl is None:
                        fl = fl
                elif is_enc(sub):
                    truthy = (op == '==' and v not in (0, False)) or (op == '!=' and v in (0, False)) or (op == 'notin' and 0 in v)
                    falsy = (op == '==' and v in (0, False)) or (op == '!=' and v not in (0, False))
                    pos = 'is_none' not in sub
                    if truthy:
                        en = 'some' if pos else 'none'
                    elif falsy:
                        en = 'none' if pos else 'some'
            return fl, en

        def status_kind(ops_):
            st = strip_refs(b.origin(ops_[0]))
            return 'internal' if is_call(st, pat='Status::internal') else ('out_of_range' if is_call(st, pat='Status::out_of_range') else show(st)[:40])
        eff = {bb: ('err', status_kind(ops)) for bb, i, ops in errs}
        eff[rbb] = ('readbody', None)
        rows = decision_rows(b, gt['t'], set(eff), relevant=lambda sub: is_flag(sub) or is_enc(sub))
        table = defaultdict(set)
        for cons, ebb in rows:
            table[row_of(cons)].add(eff[ebb])
        R.note('decode_chunk flag rows: %r' % {str(k): sorted(map(str, v)) for k, v in table.items()})
        flags_seen = {k[0] for k in table}
        R.check({0, 1, 'other'} <= flags_seen and None not in flags_seen, 'C05.R6', 'flag-values' + tag, site(b, gb), 'every path after the flag byte is read decides it as 0, 1 or other: %r' % sorted(map(str, flags_seen)))
        # flag 1 without a negotiated encoding -> INTERNAL, never a message
        f1none = set().union(*[v for k, v in table.items() if k[0] == 1 and k[1] in ('none', None)]) if any(k[0] == 1 and k[1] in ('none', None) for k in table) else set()
        R.check(('err', 'internal') in f1none, 'C05.R6', 'flag1-no-encoding-err' + tag, site(b, gb), 'flag 1 with no negotiated encoding ends in Err(Status::internal): outcomes %r' % sorted(f1none))
        R.check(('readbody', None) not in f1none and all(x == ('err', 'internal') for x in f1none), 'C05.R6', 'flag1-guard-encoding-none' + tag, site(b, gb), 'flag 1 with no negotiated encoding never reaches ReadBody: outcomes %r' % sorted(map(str, f1none)))
        fo = set().union(*[v for k, v in table.items() if k[0] == 'other']) if any(k[0] == 'other' for k in table) else set()
        R.check(fo == {('err', 'internal')}, 'C05.R6', 'flag-other-err' + tag, site(b, gb), 'a flag other than 0/1 only ends in Err(Status::internal): outcomes %r' % sorted(map(str, fo)))
        for k, v in table.items():
            if k[0] in (0, 1) and not (k[0] == 1 and k[1] in ('none', None)):
                R.check(('readbody', None) in v and all(x[0] == 'readbody' or x == ('err', 'out_of_range') for x in v), 'C05.R6', 'flag%s-accepted%s' % (k[0], tag), site(b, gb), 'flag %s (encoding %s) leads to ReadBody (or the size refusal): %r' % (k[0], k[1], sorted(map(str, v))))
        # the value stored as ReadBody.compression: None on the flag-0 paths, self.encoding on the flag-1 paths
        fields = rba['fields']
        # by feasible path from the flag read to the ReadBody construction: what is stored as ReadBody.compression
        prow = mirlib.path_rows(b, start=gt['t'], stop={rbb}, relevant=lambda sub: is_flag(sub) or is_enc(sub), limit=200000)
        nw = 0
        seenv = set()
        for cons, path in prow:
            if path[-1] != rbb:
                continue
            fl = row_of(cons)[0]
            val = strip_refs(mirlib.simplify(b.origin_on_path(rbops[fields.index('compression')], path)))
            kind = 'none' if (val[0] == 'agg' and val[1].get('variant') == 'None') else ('encoding' if mentions_field(val, 'encoding') else '?')
            if (fl, kind) in seenv:
                continue
            seenv.add((fl, kind))
            nw += 1
            if kind == 'none':
                R.check(fl == 0, 'C05.R6', 'flag0->identity' + tag, site(b, rbb), 'compression = None is stored exactly on the flag-0 paths: flag %r' % (fl,))
            elif kind == 'encoding':
                R.check(fl == 1, 'C05.R6', 'flag1->self.encoding' + tag, site(b, rbb), 'compression = self.encoding is stored exactly on the flag-1 paths: flag %r' % (fl,))
            else:
                R.bad('C05.R6', 'compression-sources' + tag, site(b, rbb), 'ReadBody.compression can be %s: neither None nor self.encoding' % show(val)[:100])
        R.check({(0, 'none'), (1, 'encoding')} <= seenv, 'C05.R6', 'compression-sources' + tag, site(b, rbb), 'flag 0 -> None and flag 1 -> self.encoding both occur: %r' % sorted(map(str, seenv)))
        R.floor('C05.R6', 'compression writers' + tag, nw, 2)

    # ---------------------------------------------------------------- R7 per-message opt-out
    R.describe('C05.R7', 'EncodedBytes::new: SingleMessageCompressionOverride::Disable clears the encoding before it is stored or used to size buffers')
    with R.guard('C05.R7'):
        b = tonic.body('encode::EncodedBytes::<T, U>::new')
        R.saw(b)
        aggs = mirlib.aggregates(b, 'encode::EncodedBytes')
        R.check(len(aggs) == 1, 'C05.R7', 'ctor' + tag, site(b), 'EncodedBytes aggregate sites: %d' % len(aggs))
        for bb, i, p, a, ops in aggs:
            f = a['fields']
            ENCF = enc_field(tonic, 'codec::encode::EncodedBytes')
            fo = agg_field_operand(b, a, ops, ENCF)
            if fo is None:
                raise CheckError('UNRECOGNISED: EncodedBytes::new stores no %s field (directly or in a sub-struct)' % ENCF)
            ce = mirlib.root_local(b, fo[0])
            ws = writers_of(b, ce)
            # stored as `effective.map(|encoding| Settings { encoding, .. })`: Some exactly when the effective encoding is
            for _ in range(2):
                if len(ws) == 1 and b.term(ws[0])['k'] == 'call' and b.term(ws[0]).get('name') == 'map' and 'Option' in (b.term(ws[0]).get('fn') or '') and b.term(ws[0])['dest']['l'] == ce:
                    ce = mirlib.root_local(b, b.term(ws[0])['args'][0])
                    ws = writers_of(b, ce)
            vals = {}
            for wb in ws:
                w = block_writes(b, wb, ce)
                g = b.edge_guards(wb)
                gd = [vals_ for s, vals_, t in g if 'discr(' in show(t) and ('override' in show(t) or 'arg' in show(t))]
                vals[wb] = (w[0][:3] if w[0][0] == 'variant' else ('term', show(w[0][1])), gd)
                tw_ = b.term(wb)
                if tw_['k'] == 'call' and tw_.get('name') == 'map' and 'Option' in (tw_.get('fn') or '') and tw_['dest']['l'] == ce and arg_root(strip_refs(b.origin(tw_['args'][0]))) is not None:
                    # `encoding_param.map(|encoding| Settings { encoding, .. })`: Some exactly when the parameter is
                    vals[wb] = (('term', show(b.origin(tw_['args'][0]))), gd)
            none_on_disable = any(v[0][0] == 'variant' and v[0][2] == 'None' for v in vals.values())
            passthrough = any(v[0][0] == 'term' and 'arg' in v[0][1] for v in vals.values())
            R.check(none_on_disable and passthrough and len(ws) == 2, 'C05.R7', 'override-table' + tag, site(b, bb, i), 'stored encoding writers: %r' % vals)
            # disable variant index
            ov = tonic.adt('compression::SingleMessageCompressionOverride')
            dis = [v['discr'] for v in ov['variants'] if v['name'] == 'Disable'][0]
            for wb, (val, gd) in vals.items():
                if val[0] == 'variant' and val[2] == 'None':
                    g = b.edge_guards(wb)
                    by_discr = any(dis in g_ for g_ in gd)
                    by_eq = any(is_call(t, name='eq') and term_contains(t, lambda x: x and x[0] == 'agg' and x[1].get('variant') == 'Disable') and 'arg4' in show(t) and (vals_ == ['else'] or (0 not in vals_ and 'else' not in vals_))
                                for s_, vals_, t in g)
                    R.check(by_discr or by_eq, 'C05.R7', 'none-only-on-disable' + tag, site(b, wb), 'None is stored only when the override equals Disable; guards: %r' % [(v_, show(t)[:80]) for s_, v_, t in g])
            # buffer sizing uses the effective encoding
            for cb_, ct in b.calls(name='is_some'):
                R.check(mirlib.root_local(b, ct['args'][0]) == ce or ENCF in show(b.origin(ct['args'][0])) or mirlib.root_local(b, strip_ref_operand(b, ct['args'][0])) == ce,
                        'C05.R7', 'buffers-use-effective' + tag, site(b, cb_), 'is_some receiver = %s' % show(b.origin(ct['args'][0])))


def strip_ref_operand(b, op):
    """&x operand -> local x"""
    p = op.get('cp') or op.get('mv')
    if p is None or p.get('pr'):
        return op
    ds = b.defs().get(p['l'], [])
    if len(ds) == 1 and ds[0][0] == 'stmt' and 'ref' in ds[0][3] and not ds[0][3]['ref'].get('pr'):
        return ds[0][3]['ref']['l']
    return op


def classify_result(b, w, opt_only=False):
    """classify what a row writes to _0: ('some', Variant) | ('none', None) | ('err', None) | (None, None)"""
    if not w:
        return None, None
    x = w[0]
    if x[0] == 'variant':
        name = x[2]
        ops = x[3]
        if name == 'None':
            return 'none', None
        if name == 'Some' and opt_only:
            inner = strip_refs(ops[0])
            if inner[0] == 'agg' and inner[1].get('adt', '').endswith('CompressionEncoding'):
                return 'some', inner[1]['variant']
            return None, None
        if name == 'Ok':
            inner = strip_refs(ops[0])
            if inner[0] == 'agg' and inner[1].get('variant') == 'None':
                return 'none', None
            if inner[0] == 'agg' and inner[1].get('variant') == 'Some':
                i2 = strip_refs(inner[2][0])
                if i2[0] == 'agg' and i2[1].get('adt', '').endswith('CompressionEncoding'):
                    return 'some', i2[1]['variant']
            return None, None
        if name == 'Err':
            return 'err', None
    return None, None


def pred_is_enabled(tonic, host, pb_):
    """|e| enabled_encodings.is_enabled(e): the receiver is the enabled-set parameter of the parser `host` (through captures and spliced
    helpers), the argument is the closure's own parameter"""
    prt = mirlib.returned_terms(pb_)
    if len(prt) == 1 and is_call(strip_refs(prt[0][1]), name='is_enabled'):
        ie = strip_refs(prt[0][1])
        recv = resolve_env(tonic, pb_, ie[2][0], within=family(tonic, host))
        en_n = param_of_type(host, r'EnabledCompressionEncodings$')
        return arg_root(strip_refs(recv)) == en_n and arg_root(strip_refs(ie[2][1])) == 2
    return False


def table_candidate(tonic, host, val):
    """val = the result of looking the wire name up in the constant table of encodings (`ENCODINGS.iter().copied().find(|e| e.as_str() ==
    name)`), possibly `.filter(pred)`-ed and projected (`as Some.0`): dict(rows=[(token, Variant)], guarded=bool|None, probe=term)"""
    x = strip_refs(val)
    for _ in range(8):
        if x and x[0] in ('field', 'variant'):
            x = strip_refs(x[1])
        elif is_call(x) and x[3] in ('branch', 'ok_or_else', 'ok_or') and x[2]:
            x = strip_refs(x[2][0])   # `lookup(name).ok_or_else(|| status)?`: the Continue payload is what the lookup found
        else:
            break
    guarded = None
    if is_call(x, name='filter') and 'Option' in x[1] and len(x[2]) == 2:
        fpb = tonic.body(re.compile('^' + re.escape(strip_refs(x[2][1])[1]['def']) + '$')) if strip_refs(x[2][1])[0] == 'agg' and strip_refs(x[2][1])[1].get('def') else None
        guarded = bool(fpb) and pred_is_enabled(tonic, host, fpb)
        x = strip_refs(x[2][0])
    tl = table_lookup(tonic, x)
    if not tl or tl['kind'] != 'find' or tl['value'] is not None:
        return None
    rows = []
    for e in tl['entries']:
        k = const_value(tonic, tl['key'](e)) if tl['key'](e) is not None else None
        if k is None or not (e and e[0] == 'agg' and (e[1].get('adt') or '').endswith('CompressionEncoding')):
            return None
        rows.append((k.decode() if isinstance(k, bytes) else k, e[1]['variant']))
    pcl = strip_refs(x[2][1])
    probe = tl['probe']
    if pcl and pcl[0] == 'agg' and pcl[1].get('def'):
        probe = resolve_env(tonic, tonic.body(re.compile('^' + re.escape(pcl[1]['def']) + '$')), probe, within=family(tonic, host))
    return dict(rows=rows, guarded=guarded, probe=probe)


def classify_val(val, opt_only=False):
    """classify a returned value term: ('some', Variant) | ('none', None) | ('err', None) | (None, None)"""
    x = strip_refs(val)
    if is_call(x, name='from_residual') and x[2] and term_contains(x[2][0], lambda y: y and y[0] == 'variant' and y[2] == 'Break') and 'Result' in x[1]:
        return 'err', None   # `?` on a Result: the Err is handed on
    if not (x and x[0] == 'agg'):
        return None, None
    name = x[1].get('variant')
    def enc_of(t_):
        t_ = strip_refs(t_)
        if t_ and t_[0] == 'agg' and (t_[1].get('adt') or '').endswith('CompressionEncoding'):
            return t_[1].get('variant')
        return None
    if name == 'None':
        return 'none', None
    if name == 'Some' and opt_only:
        e = enc_of(x[2][0])
        return ('some', e) if e else (None, None)
    if name == 'Ok':
        inner = strip_refs(x[2][0])
        if inner and inner[0] == 'agg' and inner[1].get('variant') == 'None':
            return 'none', None
        if inner and inner[0] == 'agg' and inner[1].get('variant') == 'Some':
            e = enc_of(inner[2][0])
            return ('some', e) if e else (None, None)
        return None, None
    if name == 'Err':
        return 'err', None
    return None, None


def path_guards_enabled(b, path):
    """{Variant: True/False} for the is_enabled(set, Variant) tests passed on this path (their operand as seen on the path)"""
    out = {}
    for bb, tm, vals in b.path_tests(path):
        c = strip_refs(tm)
        if is_call(c, name='is_enabled') and len(c[2]) >= 2:
            e = strip_refs(c[2][1])
            if e and e[0] == 'agg' and (e[1].get('adt') or '').endswith('CompressionEncoding'):
                truth = None
                if vals == [0]:
                    truth = False
                elif 0 not in vals:
                    truth = True
                out[e[1].get('variant')] = truth
    return out


def guards_enabled(cons):
    """{Variant: True/False} for is_enabled(.., Variant{}) tests on a row"""
    out = {}
    for s, op, v in cons:
        m = re.search(r'is_enabled\(.*?(\w+)\{\}\)$', s)
        if m:
            truth = None
            if op == '==' and v == 0:
                truth = False
            elif (op == 'notin' and 0 in v) or (op == '==' and v != 0) or (op == '!=' and v == 0):
                truth = True
            out[m.group(1)] = truth
    return out


def run_plumbing(R, tonic, comp, enabled):
    # ---------------------------------------------------------------- R4 server plumbing
    R.describe('C05.R4', 'server handlers: response encoding chosen from self.send_compression_encodings, request decoding checked against self.accept_compression_encodings; map_response announces and uses the same accept_encoding')
    with R.guard('C05.R4'):
        handlers = ['unary', 'server_streaming', 'client_streaming', 'streaming']
        n = 0
        mr = tonic.body('server::grpc::Grpc::<T>::map_response')
        R.saw(mr)
        # the response-encoding parameter of map_response, by type (not by name or position)
        enc_n = param_of_type(mr, enc_opt_pat(tonic))
        is_enc_param = lambda t_: (lambda x: x[0] == 'arg' and x[1] == enc_n)(strip_refs(t_))
        for h in handlers:
            co = tonic.body('server::grpc::Grpc::<T>::%s::{closure#0}' % h)
            R.saw(co)
            fa = co.calls(name='from_accept_encoding_header')
            R.check(len(fa) == 1, 'C05.R4', 'srv:%s:negotiates-once' % h, site(co), 'from_accept_encoding_header sites: %d' % len(fa))
            if not fa:
                continue
            bb, t = fa[0]
            a1 = co.origin(t['args'][1])
            base, names = field_path(a1)
            R.check(names[-1:] == ['send_compression_encodings'], 'C05.R4', 'srv:%s:send-set' % h, site(co, bb), 'enabled set passed = %s' % show(a1))
            a0 = co.origin(t['args'][0])
            R.check(mentions_call(a0, name='headers'), 'C05.R4', 'srv:%s:request-headers' % h, site(co, bb), 'headers = %s' % show(a0)[:100])
            acc_local = t['dest']['l']
            mrs = co.calls(pat='Grpc::<T>::map_response')
            R.check(len(mrs) >= 1, 'C05.R4', 'srv:%s:map_response' % h, site(co), 'map_response sites: %d' % len(mrs))
            for mb, mt in mrs:
                n += 1
                R.check(mirlib.root_local(co, mt['args'][enc_n - 1]) == acc_local, 'C05.R4', 'srv:%s:accept-encoding-flows' % h, site(co, mb), 'accept_encoding argument = %s' % show(co.origin(mt['args'][enc_n - 1]))[:120])
        R.floor('C05.R4', 'map_response call sites', n, 4)
        nb, nt = mr.call1(name='new_server')
        ns_ = tonic.body('codec::encode::EncodeBody::<T, U>::new_server')
        enc_arg = mr.origin(nt['args'][param_of_type(ns_, enc_opt_pat(tonic)) - 1])
        R.check(is_enc_param(enc_arg), 'C05.R4', 'map_response:encoder-gets-accept_encoding', site(mr, nb), 'EncodeBody::new_server encoding argument = %s' % show(enc_arg))
        ins = [(bb, t) for bb, t in mr.calls(name='insert') if const_val(mr.origin(t['args'][1])) == comp['headers']['encoding'] or (constdef(mr.origin(t['args'][1])) or '').endswith('ENCODING_HEADER')]
        if enabled:
            R.check(len(ins) == 1, 'C05.R4', 'map_response:announces', site(mr), 'grpc-encoding insert sites: %d' % len(ins))
            for bb, t in ins:
                v = mr.origin(t['args'][2])
                R.check(is_call(v, name='into_header_value') and term_contains(v[2][0], lambda x: isinstance(x, tuple) and x and x[0] == 'arg' and x[1] == enc_n), 'C05.R4', 'map_response:announced=used', site(mr, bb), 'header value = %s' % show(v))
                g = mr.edge_guards(bb)
                R.check(any(tm and tm[0] == 'discr' and is_enc_param(tm[1]) and vals == [1] for s, vals, tm in g), 'C05.R4', 'map_response:announce-iff-some', site(mr, bb),
                        'guards = %r' % [(v_, show(tm)) for s, v_, tm in g])
        else:
            R.check(len(ins) == 0, 'C05.R4', 'map_response:no-announce-without-features', site(mr), 'grpc-encoding insert sites: %d' % len(ins))
        rq = tonic.body('server::grpc::Grpc::<T>::request_encoding_if_supported')
        R.saw(rq)
        bb, t = rq.call1(name='from_encoding_header')
        base, names = field_path(rq.origin(t['args'][1]))
        R.check(names[-1:] == ['accept_compression_encodings'] and t['dest']['l'] == 0, 'C05.R4', 'srv:request-checked-against-accept-set', site(rq, bb), 'enabled set = %s' % show(rq.origin(t['args'][1])))
        for nm in ('map_request_unary::{closure#0}', 'map_request_streaming'):
            mb_ = tonic.body('server::grpc::Grpc::<T>::' + nm)
            R.saw(mb_)
            fam = [mb_] + [c for c in tonic.children(mb_) if c.kind == 'closure']
            rs = mb_.calls(name='request_encoding_if_supported')
            R.check(len(rs) == 1, 'C05.R4', 'srv:%s:checks-encoding' % nm.split(':')[0], site(mb_), 'request_encoding_if_supported sites: %d' % len(rs))
            nr = [(fb, bb, t) for fb in fam for bb, t in fb.calls(name='new_request')]
            R.check(len(nr) == 1, 'C05.R4', 'srv:%s:new_request' % nm.split(':')[0], site(mb_), 'Streaming::new_request sites: %d' % len(nr))
            for fb, bb, t in nr:
                e = fb.origin(t['args'][2])
                okk = mentions_call(e, name='request_encoding_if_supported') or 'encoding' in show(e)
                R.check(okk, 'C05.R4', 'srv:%s:decoder-gets-checked-encoding' % nm.split(':')[0], site(fb, bb), 'encoding argument = %s' % show(e)[:160])

    # ---------------------------------------------------------------- R5 client plumbing
    R.describe('C05.R5', 'client: grpc-encoding from send_compression_encodings (iff Some), grpc-accept-encoding from accept_compression_encodings; request body encoder gets send_compression_encodings; response checked against accept_compression_encodings')
    with R.guard('C05.R5'):
        pr = tonic.body('client::grpc::GrpcConfig::prepare_request')
        R.saw(pr)
        ins = pr.calls(name='insert')
        got = {}
        for bb, t in ins:
            k = pr.origin(t['args'][1])
            kn = const_val(k) if const_val(k) is not None else (constdef(k) or show(k))
            got[kn] = (bb, pr.origin(t['args'][2]))
        if enabled:
            e = got.get(comp['headers']['encoding'])
            R.check(e is not None and is_call(e[1], name='into_header_value') and 'send_compression_encodings' in show(e[1]), 'C05.R5', 'cli:grpc-encoding-from-send', site(pr, e[0]) if e else site(pr),
                    'grpc-encoding value = %s' % (show(e[1]) if e else None))
            if e:
                g = pr.edge_guards(e[0])
                R.check(any('send_compression_encodings' in show(tm) and 'discr(' in show(tm) and vals == [1] for s, vals, tm in g), 'C05.R5', 'cli:grpc-encoding-iff-some', site(pr, e[0]), 'guards = %r' % [(v_, show(tm)) for s, v_, tm in g])
        a = got.get(comp['headers']['accept'])
        R.check(a is not None and mentions_call(a[1], name='into_accept_encoding_header_value') and 'accept_compression_encodings' in show(a[1]), 'C05.R5', 'cli:accept-from-accept-set', site(pr, a[0]) if a else site(pr),
                'grpc-accept-encoding value = %s' % (show(a[1])[:160] if a else None))
        st = tonic.body('client::grpc::Grpc::<T>::streaming::{closure#0}')
        R.saw(st)
        fam = [st] + [c for c in tonic.bodies if c.path.startswith(st.path + '::') and c.kind == 'closure']
        nc = [(fb, bb, t) for fb in fam for bb, t in fb.calls(name='new_client')]
        R.check(len(nc) == 1, 'C05.R5', 'cli:new_client', site(st), 'EncodeBody::new_client sites: %d' % len(nc))
        for fb, bb, t in nc:
            names = field_names(fb.origin(t['args'][2]))
            R.check(names[-1:] == ['send_compression_encodings'], 'C05.R5', 'cli:encoder-gets-send', site(fb, bb), 'encoding argument = %s' % show(fb.origin(t['args'][2])))
        cr = tonic.body('client::grpc::Grpc::<T>::create_response')
        R.saw(cr)
        bb, t = cr.call1(name='from_encoding_header')
        base, names = field_path(cr.origin(t['args'][1]))
        R.check(names[-1:] == ['accept_compression_encodings'], 'C05.R5', 'cli:response-checked-against-accept', site(cr, bb), 'enabled set = %s' % show(cr.origin(t['args'][1])))
        # the check precedes every other outcome of create_response (also the trailers-only early returns)
        others = [x for x in writers_of(cr, 0) if x != bb and not (cr.term(x)['k'] == 'call' and cr.term(x).get('name') == 'from_residual' and term_contains(cr.origin(cr.term(x)['args'][0]), lambda y: is_call(y, name='from_encoding_header')))]
        notdom = [x for x in others if not cr.dominates(bb, x)]
        R.check(not notdom, 'C05.R5', 'cli:encoding-check-before-any-outcome', site(cr, notdom[0]) if notdom else site(cr, bb),
                'from_encoding_header dominates every write of the result (%d writers): %r — a trailers-only response with a grpc-encoding that is not enabled must still be refused' % (len(others), not notdom))
        fam = [cr] + [c for c in tonic.children(cr) if c.kind == 'closure']
        nr = [(fb, bb, t) for fb in fam for bb, t in fb.calls(name='new_response')]
        R.check(len(nr) == 1, 'C05.R5', 'cli:new_response', site(cr), 'Streaming::new_response sites: %d' % len(nr))
        for fb, bb, t in nr:
            e = show(fb.origin(t['args'][3]))
            R.check('encoding' in e, 'C05.R5', 'cli:decoder-gets-checked-encoding', site(fb, bb), 'encoding argument = %s' % e[:160])

    # ---------------------------------------------------------------- R8 who may write the negotiation headers
    R.describe('C05.R8', 'grpc-encoding and grpc-accept-encoding are written (insert / append / remove / entry) only by the client request builder, the server response builder and the refusal path - no layer of the workspace (tonic-web, health, reflection, transport) rewrites what a peer offered or announced')
    with R.guard('C05.R8'):
        ALLOWED = {
            'grpc-encoding': (r'client::grpc::GrpcConfig::prepare_request$', r'server::grpc::Grpc::<T>::map_response$'),
            'grpc-accept-encoding': (r'client::grpc::GrpcConfig::prepare_request$', r'codec::compression::CompressionEncoding::from_encoding_header$'),
        }
        n = 0
        seen_writers = set()
        for cname in ('tonic', 'tonic_web', 'tonic_health', 'tonic_reflection', 'tonic_types', 'tonic_prost'):
            for cr_ in R.crates(cname):
                for b, bb, t, k in header_writes(cr_, set(ALLOWED)):
                    R.saw(b)
                    n += 1
                    host = b.path
                    ok = any(re.search(p_, host) for p_ in ALLOWED[k]) or any(re.search(p_, (b.parent or '')) for p_ in ALLOWED[k])
                    if ok:
                        seen_writers.add((k, host.rsplit('::', 1)[-1] if '{' not in host else host))
                    R.check(ok, 'C05.R8', 'writer:%s:%s' % (k, short(host)[-70:]), site(b, bb),
                            '%s(%s) in %s - the header a peer sent or the handler stack announced is replaced or dropped outside the three negotiation sites' % (t.get('name'), k, cname))
        R.floor('C05.R8', 'writes of grpc-encoding / grpc-accept-encoding found in the library crates', n, 4)
