"""mirlib — analyses over the MIR facts emitted by engine/factgen.

Everything here works on the non-cleanup CFG of a body (unwind edges dropped, FalseEdge and
FalseUnwind already replaced by their real target by the driver).  No code under analysis is run.
"""
import json, os, re, glob
from collections import defaultdict, deque


class CheckError(Exception):
    """fail-closed error: anchor missing / unrecognised idiom"""


# --------------------------------------------------------------------------------------------
# loading

class Crate:
    def __init__(self, d, fname):
        self.name = d['crate']
        self.file = fname
        self.features = d['features']
        self.tys = d['tys']
        self.consts = d['consts']
        self.adts = d['adts']
        self.impls = d['impls']
        self.sigs = d['sigs']
        self.inlined_helpers = d.get('inlined_helpers', [])
        self.renamed_fns = d.get('renamed_fns', {})
        self.bodies = [Body(b, self) for b in d['bodies']]
        self.by_path = defaultdict(list)
        for b in self.bodies:
            self.by_path[b.path].append(b)
        # new helper functions that were spliced into their callers: kept aside for the places that name them as values
        # (`.ok_or_else(helper)`), never part of `bodies`
        self.helper_defs = {b['path']: Body(b, self) for b in d.get('helper_defs', [])}

    def const_fields(self):
        """{field name: variant} for fields of structs of this crate that hold the same field-less enum variant (typically None) in
        every value ever built: each aggregate of the struct stores that variant there (struct-update copies from another value of the
        same struct are neutral), and no body assigns to, or mutably borrows, a place ending in a field of that name.  Only field
        names that occur in exactly one struct of the crate are considered, so a projection `.name` identifies the struct.
        This is what makes a dormant extension point (`limit: Option<usize>` that is always None today) visible as dead code."""
        c = getattr(self, '_const_fields', None)
        if c is not None:
            return c
        owners = defaultdict(set)
        for path, ad in self.adts.items():
            if ad.get('kind') == 'struct':
                for f in ad['variants'][0]['fields']:
                    owners[f['n']].add(path)
        cand = {n: list(ps)[0] for n, ps in owners.items() if len(ps) == 1 and not str(n).isdigit()}
        seen = defaultdict(set)
        dirty = set()
        for b in self.bodies:
            if b.kind == 'promoted':
                continue
            for blk in b.blocks:
                for st in blk['stmts']:
                    if not isinstance(st, dict) or 'p' not in st:
                        continue
                    pf = place_fields(st['p'])
                    if pf and pf[-1] in cand:
                        dirty.add(pf[-1])
                    rv = st.get('rv') or {}
                    if 'ref' in rv and rv.get('mut'):
                        rf = place_fields(rv['ref'])
                        if rf and rf[-1] in cand:
                            dirty.add(rf[-1])
                    ag = rv.get('agg') if isinstance(rv, dict) else None
                    if isinstance(ag, dict) and ag.get('kind') == 'adt' and ag.get('fields'):
                        for fn_, op_ in zip(ag['fields'], rv.get('ops', [])):
                            if cand.get(fn_) != ag.get('adt'):
                                continue
                            src = op_.get('cp') or op_.get('mv')
                            val = None
                            if src is not None:
                                if place_fields(src)[-1:] == [fn_]:
                                    continue   # ..base: copied from another value of the same struct
                                if not src.get('pr'):
                                    ds = b.defs().get(src['l'], [])
                                    if len(ds) == 1 and ds[0][0] == 'stmt' and isinstance(ds[0][3].get('agg'), dict) and ds[0][3]['agg'].get('variant') and not ds[0][3].get('ops'):
                                        val = ds[0][3]['agg']['variant']
                            seen[fn_].add(val)
                t = blk['term']
                if t['k'] == 'call':
                    for a in t.get('args', []):
                        pass
        c = self._const_fields = {n: list(vs)[0] for n, vs in seen.items() if n not in dirty and len(vs) == 1 and list(vs)[0] is not None}
        return c

    def find(self, pat, kind=None):
        """bodies whose path equals pat, or ends with '::'+pat, or (if pat is a regex object) matches"""
        out = []
        for b in self.bodies:
            if kind and b.kind != kind:
                continue
            if hasattr(pat, 'search'):
                if pat.search(b.path):
                    out.append(b)
            elif b.path == pat or b.path.endswith('::' + pat):
                out.append(b)
        return out

    def body(self, pat, kind=None):
        r = self.find(pat, kind)
        if len(r) != 1:
            raise CheckError('ANCHOR-MISSING: body %r in crate %s matched %d items%s' % (
                getattr(pat, 'pattern', pat), self.name, len(r),
                (': ' + ', '.join(b.path for b in r[:5])) if r else ''))
        return r[0]

    def const(self, pat):
        r = [(k, v) for k, v in self.consts.items() if k == pat or k.endswith('::' + pat)]
        if len(r) != 1:
            raise CheckError('ANCHOR-MISSING: const %r in crate %s matched %d' % (pat, self.name, len(r)))
        return r[0][1]

    def adt(self, pat):
        r = [(k, v) for k, v in self.adts.items() if k == pat or k.endswith('::' + pat)]
        if len(r) != 1:
            raise CheckError('ANCHOR-MISSING: adt %r in crate %s matched %d' % (pat, self.name, len(r)))
        return r[0][1]

    def sig(self, pat):
        r = [(k, v) for k, v in self.sigs.items() if k == pat or k.endswith('::' + pat)]
        if len(r) != 1:
            raise CheckError('ANCHOR-MISSING: sig %r in crate %s matched %d' % (pat, self.name, len(r)))
        return r[0][1]

    def children(self, body):
        """closures / coroutines / promoteds directly nested in body"""
        return [b for b in self.bodies if b.parent == body.path]


_KNOWN_FNS = None


def known_fns():
    global _KNOWN_FNS
    if _KNOWN_FNS is None:
        p = os.path.join(os.path.dirname(os.path.abspath(__file__)), '..', 'spec', 'known_fns.json')
        try:
            with open(p) as fh:
                _KNOWN_FNS = {k: set(v) for k, v in json.load(fh).items()}
        except OSError:
            _KNOWN_FNS = {}
    return _KNOWN_FNS


_KNOWN_SIGS = None


def known_sigs():
    global _KNOWN_SIGS
    if _KNOWN_SIGS is None:
        p = os.path.join(os.path.dirname(os.path.abspath(__file__)), '..', 'spec', 'known_sigs.json')
        try:
            with open(p) as fh:
                _KNOWN_SIGS = json.load(fh)
        except OSError:
            _KNOWN_SIGS = {}
    return _KNOWN_SIGS


_KNOWN_FPS = None


def known_fps():
    global _KNOWN_FPS
    if _KNOWN_FPS is None:
        p = os.path.join(os.path.dirname(os.path.abspath(__file__)), '..', 'spec', 'known_fps.json')
        try:
            with open(p) as fh:
                _KNOWN_FPS = json.load(fh)
        except OSError:
            _KNOWN_FPS = {}
    return _KNOWN_FPS


def fingerprint(bdict):
    """what a function body does, as a set: the item names it calls (non-cleanup blocks), the enum variants / structs it
    builds and the string constants it mentions — stable under renaming of the function, its parameters and locals"""
    out = set()
    for blk in bdict['blocks']:
        if blk.get('cleanup'):
            continue
        t = blk['term']
        if t['k'] in ('call', 'tailcall') and t.get('name'):
            if not t.get('mac') or all(m in ('desugar::QuestionMark',) or m.startswith('desugar') for m in t.get('mac', [])):
                out.add('c:' + t['name'])
        for st in blk['stmts']:
            rv = st.get('rv') or {}
            if 'agg' in rv and rv['agg'].get('kind') == 'adt':
                out.add('a:%s::%s' % ((rv['agg'].get('adt') or '').split('::')[-1], rv['agg'].get('variant')))
    return out


def alias_renamed(dd, known, ksigs):
    """a function of the pinned tree that is gone, while exactly one new function has the same parameter types (as a
    multiset) and return type, was renamed or moved: give the new function the old path everywhere in the facts, so that
    rules keep finding it (and it is not spliced into its callers).  Pure bookkeeping: cannot make a rule fire or pass."""
    cur = {b['path']: b for b in dd['bodies'] if b['kind'] == 'fn'}
    missing = [p for p in known if p not in cur and p in ksigs]
    if not missing:
        return
    tys = dd['tys']
    new = {}
    for p_, b in cur.items():
        if p_ not in known:
            new[p_] = [tys[b['locals'][0]], sorted(tys[b['locals'][i]] for i in range(1, b['argc'] + 1))]
    if not new:
        return
    ren = {}
    for m in missing:
        cands = [n for n, sg in new.items() if sg == ksigs[m]]
        if len(cands) == 1:
            ren.setdefault(cands[0], []).append(m)
    ren = {n: ms[0] for n, ms in ren.items() if len(ms) == 1}
    # ambiguous the other way round (two missing functions with the same signature and two new ones) is left alone
    # second stage: the signature changed too (parameters bundled in a struct, free function turned into a method ..):
    # match by what the body does (fingerprint), only when the best candidate is clearly ahead
    kfp = known_fps().get(dd['crate'], {})
    left_m = [m for m in missing if m not in ren.values() and len(kfp.get(m, [])) >= 4]
    left_n = {n: fingerprint(cur[n]) for n in new if n not in ren}
    pairs = []
    # how many functions called the vanished one then / call the new one now: a new function with clearly more callers is a
    # shared helper that absorbed the old one's body (it is spliced into its callers instead of being taken for a rename)
    n_callers_then = lambda m_: len([1 for fp_ in kfp.values() if ('c:' + m_.rsplit('::', 1)[-1]) in fp_])
    n_callers_now = lambda n_: len([1 for b_ in cur.values() if ('c:' + n_.rsplit('::', 1)[-1]) in fingerprint(b_)])
    for m in left_m:
        fm = set(kfp[m])
        scored = sorted(((len(fm & fn_) / float(len(fm | fn_) or 1), n) for n, fn_ in left_n.items()), reverse=True)
        if scored and scored[0][0] >= 0.6 and (len(scored) == 1 or scored[0][0] - scored[1][0] >= 0.15):
            if n_callers_now(scored[0][1]) > n_callers_then(m) + 1:
                continue
            pairs.append((scored[0][0], m, scored[0][1]))
    used_n = {}
    # one new function that is the best match of several vanished ones took over all their jobs (a merge, e.g. four per-kind
    # generators folded into one parametrised generator): not a rename — it is left to be spliced into its callers
    merged = {n for n in {n for _, _, n in pairs} if len([1 for _, m_, n_ in pairs if n_ == n]) > 1}
    for sc, m, n in sorted(pairs, reverse=True):
        if n not in used_n and n not in ren and n not in merged:
            used_n[n] = m
    for n, m in used_n.items():
        ren[n] = m
    # third stage: role by distinctive callee — an item that exactly one function of the pinned tree called, and that function is
    # gone, while exactly one function calls it now and that function is new: the new function took over the old one's job
    callers_then = defaultdict(set)
    for m_, fp_ in kfp.items():
        for c in fp_:
            if c.startswith('c:'):
                callers_then[c].add(m_)
    callers_now = defaultdict(set)
    for n_, b_ in cur.items():
        for c in fingerprint(b_):
            if c.startswith('c:'):
                callers_now[c].add(n_)
    votes = defaultdict(set)
    for c, ms in callers_then.items():
        if len(ms) == 1 and len(callers_now.get(c, ())) == 1:
            m_, n_ = list(ms)[0], list(callers_now[c])[0]
            if m_ in missing and m_ not in ren.values() and n_ in new and n_ not in ren:
                votes[m_].add(n_)
    taken = set()
    nvotes = defaultdict(set)
    for m_, ns in votes.items():
        for n_ in ns:
            nvotes[n_].add(m_)
    for m_, ns in sorted(votes.items()):
        if len(ns) == 1 and list(ns)[0] not in taken and len(nvotes[list(ns)[0]]) == 1 and list(ns)[0] not in merged:
            ren[list(ns)[0]] = m_
            taken.add(list(ns)[0])
    if not ren:
        return
    olds = sorted(ren, key=len, reverse=True)

    def fix(sv):
        for o in olds:
            if sv == o or sv.startswith(o + '::'):
                return ren[o] + sv[len(o):]
        return sv

    def walk(x):
        if isinstance(x, dict):
            changed_fn = False
            for k, v in list(x.items()):
                if isinstance(v, str):
                    nv = fix(v) if '::' in v else v
                    if nv is not v and nv != v:
                        x[k] = nv
                        if k == 'fn':
                            changed_fn = True
                else:
                    walk(v)
            if changed_fn and 'name' in x:
                x['name'] = x['fn'].split('::')[-1]
        elif isinstance(x, list):
            for i, v in enumerate(x):
                if isinstance(v, str):
                    if '::' in v:
                        x[i] = fix(v)
                else:
                    walk(v)
    walk(dd['bodies'])
    for key in ('consts', 'sigs'):
        if isinstance(dd.get(key), dict):
            dd[key] = {fix(k): v for k, v in dd[key].items()}
            walk(dd[key])
    dd['renamed_fns'] = {o: ren[o] for o in olds}


def load_dir(d, names=None, raw=False):
    """load fact files from directory d; returns {crate_name: [Crate,...]}"""
    out = defaultdict(list)
    for f in sorted(glob.glob(os.path.join(d, '*.json'))):
        base = os.path.basename(f)
        cname = base.rsplit('-', 1)[0]
        if names is not None and cname not in names:
            continue
        with open(f) as fh:
            dd = json.load(fh)
        if raw:
            out[cname].append(dd)
            continue
        kn = known_fns().get(dd['crate'])
        if kn is not None:
            alias_renamed(dd, kn, known_sigs().get(dd['crate'], {}))
            inline_new_helpers(dd, kn)
        out[cname].append(Crate(dd, f))
    return out


# --------------------------------------------------------------------------------------------
# splicing of new helper functions into their callers

def _renumber(x, loff, boff):
    """deep copy of a statement / terminator / names entry of the callee with locals shifted by loff"""
    if isinstance(x, dict):
        ks = set(x.keys())
        if 'l' in ks and ks <= {'l', 'pr'} and isinstance(x['l'], int):
            o = {'l': x['l'] + loff}
            if 'pr' in x:
                o['pr'] = [({'ix': e['ix'] + loff} if isinstance(e, dict) and 'ix' in e else e) for e in x['pr']]
            return o
        return {k: _renumber(v, loff, boff) for k, v in x.items()}
    if isinstance(x, list):
        return [_renumber(v, loff, boff) for v in x]
    return x


def _relocal(x, m):
    """deep copy with local numbers replaced according to m (places and index projections)"""
    if isinstance(x, dict):
        ks = set(x.keys())
        if 'l' in ks and ks <= {'l', 'pr'} and isinstance(x['l'], int):
            o = {'l': m.get(x['l'], x['l'])}
            if 'pr' in x:
                o['pr'] = [({'ix': m.get(e['ix'], e['ix'])} if isinstance(e, dict) and 'ix' in e else e) for e in x['pr']]
            return o
        return {k: _relocal(v, m) for k, v in x.items()}
    if isinstance(x, list):
        return [_relocal(v, m) for v in x]
    return x


def _shift_term(t, boff, dest, target, unwind, ln):
    """callee terminator -> list of extra statements, new terminator"""
    k = t['k']
    if k == 'ret':
        st = [{'p': dest, 'rv': {'use': {'mv': {'l': t['_ret']}}}, 'ln': ln, 'inl': True}]
        if target is None:
            return st, {'k': 'unreachable', 'ln': ln}
        return st, {'k': 'goto', 't': target, 'ln': ln}
    if k == 'resume':
        if isinstance(unwind, int):
            return [], {'k': 'goto', 't': unwind, 'ln': ln}
        return [], t
    t = dict(t)
    for key in ('t', 'else', 'drop', 'false_edge'):
        if isinstance(t.get(key), int):
            t[key] = t[key] + boff
    if isinstance(t.get('u'), int):
        t['u'] = t['u'] + boff
    elif 'u' in t and t['u'] in ('continue', None) and isinstance(unwind, int) and k in ('call', 'drop', 'assert'):
        t['u'] = unwind
    if 'arms' in t:
        t['arms'] = [[v, tb + boff] for v, tb in t['arms']]
    return [], t


def inline_new_helpers(dd, known, max_rounds=4):
    """dd: crate fact dict.  Every call to a crate-local `fn` whose path is not in `known` (a helper added after the pinned
    tree) is replaced by the helper's body (blocks spliced, locals renumbered, arguments bound by assignments, returns turned
    into an assignment to the call's destination).  The helper bodies themselves are dropped from the crate afterwards, so
    rules see one body per original function.  Recursion and generic trait dispatch are left alone."""
    helpers = {b['path']: b for b in dd['bodies'] if b['kind'] == 'fn' and b['path'] not in known}
    if not helpers:
        return
    used = set()
    for rnd in range(max_rounds):
        changed = False
        for b in dd['bodies']:
            blocks = b['blocks']
            nb0 = len(blocks)
            for bi in range(nb0):
                t = blocks[bi]['term']
                if t['k'] != 'call':
                    continue
                # a direct call, or a trait method call that resolves to an impl written after the pinned tree (e.g. TryFrom / PartialEq
                # of a new private type)
                hkey = t.get('fn') if t.get('fn') in helpers else (t.get('resolved') if t.get('resolved') in helpers else None)
                # the derivable std traits stay calls: `a == b` on a new private enum reads better as eq(a, b) than as its expansion
                if hkey is not None and hkey not in (t.get('fn'),) and t.get('name') in ('eq', 'ne', 'fmt', 'clone', 'hash', 'partial_cmp', 'cmp', 'default'):
                    hkey = None
                if hkey is None:
                    continue
                h = helpers[hkey]
                if h is b or len(t['args']) != h['argc']:
                    continue
                if len(h['blocks']) > 400 or len(blocks) > 4000:
                    continue
                used.add(h['path'])
                changed = True
                loff = len(b['locals'])
                boff = len(blocks)
                b['locals'] = b['locals'] + h['locals']
                ln = t.get('ln')
                for n in h['names']:
                    nn = _renumber(n, loff, boff)
                    nn.pop('arg', None)
                    b['names'].append(nn)
                # opt-in (VERIF_SPLICE_RENAME=1, set by a rule module before it loads its crate): a helper whose result goes straight
                # into a plain local of the caller writes that local itself, and a parameter that receives a moved plain local *is*
                # that local - so `return self.helper(x)` reads like the code it replaced (no moved temporaries in between)
                relmap = {}
                if os.environ.get('VERIF_SPLICE_RENAME') == '1':
                    if isinstance(t.get('dest'), dict) and not t['dest'].get('pr'):
                        relmap[loff] = t['dest']['l']
                    for i_, a_ in enumerate(t['args']):
                        src_ = a_.get('mv') if isinstance(a_, dict) else None
                        if isinstance(src_, dict) and not src_.get('pr') and isinstance(src_.get('l'), int):
                            relmap[loff + 1 + i_] = src_['l']
                first_new = len(blocks)
                for hb in h['blocks']:
                    nbk = {'stmts': [_renumber(s, loff, boff) for s in hb['stmts']]}
                    if hb.get('cleanup') or blocks[bi].get('cleanup'):
                        nbk['cleanup'] = True
                    ht = _renumber(hb['term'], loff, boff)
                    ht['_ret'] = loff
                    extra, nt = _shift_term(ht, boff, t['dest'], t.get('t'), t.get('u'), ln)
                    nt.pop('_ret', None)
                    # a generic helper: remember the type arguments of this call on what was spliced in (calls and the
                    # closures it builds), so that `T::f(..)` inside can be read with the caller's T
                    if t.get('ga'):
                        if nt.get('k') == 'call':
                            nt['inl_ga'] = list(t['ga'])
                        for s_ in nbk['stmts']:
                            rv_ = s_.get('rv') if isinstance(s_, dict) else None
                            if isinstance(rv_, dict) and isinstance(rv_.get('agg'), dict) and rv_['agg'].get('kind') in ('closure', 'coroutine', 'coroutine_closure'):
                                rv_['agg'] = dict(rv_['agg'], inl_ga=list(t['ga']))
                    nbk['stmts'].extend(extra)
                    nbk['term'] = nt
                    blocks.append(nbk)
                binds = [{'p': {'l': loff + 1 + i}, 'rv': {'use': a}, 'ln': ln, 'inl': True} for i, a in enumerate(t['args']) if (loff + 1 + i) not in relmap]
                if relmap:
                    for nb_ in blocks[first_new:]:
                        nb_['stmts'] = [_relocal(s_, relmap) for s_ in nb_['stmts']
                                        if not (isinstance(s_, dict) and s_.get('inl') and loff in relmap and s_.get('p') == t['dest'] and (s_.get('rv') or {}).get('use') == {'mv': {'l': loff}})]
                        nb_['term'] = _relocal(nb_['term'], relmap)
                blocks[bi]['stmts'] = blocks[bi]['stmts'] + binds
                blocks[bi]['term'] = {'k': 'goto', 't': boff, 'ln': ln, 'inlined': h['path']}
        if not changed:
            break
    dd['helper_defs'] = [b for b in dd['bodies'] if b['path'] in used and b['kind'] == 'fn']
    dd['bodies'] = [b for b in dd['bodies'] if not (b['path'] in used and b['kind'] == 'fn')]
    dd['inlined_helpers'] = sorted(used)


# --------------------------------------------------------------------------------------------
# bodies

class Body:
    def __init__(self, d, crate):
        self.crate = crate
        self.path = d['path']
        self.kind = d['kind']
        self.file = d.get('file')
        self.line = d.get('line')
        self.exp = d.get('exp')
        self.parent = d.get('parent')
        self.argc = d['argc']
        self.local_tys = d['locals']
        self.names_raw = d['names']
        self.blocks = d['blocks']
        self._succ = None
        self._pred = None
        self._dom = None
        self._defs = None

    def __repr__(self):
        return '<Body %s>' % self.path

    # ---- basic info
    def ty(self, local):
        return self.crate.tys[self.local_tys[local]]

    def tystr(self, tid):
        return self.crate.tys[tid]

    def local_named(self, name):
        """locals (no projection) carrying source name `name`"""
        return [n['p']['l'] for n in self.names_raw if n['n'] == name and not n['p'].get('pr')]

    def name_of(self, local):
        for n in self.names_raw:
            if n['p']['l'] == local and not n['p'].get('pr'):
                return n['n']
        return None

    def upvar_names(self):
        """names bound to projections of _1 (captured variables)"""
        return {n['n']: n['p'] for n in self.names_raw if n['p']['l'] == 1 and n['p'].get('pr')}

    def loc(self, bb, stmt=None):
        b = self.blocks[bb]
        if stmt is None:
            ln = b['term'].get('ln')
        else:
            ln = b['stmts'][stmt].get('ln')
        return '%s:%s' % (self.file, ln)

    # ---- CFG
    def term(self, bb):
        return self.blocks[bb]['term']

    def succs(self, bb):
        if self._succ is None:
            self._succ = [self._succs(i) for i in range(len(self.blocks))]
        return self._succ[bb]

    def _succs(self, bb):
        t = self.blocks[bb]['term']
        k = t['k']
        if k == 'goto':
            return [t['t']]
        if k == 'switch':
            only = self._const_field_switch(bb)
            if only is not None:
                return [only]
            r = []
            for v, tb in t['arms']:
                if tb not in r:
                    r.append(tb)
            if t['else'] not in r:
                r.append(t['else'])
            return r
        if k in ('call', 'drop', 'assert'):
            return [t['t']] if t.get('t') is not None else []
        if k == 'yield':
            return [t['t']]  # the drop edge is the cancellation path, treated like unwind
        return []

    def _const_field_switch(self, bb):
        """the one successor of a switch on the discriminant of a struct field that holds the same variant in every value the crate ever
        builds (Crate.const_fields: a dormant `Option` extension point that is always None), else None"""
        if self.crate is None or self.kind == 'promoted':
            return None
        cf = self.crate.const_fields()
        if not cf:
            return None
        t = self.blocks[bb]['term']
        pl = t['on'].get('cp') or t['on'].get('mv')
        if pl is None or pl.get('pr'):
            return None
        ds = []
        for b2, blk in enumerate(self.blocks):
            for st in blk['stmts']:
                if isinstance(st, dict) and st.get('p') and not st['p'].get('pr') and st['p']['l'] == pl['l']:
                    ds.append(st)
        if len(ds) != 1 or 'discr' not in (ds[0].get('rv') or {}):
            return None
        src = ds[0]['rv']['discr']
        if not (src.get('pr') and isinstance(src['pr'][-1], dict) and 'f' in src['pr'][-1]):
            return None
        var = cf.get(place_fields(src)[-1])
        if var is None:
            return None
        val = [v for v, n in ds[0]['rv'].get('variants', []) if n == var]
        if len(val) != 1:
            return None
        for v, tb in t['arms']:
            if v == val[0]:
                return tb
        return t['else']

    def preds(self, bb):
        if self._pred is None:
            self._pred = [[] for _ in self.blocks]
            for i in range(len(self.blocks)):
                if self.blocks[i].get('cleanup'):
                    continue
                for s in self.succs(i):
                    self._pred[s].append(i)
        return self._pred[bb]

    def reachable(self, start=0, removed=(), removed_edges=()):
        """blocks reachable from start (inclusive) without entering `removed` blocks"""
        removed = set(removed)
        removed_edges = set(removed_edges)
        starts = [start] if isinstance(start, int) else list(start)
        seen = set()
        dq = deque(s for s in starts if s not in removed)
        seen.update(dq)
        while dq:
            b = dq.popleft()
            for s in self.succs(b):
                if s in seen or s in removed or (b, s) in removed_edges:
                    continue
                seen.add(s)
                dq.append(s)
        return seen

    def live_blocks(self):
        return self.reachable(0)

    def dominators(self):
        """dom[b] = set of blocks dominating b (over blocks reachable from 0)"""
        if self._dom is not None:
            return self._dom
        live = sorted(self.live_blocks())
        allb = set(live)
        dom = {b: set(allb) for b in live}
        dom[0] = {0}
        changed = True
        # reverse post-order would be faster; bodies are small
        while changed:
            changed = False
            for b in live:
                if b == 0:
                    continue
                ps = [p for p in self.preds(b) if p in dom]
                if not ps:
                    continue
                new = set.intersection(*(dom[p] for p in ps)) | {b}
                if new != dom[b]:
                    dom[b] = new
                    changed = True
        self._dom = dom
        return dom

    def dominates(self, a, b):
        d = self.dominators()
        return b in d and a in d[b]

    def return_blocks(self):
        return [b for b in self.live_blocks() if self.term(b)['k'] == 'ret']

    def must_pass(self, frm, to, via):
        """True iff every path frm -> to passes through a block in `via` (to unreachable = vacuous True)"""
        via = set(via)
        if frm in via or to in via:
            return True
        return to not in self.reachable(frm, removed=via)

    # ---- calls
    def calls(self, pat=None, name=None, live_only=True):
        """[(bb, term)] for call terminators; pat: regex or substring on resolved fn path; name: item name"""
        out = []
        live = self.live_blocks() if live_only else range(len(self.blocks))
        for bb in sorted(live):
            t = self.blocks[bb]['term']
            if t['k'] not in ('call', 'tailcall'):
                continue
            if name is not None and t.get('name') != name:
                continue
            if pat is not None:
                fn = t.get('fn') or ''
                res = t.get('resolved') or ''
                if hasattr(pat, 'search'):
                    if not (pat.search(fn) or pat.search(res)):
                        continue
                elif pat not in fn and pat not in res:
                    continue
            out.append((bb, t))
        return out

    def call1(self, pat=None, name=None):
        r = self.calls(pat, name)
        if len(r) != 1:
            raise CheckError('ANCHOR-MISSING: call %r/%r in %s matched %d sites' % (
                getattr(pat, 'pattern', pat), name, self.path, len(r)))
        return r[0]

    # ---- defs / origins
    def defs(self):
        """local -> list of ('stmt', bb, i, rv) | ('call', bb, term) | ('yield', bb, term) defining the
        whole local (no projection)"""
        if self._defs is not None:
            return self._defs
        d = defaultdict(list)
        pd = defaultdict(list)  # partial (projected) writes
        for bb, blk in enumerate(self.blocks):
            if blk.get('cleanup'):
                continue
            for i, st in enumerate(blk['stmts']):
                if 'p' in st:
                    if st['p'].get('pr'):
                        pd[st['p']['l']].append(('stmt', bb, i, st['rv'], st['p']))
                    else:
                        d[st['p']['l']].append(('stmt', bb, i, st['rv']))
                elif 'setdiscr' in st:
                    pd[st['setdiscr']['l']].append(('setdiscr', bb, i, st['variant'], st['setdiscr']))
            t = blk['term']
            if t['k'] == 'call':
                if t['dest'].get('pr'):
                    pd[t['dest']['l']].append(('call', bb, t, t['dest']))
                else:
                    d[t['dest']['l']].append(('call', bb, t))
            elif t['k'] == 'yield':
                ra = t['resume_arg']
                if not ra.get('pr'):
                    d[ra['l']].append(('yield', bb, t))
        self._defs = d
        self._pdefs = pd
        return d

    def partial_defs(self):
        self.defs()
        return self._pdefs

    def origin(self, x, depth=0, seen=None):
        """Backward def-use to a normalised origin term.

        x: operand dict ({'cp':place}|{'mv':place}|{'k':const}) or place dict or int local.
        Result terms (tuples):
          ('const', value, constdict) ('arg', n, name) ('upvar', name) ('field', base_term, name)
          ('deref', base) ('call', fnpath, [arg terms], name, term) ('agg', aggdict, [op terms])
          ('bin', op, a, b) ('un', op, a) ('cast', kind, a) ('discr', base) ('ref', base)
          ('local', n) ('phi', [terms]) ('variant', base, name) ('index', base) ('yield',)
        """
        if seen is None:
            seen = set()
        if depth > 120:
            return ('deep',)
        if isinstance(x, int):
            return self._origin_local(x, depth, seen)
        if 'k' in x:
            c = x['k']
            if 'fn' in c:
                return ('fnitem', c['fn'], c)
            if 'v' in c:
                return ('const', c['v'], c)
            if 'bytes' in c:
                return ('const', bytes(c['bytes']), c)
            if 'def' in c and 'promoted' in c:
                pb = self.crate.by_path.get('%s::{promoted#%d}' % (c['def'], c['promoted']))
                if pb and depth < 110:
                    rets = [pb[0]._origin_def(d, depth + 1, {0}) for d in pb[0].defs().get(0, [])]
                    if len(rets) == 1:
                        return rets[0]
                return ('promoted', c['def'], c['promoted'])
            if 'def' in c:
                return ('constdef', c['def'], c)
            return ('const', None, c)
        if 'cp' in x:
            return self._origin_place(x['cp'], depth, seen)
        if 'mv' in x:
            return self._origin_place(x['mv'], depth, seen)
        if 'l' in x:
            return self._origin_place(x, depth, seen)
        return ('unknown',)

    def origin_on_path(self, x, path):
        """origin of x as seen at the end of the (acyclic) block sequence `path`: a local assigned in several blocks takes the
        value of its last assignment on the path instead of a phi"""
        self._path = {bb: i for i, bb in enumerate(path)}
        try:
            return self.origin(x)
        finally:
            self._path = None

    def path_tests(self, path):
        """[(bb, operand term as seen on this path (phis resolved, simplified), values of the edge taken)] for every switch on path"""
        out = []
        for k, bb in enumerate(path[:-1]):
            t = self.term(bb)
            if t['k'] != 'switch':
                continue
            vals = self.switch_edges(bb).get(path[k + 1])
            if vals is None:
                continue
            out.append((bb, simplify(self.origin_on_path(t['on'], path[:k + 1])), vals))
        return out

    def edge_truth(self, bb, vals):
        """truth of a boolean switch operand on the edge carrying `vals`: False on the 0 arm, True on every other one"""
        if vals == [0]:
            return False
        if 0 in vals:
            return None
        if vals == ['else']:
            arms = [v for v, _ in self.term(bb)['arms']]
            return True if 0 in arms else None
        return True if 'else' not in vals else None

    def ret_on_path(self, path, local=0):
        """the value the return slot (or `local`) holds at the end of `path`"""
        pos = {bb: i for i, bb in enumerate(path)}
        on = [d for d in self.defs().get(local, []) if d[1] in pos]
        if not on:
            return ('unset',)
        d = max(on, key=lambda d_: (pos[d_[1]], d_[2] if d_[0] == 'stmt' else 1 << 30))
        self._path = pos
        try:
            return self._origin_def(d, 0, {local})
        finally:
            self._path = None

    def writes_on_path(self, path, pred):
        """[(bb, i, stmt, value term)] for projected-place assignments on the path whose place satisfies pred"""
        pos = {bb: i for i, bb in enumerate(path)}
        out = []
        self._path = pos
        try:
            for bb in path:
                for i, st in enumerate(self.blocks[bb]['stmts']):
                    if 'p' in st and st['p'].get('pr') and pred(st['p']):
                        out.append((bb, i, st, self._origin_def(('stmt', bb, i, st['rv']), 0, set())))
        finally:
            self._path = None
        return out

    def _field_overlays(self, l, after, before, depth, seen):
        """{field index: value term} for the single-field writes to local l (directly or through a unique `&mut l`) on the current
        path between positions `after` and `before`; the last write to a field wins"""
        pth = self._path
        pd = self.partial_defs()
        defs = self.defs()
        refs = set()
        for r_, ds_ in defs.items():
            if len(ds_) == 1 and ds_[0][0] == 'stmt' and isinstance(ds_[0][3], dict) and 'ref' in ds_[0][3] and ds_[0][3].get('mut') and ds_[0][3]['ref'].get('l') == l and not ds_[0][3]['ref'].get('pr'):
                refs.add(r_)
        for _ in range(3):
            for r_, ds_ in defs.items():
                if r_ in refs or len(ds_) != 1 or ds_[0][0] != 'stmt' or not isinstance(ds_[0][3], dict) or 'use' not in ds_[0][3]:
                    continue
                u_ = ds_[0][3]['use'].get('mv') or ds_[0][3]['use'].get('cp')
                if isinstance(u_, dict) and not u_.get('pr') and u_.get('l') in refs:
                    refs.add(r_)
        ws = []
        for d in pd.get(l, []):
            if d[0] == 'stmt' and d[1] in pth and len(d[4].get('pr') or []) == 1 and isinstance(d[4]['pr'][0], dict) and isinstance(d[4]['pr'][0].get('f'), int):
                ws.append(((pth[d[1]], d[2]), d[4]['pr'][0]['f'], d))
        for r_ in refs:
            for d in pd.get(r_, []):
                if d[0] == 'stmt' and d[1] in pth and len(d[4].get('pr') or []) == 2 and d[4]['pr'][0] == '*' and isinstance(d[4]['pr'][1], dict) and isinstance(d[4]['pr'][1].get('f'), int):
                    ws.append(((pth[d[1]], d[2]), d[4]['pr'][1]['f'], d))
        out = {}
        for pos, fi, d in sorted(ws, key=lambda w: w[0]):
            if not (after < pos < before):
                continue
            old = getattr(self, '_use_pos', None)
            self._use_pos = pos
            try:
                out[fi] = self._origin_def(('stmt', d[1], d[2], d[3]), depth + 1, seen)
            finally:
                self._use_pos = old
        return out

    def _field_write_on_path(self, p, depth, seen):
        """path mode only: `l.f` (or `l.f.g..`) read after `l.f = v` — directly or through a `&mut l` handed to a spliced helper — is v"""
        pth = getattr(self, '_path', None)
        pr = p.get('pr') or []
        if not pth or not pr or not (isinstance(pr[0], dict) and 'f' in pr[0]):
            return None
        l, f0 = p['l'], pr[0]['f']
        dpos = lambda bb_, i_: (pth[bb_], i_)
        lim = getattr(self, '_use_pos', None) or (1 << 30, 1 << 31)
        pd = self.partial_defs()
        defs = self.defs()

        def mut_refs_of(l_):
            # locals that are `&mut l_` (also after being copied / moved into another local, e.g. a spliced helper's parameter)
            out_ = set()
            for r_, ds_ in defs.items():
                if len(ds_) == 1 and ds_[0][0] == 'stmt' and isinstance(ds_[0][3], dict) and 'ref' in ds_[0][3] and ds_[0][3].get('mut') and ds_[0][3]['ref'].get('l') == l_ and not ds_[0][3]['ref'].get('pr'):
                    out_.add(r_)
            for _ in range(3):
                for r_, ds_ in defs.items():
                    if r_ in out_ or len(ds_) != 1 or ds_[0][0] != 'stmt' or not isinstance(ds_[0][3], dict) or 'use' not in ds_[0][3]:
                        continue
                    u_ = ds_[0][3]['use'].get('mv') or ds_[0][3]['use'].get('cp')
                    if isinstance(u_, dict) and not u_.get('pr') and u_.get('l') in out_:
                        out_.add(r_)
            return out_
        cands = []
        for hop in range(4):
            for d in pd.get(l, []):
                if d[0] == 'stmt' and d[1] in pth and d[4].get('pr') and isinstance(d[4]['pr'][0], dict) and d[4]['pr'][0].get('f') == f0 and len(d[4]['pr']) <= len(pr):
                    cands.append((dpos(d[1], d[2]), d, d[4]['pr']))
            for r in mut_refs_of(l):
                for d in pd.get(r, []):
                    if d[0] == 'stmt' and d[1] in pth and len(d[4].get('pr') or []) >= 2 and d[4]['pr'][0] == '*' and isinstance(d[4]['pr'][1], dict) and d[4]['pr'][1].get('f') == f0 and len(d[4]['pr']) - 1 <= len(pr):
                        cands.append((dpos(d[1], d[2]), d, d[4]['pr'][1:]))
            cands = [c for c in cands if c[0] < lim and all(isinstance(a, dict) and isinstance(b, dict) and a.get('f') == b.get('f') for a, b in zip(c[2], pr))]
            if cands:
                break
            # the value was moved / copied here whole from another local: look at that one, up to the point of the move
            ds_ = [x for x in defs.get(l, []) if x[1] in pth and (pth[x[1]], x[2] if x[0] == 'stmt' else 1 << 30) < lim]
            if len(ds_) != 1 or ds_[0][0] != 'stmt' or not isinstance(ds_[0][3], dict) or 'use' not in ds_[0][3]:
                break
            u_ = ds_[0][3]['use'].get('mv') or ds_[0][3]['use'].get('cp')
            if not isinstance(u_, dict) or u_.get('pr') or len(defs.get(l, [])) != 1:
                break
            lim = (pth[ds_[0][1]], ds_[0][2])
            l = u_['l']
        if not cands:
            return None
        pos, d, wpr = max(cands, key=lambda c: c[0])
        # a later whole assignment of l overrides the field write
        whole = [self._path[x[1]] for x in self.defs().get(l, []) if x[1] in pth and (pth[x[1]], x[2] if x[0] == 'stmt' else 1 << 30) < lim]
        if whole and max(whole) > pos[0]:
            return None
        old = getattr(self, '_use_pos', None)
        self._use_pos = pos
        try:
            base = self._origin_def(('stmt', d[1], d[2], d[3]), depth + 1, seen)
        finally:
            self._use_pos = old
        return base, len(wpr)

    def _origin_place(self, p, depth, seen):
        fw = self._field_write_on_path(p, depth, seen) if getattr(self, '_path', None) else None
        if fw is not None:
            base, skip = fw
            rest = (p.get('pr') or [])[skip:]
        else:
            base = self._origin_local(p['l'], depth + 1, seen)
            rest = p.get('pr', [])
        for e in rest:
            if e == '*':
                # deref of a ref term collapses
                if base[0] == 'ref':
                    base = base[1]
                else:
                    base = ('deref', base)
            elif isinstance(e, dict) and 'f' in e:
                nm = e.get('n', e['f'])
                # field of an aggregate we know -> pick operand
                if base[0] == 'agg' and isinstance(e['f'], int) and e['f'] < len(base[2]) and base[1].get('kind') in ('tuple', 'adt', 'closure', 'coroutine'):
                    base = base[2][e['f']]
                else:
                    base = ('field', base, nm)
            elif isinstance(e, dict) and 'v' in e:
                base = ('variant', base, e['v'])
            elif isinstance(e, dict) and 'ix' in e:
                base = ('index', base, self._origin_local(e['ix'], depth + 1, seen))
            elif isinstance(e, dict) and 'ci' in e:
                base = ('index', base, ('const', (-e['ci'] if e.get('end') else e['ci']), None))
            elif isinstance(e, dict) and 'sub' in e:
                base = ('subslice', base, e)
            else:
                base = ('proj', base, e)
        return base

    def _origin_local(self, l, depth, seen):
        if l == 0:
            return ('ret',)
        if 1 <= l <= self.argc:
            if self.kind in ('closure', 'coroutine') and l == 1:
                return ('env',)
            return ('arg', l, self.name_of(l))
        pth = getattr(self, '_path', None)
        if pth:
            # along one acyclic path a local holds what its last assignment *before the point of use* gave it (so `x = f(x)` reads
            # the previous x); positions strictly decrease while resolving, hence no cycles
            ds = self.defs().get(l, [])
            dpos = lambda d_: (pth[d_[1]], d_[2] if d_[0] == 'stmt' else 1 << 30)
            lim = getattr(self, '_use_pos', None) or (1 << 30, 1 << 31)
            on = [d for d in ds if d[1] in pth and dpos(d) < lim]
            if on:
                d = max(on, key=dpos)
                old = getattr(self, '_use_pos', None)
                self._use_pos = dpos(d)
                try:
                    base = self._origin_def(d, depth + 1, seen | {l})
                finally:
                    self._use_pos = old
                # a struct built and then filled in (`s.f = v`, also through a `&mut s` handed to a spliced helper): overlay the
                # fields written between the construction and the point of use
                if base and base[0] == 'agg' and isinstance(base[1], dict) and base[1].get('kind') in ('adt', 'tuple') and not base[1].get('variant', None) in ('Some', 'Ok', 'Err') and depth < 40:
                    over = self._field_overlays(l, dpos(d), lim, depth, seen | {l})
                    if over:
                        ops = list(base[2])
                        for fi, t_ in over.items():
                            if fi < len(ops):
                                ops[fi] = t_
                        base = ('agg', base[1], ops) + tuple(base[3:])
                return base
            if ds and l not in seen and not (1 <= l <= self.argc) and l != 0:
                # assigned before the path begins: whatever it was computed from was, too
                old = getattr(self, '_use_pos', None)
                self._use_pos = (-1, 0)
                try:
                    if len(ds) == 1:
                        return self._origin_def(ds[0], depth + 1, seen | {l})
                    terms = [self._origin_def(d, depth + 1, seen | {l}) for d in ds]
                    return terms[0] if all(t == terms[0] for t in terms) else ('phi', terms, l)
                finally:
                    self._use_pos = old
        if l in seen:
            return ('local', l)
        ds = self.defs().get(l, [])
        if len(ds) == 0:
            return ('local', l)
        if len(ds) > 1:
            seen2 = seen | {l}
            terms = []
            for d in ds:
                terms.append(self._origin_def(d, depth + 1, seen2))
            # identical -> collapse
            if all(t == terms[0] for t in terms):
                return terms[0]
            return ('phi', terms, l)
        return self._origin_def(ds[0], depth + 1, seen | {l})

    def _origin_def(self, d, depth, seen):
        if d[0] == 'call':
            t = d[2]
            return ('call', t.get('resolved') or t.get('fn') or '?', [self.origin(a, depth + 1, seen) for a in t['args']], t.get('name'), t)
        if d[0] == 'yield':
            return ('yield', self.origin(d[2]['v'], depth + 1, seen))
        rv = d[3]
        if 'use' in rv:
            return self.origin(rv['use'], depth + 1, seen)
        if 'ref' in rv:
            return ('ref', self._origin_place(rv['ref'], depth + 1, seen))
        if 'rawptr' in rv:
            return ('ref', self._origin_place(rv['rawptr'], depth + 1, seen))
        if 'cast' in rv:
            inner = self.origin(rv['op'], depth + 1, seen)
            if rv['cast'].startswith('Coerce') or rv['cast'] in ('PtrToPtr', 'Transmute', 'Subtype'):
                return inner
            return ('cast', rv['cast'], inner, self.tystr(rv['ty']))
        if 'bin' in rv:
            return ('bin', rv['bin'], self.origin(rv['a'], depth + 1, seen), self.origin(rv['b'], depth + 1, seen))
        if 'un' in rv:
            return ('un', rv['un'], self.origin(rv['a'], depth + 1, seen))
        if 'discr' in rv:
            return ('discr', self._origin_place(rv['discr'], depth + 1, seen), rv.get('variants'), rv.get('adt'))
        if 'agg' in rv:
            return ('agg', rv['agg'], [self.origin(o, depth + 1, seen) for o in rv['ops']])
        if 'repeat' in rv:
            return ('repeat', self.origin(rv['repeat'], depth + 1, seen), rv['n'])
        return ('unknown', rv)

    # ---- guards
    def edge_guards(self, bb):
        """[(switch_bb, value_or_'else', discr_origin)] for every switch S that every feasible path from the entry to bb
        passes, and of which exactly one outgoing edge can (feasibly) reach bb without passing S again.  Feasibility is the
        path-sensitive one of reach_ps (a value built as Ok/Err/Some/None/true/false on a path decides later switches on it),
        so guards survive `?` on a helper's result, `matches!`, and boolean temporaries."""
        c = getattr(self, '_egc', None)
        if c is None:
            c = self._egc = {}
        if bb in c:
            return c[bb]
        out = []
        live = self.live_blocks()
        if bb not in live:
            c[bb] = out
            return out
        sws = [s for s in sorted(live) if s != bb and self.term(s)['k'] == 'switch']
        # cheap pre-filter: S must be able to reach bb at all
        for s in sws:
            if bb not in self.reachable(s):
                continue
            if bb in self._around(s):
                continue
            t = self.term(s)
            succ_vals = defaultdict(list)
            for v, tb in t['arms']:
                succ_vals[tb].append(v)
            succ_vals[t['else']].append('else')
            reaching = []
            for tb, vals in succ_vals.items():
                if vals == ['else'] and self.else_infeasible(s):
                    continue
                if tb == bb or bb in self._from_edge(s, tb):
                    reaching.append((tb, vals))
            if len(reaching) == 1:
                out.append((s, reaching[0][1], self.origin(t['on'])))
        c[bb] = out
        return out

    def _around(self, s):
        c = getattr(self, '_arc', None)
        if c is None:
            c = self._arc = {}
        if s not in c:
            c[s] = self.reach_ps(0, removed={s})
        return c[s]

    def _from_edge(self, s, tb):
        c = getattr(self, '_fec', None)
        if c is None:
            c = self._fec = {}
        if (s, tb) not in c:
            c[(s, tb)] = self.reach_ps(tb, removed={s})
        return c[(s, tb)]

    # ---- path-sensitive reachability (variant knowledge of locals that feed switches)
    def _ps_relevant(self):
        if getattr(self, '_psrel', None) is not None:
            return self._psrel
        rel = set()
        work = []
        for bb, blk in enumerate(self.blocks):
            t = blk['term']
            if t['k'] == 'switch':
                on = t['on']
                pl = on.get('cp') or on.get('mv')
                if pl and not pl.get('pr'):
                    work.append(pl['l'])
        defs = self.defs()
        while work:
            l = work.pop()
            if l in rel:
                continue
            rel.add(l)
            for d in defs.get(l, []):
                if d[0] == 'stmt':
                    rv = d[3]
                    src = None
                    if 'use' in rv:
                        src = rv['use'].get('cp') or rv['use'].get('mv')
                    elif 'discr' in rv:
                        src = rv['discr']
                    if src and 'agg' not in rv:
                        work.append(src['l'])
                    if 'agg' in rv and rv.get('ops'):
                        for o0 in rv['ops'][:6]:
                            s0 = o0.get('cp') or o0.get('mv')
                            if s0 and not s0.get('pr'):
                                work.append(s0['l'])
                elif d[0] == 'call' and d[2].get('name') == 'branch' and d[2]['args']:
                    a = d[2]['args'][0]
                    src = a.get('cp') or a.get('mv')
                    if src and not src.get('pr'):
                        work.append(src['l'])
                elif d[0] == 'call' and self._comb_map(d[2]) is not None and d[2]['args']:
                    a = d[2]['args'][0]
                    src = a.get('cp') or a.get('mv')
                    if src and not src.get('pr'):
                        work.append(src['l'])
                elif d[0] == 'call' and d[2].get('name') in self._TEST_FNS and d[2]['args']:
                    a = d[2]['args'][0]
                    src = a.get('cp') or a.get('mv')
                    if src and not src.get('pr'):
                        for d2 in defs.get(src['l'], []):
                            if d2[0] == 'stmt' and 'ref' in d2[3] and not d2[3]['ref'].get('pr'):
                                work.append(d2[3]['ref']['l'])
        self._psrel = rel
        return rel

    _BRANCH_MAP = {'Ok': 'Continue', 'Some': 'Continue', 'Err': 'Break', 'None': 'Break', 'Ready': None}
    # Option / Result combinators (taking the value by value) whose result variant is decided by the variant of the receiver
    _COMB = {'ok_or_else': {'Some': 'Ok', 'None': 'Err'}, 'ok_or': {'Some': 'Ok', 'None': 'Err'},
             'map_err': {'Ok': 'Ok', 'Err': 'Err'}, 'map': {'Some': 'Some', 'None': 'None', 'Ok': 'Ok', 'Err': 'Err'},
             'ok': {'Ok': 'Some', 'Err': 'None'}, 'err': {'Ok': 'None', 'Err': 'Some'},
             'and_then': {'None': 'None', 'Err': 'Err'}, 'filter': {'None': 'None'}, 'inspect': {'Some': 'Some', 'None': 'None', 'Ok': 'Ok', 'Err': 'Err'},
             'inspect_err': {'Ok': 'Ok', 'Err': 'Err'}, 'copied': {'Some': 'Some', 'None': 'None'}, 'cloned': {'Some': 'Some', 'None': 'None'}}

    def _comb_map(self, t):
        if t.get('name') in self._COMB and re.search(r'(option::Option|result::Result)', t.get('fn') or ''):
            return self._COMB[t['name']]
        if t.get('name') in ('map', 'map_ok', 'map_err') and re.search(r'task::(poll::)?Poll', t.get('fn') or ''):
            return {'Pending': 'Pending', 'Ready': 'Ready'}
        return None
    _TEST_FNS = {'is_err': ('Err', 'Ok'), 'is_ok': ('Ok', 'Err'), 'is_some': ('Some', 'None'), 'is_none': ('None', 'Some')}

    @staticmethod
    def _proj_know(kk, pr):
        """knowledge about place `x.pr` given knowledge kk about x (aggregates remember what they were built from)"""
        for e in pr:
            if kk is None:
                return None
            if isinstance(e, dict) and 'v' in e:
                if kk[0] != 'v' or kk[1] != e['v']:
                    return None
            elif isinstance(e, dict) and 'f' in e:
                pay = kk[2] if kk[0] == 'v' else (kk[1] if kk[0] == 't' else None)
                if not pay or e['f'] >= len(pay):
                    return None
                kk = pay[e['f']]
            else:
                return None
        return kk if (kk and kk[0] in ('v', 't')) else None

    def _ps_edges(self, bb, know):
        """[(successor, knowledge dict on that edge)]: _ps_step plus what the branch itself teaches (a switch on the
        discriminant of x, or on x.is_err()/is_ok()/is_some()/is_none(), pins x's variant on each edge)"""
        know2, succs = self._ps_step(bb, know)
        t = self.blocks[bb]['term']
        if t['k'] != 'switch':
            return [(s_, know2) for s_ in succs]
        on = t['on']
        pl = on.get('cp') or on.get('mv')
        kk = know2.get(pl['l']) if (pl is not None and not pl.get('pr')) else None
        if not kk or kk[0] not in ('dx', 'tx'):
            return [(s_, know2) for s_ in succs]
        x = kk[1]
        out = []
        edges = self.switch_edges(bb)
        for s_ in succs:
            vals = edges.get(s_, [])
            kn = know2
            var = None
            if kk[0] == 'dx':
                names = dict(kk[2])
                if len(vals) == 1 and vals[0] != 'else':
                    var = names.get(vals[0])
                elif vals == ['else']:
                    armv = {v for v, _ in t['arms']}
                    rest = [n for v, n in kk[2] if v not in armv]
                    var = rest[0] if len(rest) == 1 else None
            else:
                if vals == [0]:
                    var = kk[3]
                elif vals and 0 not in vals:
                    var = kk[2]
            if var is not None:
                kn = dict(know2)
                kn[x] = ('v', var, None)
            out.append((s_, kn))
        return out

    def _ps_step(self, bb, know):
        """abstractly execute block bb on knowledge dict {local: ('v', variant) | ('d', int)}; returns (know', [succs])"""
        rel = self._ps_relevant()
        know = dict(know)
        blk = self.blocks[bb]
        for st in blk['stmts']:
            if 'setdiscr' in st:
                pl = st['setdiscr']
                if not pl.get('pr') and pl['l'] in rel:
                    know[pl['l']] = ('v', st['variant'], None)
                continue
            if 'p' not in st:
                continue
            pl, rv = st['p'], st['rv']
            if 'ref' in rv and rv.get('mut') and not rv['ref'].get('pr'):
                know.pop(rv['ref']['l'], None)
            if pl.get('pr'):
                continue
            l = pl['l']
            if l not in rel:
                continue
            new = None
            if 'agg' in rv and rv['agg'].get('kind') in ('adt', 'tuple') and len(rv.get('ops', [])) <= 6:
                pks = []
                for o0 in rv.get('ops', []):
                    s0 = o0.get('cp') or o0.get('mv')
                    kk0 = know.get(s0['l']) if (s0 is not None and not s0.get('pr')) else None
                    pks.append(kk0 if (kk0 and kk0[0] in ('v', 't')) else None)
                if rv['agg'].get('kind') == 'tuple':
                    new = ('t', tuple(pks)) if any(pks) else None
                elif rv['agg'].get('variant'):
                    new = ('v', rv['agg']['variant'], (tuple(pks) if any(pks) else None))
            elif 'use' in rv:
                op = rv['use']
                src = op.get('cp') or op.get('mv')
                if src is not None and not src.get('pr'):
                    new = know.get(src['l'])
                elif src is not None:
                    new = self._proj_know(know.get(src['l']), src['pr'])
                    if new is None:
                        cf_ = self.crate.const_fields().get((place_fields(src) or [None])[-1]) if self.crate is not None and isinstance(src['pr'][-1], dict) and 'f' in src['pr'][-1] else None
                        if cf_:
                            new = ('v', cf_, None)
                elif 'k' in op:
                    v = op['k'].get('v')
                    if isinstance(v, bool):
                        new = ('d', int(v))
                    elif isinstance(v, int):
                        new = ('d', v)
            elif 'discr' in rv:
                src = rv['discr']
                k = know.get(src['l']) if not src.get('pr') else self._proj_know(know.get(src['l']), src['pr'])
                if k is None and src.get('pr') and isinstance(src['pr'][-1], dict) and 'f' in src['pr'][-1] and self.crate is not None:
                    cf_ = self.crate.const_fields().get(place_fields(src)[-1])
                    if cf_:
                        k = ('v', cf_, None)
                if k and k[0] == 'v':
                    for val, name in rv.get('variants', []):
                        if name == k[1]:
                            new = ('d', val)
            if new is None and 'discr' in rv and not rv['discr'].get('pr') and rv.get('variants'):
                new = ('dx', rv['discr']['l'], tuple((v, n) for v, n in rv['variants']))
            for k_ in [k_ for k_, v_ in know.items() if v_ and v_[0] in ('dx', 'tx') and v_[1] == l]:
                know.pop(k_, None)
            if new is None:
                know.pop(l, None)
            else:
                know[l] = new
        t = blk['term']
        k = t['k']
        if k == 'call':
            d = t['dest']
            if not d.get('pr'):
                new = None
                if t.get('name') == 'branch' and t['args'] and d['l'] in rel:
                    a = t['args'][0]
                    src = a.get('cp') or a.get('mv')
                    if src is not None and not src.get('pr'):
                        kk = know.get(src['l'])
                        if kk and kk[0] == 'v' and self._BRANCH_MAP.get(kk[1]):
                            bm = self._BRANCH_MAP[kk[1]]
                            new = ('v', bm, kk[2] if bm == 'Continue' and len(kk) > 2 else None)
                if new is None and t.get('name') == 'from_residual' and d['l'] in rel:
                    # `?` on a failure: the value built is the failure variant of the function's own return type
                    sty = t.get('self_ty') or ''
                    if sty.startswith('std::result::Result<') or sty.startswith('core::result::Result<'):
                        new = ('v', 'Err', None)
                    elif sty.startswith('std::option::Option<') or sty.startswith('core::option::Option<'):
                        new = ('v', 'None', None)
                cm = self._comb_map(t) if (new is None and t['args'] and d['l'] in rel) else None
                if cm is not None:
                    a = t['args'][0]
                    src = a.get('cp') or a.get('mv')
                    if src is not None and not src.get('pr'):
                        kk = know.get(src['l'])
                        if kk and kk[0] == 'v' and cm.get(kk[1]):
                            new = ('v', cm[kk[1]], None)
                if new is None and t.get('name') in self._TEST_FNS and t['args'] and d['l'] in rel:
                    a = t['args'][0]
                    src = a.get('cp') or a.get('mv')
                    x = None
                    if src is not None and not src.get('pr'):
                        ds_ = self.defs().get(src['l'], [])
                        if len(ds_) == 1 and ds_[0][0] == 'stmt' and 'ref' in ds_[0][3] and not ds_[0][3]['ref'].get('pr'):
                            x = ds_[0][3]['ref']['l']
                    if x is not None:
                        tv, fv = self._TEST_FNS[t['name']]
                        kx = know.get(x)
                        if kx and kx[0] == 'v':
                            new = ('d', 1 if kx[1] == tv else 0) if kx[1] in (tv, fv) else None
                        else:
                            new = ('tx', x, tv, fv)
                for k_ in [k_ for k_, v_ in know.items() if v_ and v_[0] in ('dx', 'tx') and v_[1] == d['l']]:
                    know.pop(k_, None)
                if new is None:
                    know.pop(d['l'], None)
                else:
                    know[d['l']] = new
            return know, self.succs(bb)
        if k == 'switch':
            on = t['on']
            pl = on.get('cp') or on.get('mv')
            val = None
            if pl is not None and not pl.get('pr'):
                kk = know.get(pl['l'])
                if kk and kk[0] == 'd':
                    val = kk[1]
                elif kk and kk[0] == 'dx':
                    kx = know.get(kk[1])
                    if kx and kx[0] == 'v':
                        for v_, n_ in kk[2]:
                            if n_ == kx[1]:
                                val = v_
                elif kk and kk[0] == 'tx':
                    kx = know.get(kk[1])
                    if kx and kx[0] == 'v' and kx[1] in (kk[2], kk[3]):
                        val = 1 if kx[1] == kk[2] else 0
            elif 'k' in on and isinstance(on['k'].get('v'), (int, bool)):
                val = int(on['k']['v'])
            if val is not None:
                for v, tb in t['arms']:
                    if v == val:
                        return know, [tb]
                return know, [t['else']]
            if self.else_infeasible(bb):
                out = []
                for v, tb in t['arms']:
                    if tb not in out:
                        out.append(tb)
                return know, out
        return know, self.succs(bb)

    def guard_values(self, s, vals):
        """the concrete discriminant values an edge-guard (s, vals) stands for: the arm values, plus — for the otherwise edge of a
        switch on an enum discriminant — every variant without an arm of its own.  None when the otherwise edge is not enumerable."""
        out = {v for v in vals if v != 'else'}
        if 'else' in vals:
            t = self.blocks[s]['term']
            pl = t['on'].get('cp') or t['on'].get('mv')
            allv = None
            if pl is not None and not pl.get('pr'):
                ds = self.defs().get(pl['l'], [])
                if len(ds) == 1 and ds[0][0] == 'stmt' and 'discr' in ds[0][3] and ds[0][3].get('variants'):
                    allv = {v for v, n in ds[0][3]['variants']}
            if allv is None:
                return None
            out |= allv - {v for v, _ in t['arms']}
        return out

    def else_infeasible(self, bb):
        """True iff block bb switches on the discriminant of an enum whose every variant has its own arm (the otherwise edge
        exists only because match lowering shares it with other arms)"""
        c = getattr(self, '_elsec', None)
        if c is None:
            c = self._elsec = {}
        if bb in c:
            return c[bb]
        t = self.blocks[bb]['term']
        res = False
        if t['k'] == 'switch':
            on = t['on']
            pl = on.get('cp') or on.get('mv')
            if pl is not None and not pl.get('pr'):
                ds = self.defs().get(pl['l'], [])
                if len(ds) == 1 and ds[0][0] == 'stmt' and 'discr' in ds[0][3] and ds[0][3].get('variants'):
                    allv = {v for v, n in ds[0][3]['variants']}
                    res = allv <= {v for v, _ in t['arms']}
        c[bb] = res
        return res

    def reach_ps(self, start, removed=(), removed_edges=(), cap=60000, know0=None):
        """blocks reachable from `start` (a block or list of blocks, entered with no knowledge) when branches on the
        discriminant of a value whose variant is known on the path (built as Ok/Err/Some/None.. on that path, possibly passed
        through `?`) are followed only along the matching arm.  Sound over-approximation of the feasible paths; falls back
        to plain reachability beyond `cap` explored states."""
        removed = set(removed)
        removed_edges = set(removed_edges)
        starts = [start] if isinstance(start, int) else list(start)
        seen = set()
        out = set()
        dq = deque()
        k0 = frozenset((know0 or {}).items())
        for s0 in starts:
            if s0 not in removed:
                dq.append((s0, k0))
                seen.add((s0, k0))
        while dq:
            bb, ks = dq.popleft()
            out.add(bb)
            for s, kn_ in self._ps_edges(bb, dict(ks)):
                fk = frozenset(kn_.items())
                if s in removed or (bb, s) in removed_edges:
                    continue
                if (s, fk) in seen:
                    continue
                seen.add((s, fk))
                if len(seen) > cap:
                    return self.reachable(starts, removed=removed, removed_edges=removed_edges)
                dq.append((s, fk))
        return out

    def switch_edges(self, s):
        """{target: [values]} of switch block s ('else' for otherwise)"""
        t = self.term(s)
        succ_vals = defaultdict(list)
        for v, tb in t['arms']:
            succ_vals[tb].append(v)
        succ_vals[t['else']].append('else')
        return succ_vals


# --------------------------------------------------------------------------------------------
# term helpers

def strip_refs(t):
    while t and t[0] in ('ref', 'deref'):
        t = t[1]
    return t


def deep_strip(t):
    """the term with every ref / deref node removed at all depths (for comparing two spellings of the same place)"""
    if isinstance(t, tuple) and t:
        if t[0] in ('ref', 'deref') and len(t) > 1:
            return deep_strip(t[1])
        return tuple(deep_strip(x) for x in t)
    if isinstance(t, list):
        return [deep_strip(x) for x in t]
    return t


def term_contains(t, pred):
    """does any sub-term satisfy pred?"""
    if pred(t):
        return True
    if isinstance(t, tuple):
        for x in t[1:]:
            if isinstance(x, tuple) and term_contains(x, pred):
                return True
            if isinstance(x, list):
                for y in x:
                    if isinstance(y, tuple) and term_contains(y, pred):
                        return True
    return False


def is_call(t, pat=None, name=None):
    if not (isinstance(t, tuple) and t and t[0] == 'call'):
        return False
    if name is not None and t[3] != name:
        return False
    if pat is not None:
        if hasattr(pat, 'search'):
            return bool(pat.search(t[1]))
        return pat in t[1]
    return True


def is_field(t, name):
    return isinstance(t, tuple) and t and t[0] == 'field' and t[2] == name


def field_path(t):
    """('field',('field',X,'a'),'b') -> (X, ['a','b']) ignoring refs/derefs/variants"""
    names = []
    while isinstance(t, tuple) and t:
        if t[0] == 'field':
            names.append(t[2])
            t = t[1]
        elif t[0] in ('ref', 'deref'):
            t = t[1]
        elif t[0] == 'variant':
            names.append('<' + t[2] + '>')
            t = t[1]
        else:
            break
    names.reverse()
    return t, names


def through_calls(t, names):
    """peel calls whose item name is in `names` (e.g. clone, into, as_ref, deref, map) following arg 0"""
    while True:
        t2 = strip_refs(t)
        if isinstance(t2, tuple) and t2 and t2[0] == 'call' and t2[3] in names and t2[2]:
            t = t2[2][0]
            continue
        return t2


def show(t, depth=0):
    """compact printable rendering of an origin term"""
    if not isinstance(t, tuple) or not t:
        return repr(t)
    if depth > 6:
        return '…'
    k = t[0]
    if k == 'const':
        return 'const(%r)' % (t[1],)
    if k == 'constdef':
        return 'constdef(%s)' % t[1]
    if k == 'fnitem':
        return 'fn(%s)' % t[1]
    if k == 'arg':
        return 'arg%d:%s' % (t[1], t[2])
    if k == 'env':
        return 'env'
    if k == 'field':
        return '%s.%s' % (show(t[1], depth + 1), t[2])
    if k in ('ref',):
        return '&' + show(t[1], depth + 1)
    if k == 'deref':
        return '*' + show(t[1], depth + 1)
    if k == 'variant':
        return '%s as %s' % (show(t[1], depth + 1), t[2])
    if k == 'call':
        return '%s(%s)' % (t[1].split('<')[0] if False else short(t[1]), ', '.join(show(a, depth + 1) for a in t[2]))
    if k == 'bin':
        return '%s(%s, %s)' % (t[1], show(t[2], depth + 1), show(t[3], depth + 1))
    if k == 'un':
        return '%s(%s)' % (t[1], show(t[2], depth + 1))
    if k == 'cast':
        return 'cast<%s>(%s)' % (t[1], show(t[2], depth + 1))
    if k == 'discr':
        return 'discr(%s)' % show(t[1], depth + 1)
    if k == 'agg':
        a = t[1]
        nm = a.get('variant') or a.get('def') or a.get('kind')
        return '%s{%s}' % (nm, ', '.join(show(x, depth + 1) for x in t[2]))
    if k == 'phi':
        return 'phi(%s)' % ' | '.join(show(x, depth + 1) for x in t[1])
    if k == 'local':
        return '_%d' % t[1]
    if k == 'yield':
        return 'await(%s)' % show(t[1], depth + 1)
    if k == 'index':
        return '%s[%s]' % (show(t[1], depth + 1), show(t[2], depth + 1))
    return k


def short(path):
    """shorten a def path for display/keys: drop generic argument lists (`Foo::<T>::m` -> `Foo::m`);
    a leading `<A as B>` qualifier is kept verbatim"""
    out = []
    depth = 0
    i = 0
    n = len(path)
    lead = 0
    if path.startswith('<'):
        d = 0
        for j, ch in enumerate(path):
            if ch == '<':
                d += 1
            elif ch == '>':
                d -= 1
                if d == 0:
                    lead = j + 1
                    break
        out.append(path[:lead])
        i = lead
    while i < n:
        ch = path[i]
        if ch == '<':
            depth += 1
        elif ch == '>' and depth > 0:
            depth -= 1
            if depth == 0:
                # swallow a following "::" only if we also removed a preceding "::"
                pass
        elif depth == 0:
            out.append(ch)
        i += 1
    s = ''.join(out).replace('::::', '::')
    return s if len(s) < 120 else '…' + s[-118:]


def fn_matches(t, pat):
    """does call terminator t resolve to a fn whose path contains/matches pat"""
    fn = t.get('fn') or ''
    res = t.get('resolved') or ''
    if hasattr(pat, 'search'):
        return bool(pat.search(fn) or pat.search(res))
    return pat in fn or pat in res


# --------------------------------------------------------------------------------------------
# decision tables

def str_eq_chain(body, start_bb=None):
    """Find chains of `<str as PartialEq>::eq(x, const "S")` / `<[u8] as PartialEq>::eq` followed by a
    switch on the result.  Returns list of rows: (const_value, eq_bb, true_target_bb, false_target_bb, lhs_origin)."""
    rows = []
    for bb, t in body.calls(name='eq') + body.calls(name='ne'):
        if len(t['args']) != 2:
            continue
        a, b = body.origin(t['args'][0]), body.origin(t['args'][1])
        sa, sb = strip_refs(a), strip_refs(b)
        cv, other = None, None
        if sb[0] == 'const' and isinstance(sb[1], (str, bytes)):
            cv, other = sb[1], a
        elif sa[0] == 'const' and isinstance(sa[1], (str, bytes)):
            cv, other = sa[1], b
        else:
            continue
        nxt = t['t']
        # follow gotos to the switch on dest
        sw = follow_to_switch(body, nxt)
        if sw is None:
            continue
        st = body.term(sw)
        tgt_true, tgt_false = None, st['else']
        for v, tb in st['arms']:
            if v == 0:
                tgt_false = tb
                tgt_true = st['else']
            else:
                tgt_true = tb
        if t.get('name') == 'ne':
            tgt_true, tgt_false = tgt_false, tgt_true
        rows.append({'value': cv, 'bb': bb, 'true': tgt_true, 'false': tgt_false, 'lhs': other, 'switch': sw})
    return rows


def follow_to_switch(body, bb, limit=6):
    for _ in range(limit):
        t = body.term(bb)
        if t['k'] == 'switch':
            return bb
        if t['k'] == 'goto' and not body.blocks[bb]['stmts']:
            bb = t['t']
            continue
        if t['k'] == 'goto':
            bb = t['t']
            continue
        return None
    return None


def first_effects(body, start, stop_at=None, max_blocks=60):
    """blocks reachable from `start` before hitting a join with other arms; returns list of blocks in BFS
    order (bounded)."""
    seen = []
    dq = deque([start])
    while dq and len(seen) < max_blocks:
        b = dq.popleft()
        if b in seen or (stop_at and b in stop_at):
            continue
        seen.append(b)
        for s in body.succs(b):
            dq.append(s)
    return seen


def region(body, entry, exclude_entries):
    """blocks reachable from `entry` that are NOT reachable from any of exclude_entries (arm-private region)"""
    mine = body.reachable(entry)
    others = set()
    for e in exclude_entries:
        others |= body.reachable(e)
    return mine - others


def returned_terms(body):
    """origin terms of _0 at each return block: list of (ret_bb, term).  Since _0 may have several defs,
    we report each def of _0 that reaches a return."""
    out = []
    for d in body.defs().get(0, []):
        out.append((d[1], body._origin_def(d, 0, {0})))
    return out


def aggregates(body, adt_suffix=None, variant=None):
    """[(bb, i, place, aggdict, ops)] assignments of aggregates matching adt path suffix / variant"""
    out = []
    live = body.live_blocks()
    for bb in sorted(live):
        for i, st in enumerate(body.blocks[bb]['stmts']):
            rv = st.get('rv')
            if not rv or 'agg' not in rv:
                continue
            a = rv['agg']
            if adt_suffix is not None and not (a.get('adt') or '').endswith(adt_suffix):
                continue
            if variant is not None and a.get('variant') != variant:
                continue
            out.append((bb, i, st['p'], a, rv['ops']))
    return out


def assignments(body, pred):
    """[(bb, i, stmt)] for live assign statements satisfying pred(stmt)"""
    out = []
    for bb in sorted(body.live_blocks()):
        for i, st in enumerate(body.blocks[bb]['stmts']):
            if 'p' in st and pred(st):
                out.append((bb, i, st))
    return out


def place_fields(p):
    """list of field names in a place projection (ignoring derefs/downcasts)"""
    return [e.get('n', e.get('f')) for e in p.get('pr', []) if isinstance(e, dict) and 'f' in e]


def place_str(p):
    s = '_%d' % p['l']
    for e in p.get('pr', []):
        if e == '*':
            s = '(*%s)' % s
        elif isinstance(e, dict) and 'f' in e:
            s += '.%s' % e.get('n', e['f'])
        elif isinstance(e, dict) and 'v' in e:
            s = '(%s as %s)' % (s, e['v'])
        else:
            s += '[..]'
    return s


# --------------------------------------------------------------------------------------------
# P6: decision rows

def classify_test(term):
    """interpret what a switch tests.  returns (subject_string, mode, const) where mode is
    'direct' (switch values are the subject's values), 'eq' (value !=0 means subject == const),
    'ne', or None"""
    t = term
    if t[0] == 'bin' and t[1] in ('Eq', 'Ne'):
        a, b = strip_casts(t[2]), strip_casts(t[3])
        if a[0] == 'const' and b[0] != 'const':
            return (show(b), 'eq' if t[1] == 'Eq' else 'ne', a[1])
        if b[0] == 'const' and a[0] != 'const':
            return (show(a), 'eq' if t[1] == 'Eq' else 'ne', b[1])
    if t[0] == 'call' and t[3] in ('eq', 'ne') and len(t[2]) == 2:
        a, b = strip_refs(t[2][0]), strip_refs(t[2][1])
        if a[0] == 'const' and b[0] != 'const':
            return (show(b), 'eq' if t[3] == 'eq' else 'ne', a[1])
        if b[0] == 'const' and a[0] != 'const':
            return (show(a), 'eq' if t[3] == 'eq' else 'ne', b[1])
    if t[0] == 'un' and t[1] == 'Not':
        inner = classify_test(t[2])
        if inner[1] == 'eq':
            return (inner[0], 'ne', inner[2])
        if inner[1] == 'ne':
            return (inner[0], 'eq', inner[2])
        return ('!' + inner[0], 'direct', None)
    return (show(t), 'direct', None)


def strip_casts(t):
    while isinstance(t, tuple) and t and (t[0] in ('ref', 'deref') or t[0] == 'cast'):
        t = t[2] if t[0] == 'cast' else t[1]
    return t


def decision_rows(body, start, effects, relevant=None, limit=50000, stop=None):
    """Walk the CFG from `start`, collecting for every path that reaches a block in `effects` the
    constraints imposed by switches whose subject satisfies `relevant` (default: all).
    Returns list of (constraints: tuple of (subject, op, value), effect_bb).
    op: '==' value | '!=' value | 'in' (v1,..) | 'notin' (v1,..)."""
    effects = set(effects)
    stop = set(stop or ())
    rows = []
    seen = set()
    stack = [(start, (), frozenset())]
    n = 0
    while stack:
        bb, cons, ks = stack.pop()
        if (bb, cons, ks) in seen:
            continue
        seen.add((bb, cons, ks))
        n += 1
        if n > limit:
            raise CheckError('UNRECOGNISED: decision walk exceeded %d states in %s' % (limit, body.path))
        if bb in effects:
            rows.append((cons, bb))
            continue
        if bb in stop:
            continue
        t = body.term(bb)
        pe = body._ps_edges(bb, dict(ks))
        feas = {s_: frozenset(kn_.items()) for s_, kn_ in pe}
        if t['k'] == 'switch':
            subj, mode, cv = classify_test(simplify(body.origin(t['on'])))
            rel = relevant(subj) if relevant else True
            edges = body.switch_edges(bb)
            armvals = tuple(sorted(v for v, _ in t['arms']))
            for tgt, vals in edges.items():
                if tgt not in feas:
                    continue  # the value switched on is known on this path (built as that variant earlier on it)
                fk = feas[tgt]
                if vals == ['else'] and body.else_infeasible(bb):
                    continue
                if not rel:
                    stack.append((tgt, cons, fk))
                    continue
                if mode == 'direct':
                    if vals == ['else']:
                        c = (subj, 'notin', armvals)
                    elif 'else' in vals:
                        c = None  # merged with default: no information
                    else:
                        c = (subj, '==', vals[0]) if len(vals) == 1 else (subj, 'in', tuple(sorted(vals)))
                else:
                    # boolean test: arm value 0 = false
                    truth = None
                    if vals == ['else']:
                        if 0 in armvals:
                            truth = True
                        elif armvals:
                            truth = False
                    elif 'else' not in vals:
                        if all(v != 0 for v in vals):
                            truth = True
                        elif all(v == 0 for v in vals):
                            truth = False
                    if truth is None:
                        c = None
                    else:
                        is_eq = (mode == 'eq') == truth
                        c = (subj, '==' if is_eq else '!=', cv)
                newc = cons if c is None else add_constraint(cons, c)
                if newc is False:
                    continue  # contradictory: infeasible by constant comparison
                stack.append((tgt, newc, fk))
        else:
            for s, fk in feas.items():
                stack.append((s, cons, fk))
    return rows


def path_rows(body, start=0, relevant=None, stop=None, limit=20000, meta=None):
    """enumerate the feasible acyclic paths from `start` to a return (or a block in `stop`): list of (constraints, path)
    where constraints are as in decision_rows and path is the list of blocks.  Path-sensitive as reach_ps.  `meta`, if a dict,
    receives subject -> [(value, variant name)] for discriminant subjects."""
    stop = set(stop or ())
    rows = []
    n = 0
    stack = [(start, (), frozenset(), (start,), frozenset())]
    wcache = {}

    def written(bb_):
        # what block bb_ may overwrite, as text fragments of subjects: '.field' for a store through a field projection, the shown
        # place for a `&mut` handed to a call
        if bb_ not in wcache:
            w = set()
            for st in body.blocks[bb_]['stmts']:
                p_ = st.get('p')
                if p_ and st.get('rv') is not None:
                    fl = place_fields(p_)
                    if fl:
                        w.add('.' + fl[-1])
            t_ = body.term(bb_)
            if t_['k'] == 'call':
                for a_ in t_.get('args', []):
                    l_ = None
                    if isinstance(a_, dict):
                        for k_ in ('mv', 'cp'):
                            if isinstance(a_.get(k_), dict) and not a_[k_].get('pr'):
                                l_ = a_[k_].get('l')
                    try:
                        ty_ = body.ty(l_) if l_ is not None else ''
                    except Exception:
                        ty_ = ''
                    if '&mut' in ty_ or "&'" in ty_ and ' mut ' in ty_:
                        sh = show(strip_refs(body.origin(a_)))
                        if sh and len(sh) < 200 and '…' not in sh:
                            w.add(sh)
            wcache[bb_] = w
        return wcache[bb_]
    while stack:
        bb, cons, ks, path, stale = stack.pop()
        wr = written(bb)
        if wr and cons:
            hit = {c_[0] for c_ in cons if c_[0] not in stale and any(w_ in c_[0] for w_ in wr)}
            if hit:
                stale = stale | hit
        n += 1
        if n > limit:
            raise CheckError('UNRECOGNISED: more than %d paths in %s' % (limit, body.path))
        t = body.term(bb)
        if t['k'] == 'ret' or bb in stop:
            rows.append((cons, list(path)))
            continue
        pe = body._ps_edges(bb, dict(ks))
        feas = {s_: frozenset(kn_.items()) for s_, kn_ in pe}
        nxt = []
        if t['k'] == 'switch':
            o = simplify(body.origin(t['on']))
            subj, mode, cv = classify_test(o)
            if meta is not None and o and o[0] == 'discr' and len(o) > 2 and o[2]:
                meta[subj] = o[2]
            if meta is not None:
                meta.setdefault('__terms__', {})[subj] = o
            rel = relevant(subj) if relevant else True
            edges = body.switch_edges(bb)
            armvals = tuple(sorted(v for v, _ in t['arms']))
            for tgt, vals in edges.items():
                if tgt not in feas or (vals == ['else'] and body.else_infeasible(bb)):
                    continue
                if not rel:
                    nxt.append((tgt, cons))
                    continue
                if mode == 'direct':
                    if vals == ['else']:
                        c = (subj, 'notin', armvals)
                    elif 'else' in vals:
                        c = None
                    else:
                        c = (subj, '==', vals[0]) if len(vals) == 1 else (subj, 'in', tuple(sorted(vals)))
                else:
                    truth = None
                    if vals == ['else']:
                        truth = True if 0 in armvals else (False if armvals else None)
                    elif 'else' not in vals:
                        truth = True if all(v != 0 for v in vals) else (False if all(v == 0 for v in vals) else None)
                    c = None if truth is None else (subj, '==' if ((mode == 'eq') == truth) else '!=', cv)
                newc = cons if c is None else add_constraint(cons, c, stale)
                if newc is False:
                    continue
                nxt.append((tgt, newc))
        else:
            nxt = [(s_, cons) for s_ in feas]
        for tgt, c2 in nxt:
            if tgt in path:
                continue  # acyclic paths only
            stack.append((tgt, c2, feas[tgt], path + (tgt,), stale))
    return rows


def add_constraint(cons, c, stale=()):
    """append c to constraint tuple; return False if it contradicts an existing constraint on the same subject (unless the subject
    may have been overwritten since: `stale`)"""
    subj, op, v = c
    for (s2, op2, v2) in cons:
        if s2 != subj or subj in stale:
            continue
        if op == 'notin' and op2 == '==' and v2 in v:
            return False
        if op == 'notin' and op2 == 'in' and all(x in v for x in v2):
            return False
        if op == 'in' and op2 == '==' and v2 not in v:
            return False
        if op == 'in' and op2 == 'notin' and all(x in v2 for x in v):
            return False
        if op == '==' and op2 == '==' and v != v2:
            return False
        if op == '==' and op2 == '!=' and v == v2:
            return False
        if op == '!=' and op2 == '==' and v == v2:
            return False
        if op == '==' and op2 == 'notin' and v in v2:
            return False
        if op == '==' and op2 == 'in' and v not in v2:
            return False
    if c in cons:
        return cons
    return cons + (c,)


def cons_dict(cons):
    """{subject: ('==', v) | ('in', vals) | ('other', [..])} keeping the strongest positive constraint"""
    d = {}
    for s, op, v in cons:
        if op == '==':
            d[s] = ('==', v)
        elif op == 'in' and s not in d:
            d[s] = ('in', v)
        else:
            d.setdefault(s, ('neg', ()))
            if d[s][0] == 'neg':
                d[s] = ('neg', d[s][1] + ((op, v),))
    return d


def block_writes(body, bb, local):
    """what block bb writes into `local` (whole-local writes): list of ('variant', adt, name, ops) |
    ('call', fnpath, argterms, name) | ('term', origin_term)"""
    out = []
    blk = body.blocks[bb]
    for i, st in enumerate(blk['stmts']):
        if 'p' in st and st['p']['l'] == local and not st['p'].get('pr'):
            rv = st['rv']
            if 'agg' in rv and rv['agg'].get('kind') == 'adt':
                out.append(('variant', rv['agg']['adt'], rv['agg']['variant'], [body.origin(o) for o in rv['ops']]))
            else:
                out.append(('term', body._origin_def(('stmt', bb, i, rv), 0, {local})))
    t = blk['term']
    if t['k'] == 'call' and t['dest']['l'] == local and not t['dest'].get('pr'):
        out.append(('call', t.get('resolved') or t.get('fn'), [body.origin(a) for a in t['args']], t.get('name')))
    return out


def writers_of(body, local):
    """live blocks that write the whole of `local`"""
    out = []
    for bb in sorted(body.live_blocks()):
        if block_writes(body, bb, local):
            out.append(bb)
    return out


# --------------------------------------------------------------------------------------------
# P9: panic sites

PANIC_CALL_NAMES = {'unwrap', 'expect', 'unwrap_err', 'expect_err', 'unwrap_unchecked'}
PANIC_FN_PAT = re.compile(r'(^|::)(panicking::panic\w*|panic_fmt|panic_display|panic_str|begin_panic\w*|unreachable_display|panic_explicit|panic_nounwind\w*|assert_failed\w*|unwrap_failed|expect_failed)$')
BUF_PANIC = re.compile(r'bytes::(Buf|BufMut)::(get_\w+|advance|copy_to_bytes|copy_to_slice|put_\w+|advance_mut)$|BytesMut::(split_to|split_off|advance)$|Bytes::(split_to|split_off|slice)$')
IGNORED_MACRO_CRATES = ('tracing', 'tracing_core', 'pin_project', 'pin_project_lite', 'tokio')


def mac_crates(t):
    return [m.split('::')[0] for m in t.get('mac', [])]


def panic_sites(body, include_buf=True, include_index=True):
    """[(bb, kind, what, term)] potential panic sites in live, non-cleanup blocks"""
    out = []
    for bb in sorted(body.live_blocks()):
        t = body.term(bb)
        mc = mac_crates(t)
        if any(c in IGNORED_MACRO_CRATES for c in mc):
            continue
        if t['k'] == 'assert':
            if t['msg'].startswith('Resumed'):
                continue
            out.append((bb, 'assert', t['msg'], t))
        elif t['k'] == 'call':
            fn = t.get('fn') or ''
            nm = t.get('name')
            if nm in PANIC_CALL_NAMES and re.search(r'(Option|Result)(::)?<', fn):
                out.append((bb, 'unwrap', short(fn), t))
            elif PANIC_FN_PAT.search(fn):
                out.append((bb, 'panic', short(fn), t))
            elif include_buf and BUF_PANIC.search(fn):
                out.append((bb, 'buf', short(fn), t))
            elif include_index and (fn.endswith('ops::Index::index') or fn.endswith('ops::IndexMut::index_mut')):
                out.append((bb, 'index', short(fn) + ' on ' + (t.get('self_ty') or '?'), t))
    return out


def call_graph(crate):
    """{body.path: set(callee paths in same crate)} including closure/coroutine creation edges"""
    paths = set(crate.by_path)
    g = defaultdict(set)
    for b in crate.bodies:
        if b.kind == 'promoted':
            continue
        for blk in b.blocks:
            if blk.get('cleanup'):
                continue
            t = blk['term']
            if t['k'] in ('call', 'tailcall'):
                for k in ('resolved', 'fn'):
                    p = t.get(k)
                    if p and p in paths:
                        g[b.path].add(p)
                # fn items passed as arguments (map(f), etc.)
                for a in t.get('args', []):
                    if 'k' in a and 'fn' in a['k'] and a['k']['fn'] in paths:
                        g[b.path].add(a['k']['fn'])
            for st in blk['stmts']:
                rv = st.get('rv')
                if rv and 'agg' in rv and rv['agg'].get('def') in paths:
                    g[b.path].add(rv['agg']['def'])
                if rv and 'use' in rv and 'k' in rv['use'] and rv['use']['k'].get('fn') in paths:
                    g[b.path].add(rv['use']['k']['fn'])
    return g


def reach(graph, roots):
    seen = set()
    dq = deque(roots)
    while dq:
        x = dq.popleft()
        if x in seen:
            continue
        seen.add(x)
        for y in graph.get(x, ()):
            if y not in seen:
                dq.append(y)
    return seen


def root_local(body, operand_or_local):
    """follow single-definition whole-local copies/moves back to the first local that is defined otherwise"""
    if isinstance(operand_or_local, dict):
        p = operand_or_local.get('cp') or operand_or_local.get('mv') or operand_or_local
        if p.get('pr'):
            return None
        l = p['l']
    else:
        l = operand_or_local
    for _ in range(20):
        ds = body.defs().get(l, [])
        if len(ds) == 1 and ds[0][0] == 'stmt' and 'use' in ds[0][3]:
            src = ds[0][3]['use']
            sp = src.get('cp') or src.get('mv')
            if sp and not sp.get('pr'):
                l = sp['l']
                continue
        break
    return l


# --------------------------------------------------------------------------------------------
# P11: small forward typestate interpreter

class TypeState:
    """Forward may-analysis over a body.  Abstract state: dict var -> frozenset(values) (a var missing = ⊤ is
    not used: every tracked var must be initialised).  Hooks (all optional, return a NEW dict or None):
      on_stmt(body, bb, i, stmt, st) -> st'
      on_term(body, bb, term, st)     -> st'          (effect of the terminator itself, e.g. a call)
      on_edge(body, bb, target, vals, st) -> st' | False (False = edge infeasible under st)
    Result: self.inp[bb], self.out[bb] after run(); self.at_term[bb] = state just before the terminator's effect."""

    def __init__(self, body, init, on_stmt=None, on_term=None, on_edge=None):
        self.body = body
        self.init = {k: frozenset(v) for k, v in init.items()}
        self.on_stmt = on_stmt
        self.on_term = on_term
        self.on_edge = on_edge
        self.inp = {}
        self.out = {}
        self.at_term = {}
        self.after_stmt = {}

    @staticmethod
    def join(a, b):
        if a is None:
            return dict(b)
        out = dict(a)
        for k, v in b.items():
            out[k] = out.get(k, frozenset()) | v
        return out

    def run(self, limit=20000):
        body = self.body
        self.inp[0] = dict(self.init)
        work = deque([0])
        n = 0
        while work:
            bb = work.popleft()
            n += 1
            if n > limit:
                raise CheckError('UNRECOGNISED: typestate did not converge in %s' % body.path)
            st = dict(self.inp[bb])
            for i, stmt in enumerate(body.blocks[bb]['stmts']):
                if self.on_stmt:
                    r = self.on_stmt(body, bb, i, stmt, st)
                    if r is not None:
                        st = r
                self.after_stmt[(bb, i)] = dict(st)
            self.at_term[bb] = dict(st)
            t = body.term(bb)
            if self.on_term:
                r = self.on_term(body, bb, t, st)
                if r is not None:
                    st = r
            self.out[bb] = dict(st)
            if t['k'] == 'switch':
                edges = body.switch_edges(bb)
                for tgt, vals in edges.items():
                    s2 = st
                    if self.on_edge:
                        r = self.on_edge(body, bb, tgt, vals, dict(st))
                        if r is False:
                            continue
                        if r is not None:
                            s2 = r
                    self._flow(tgt, s2, work)
            else:
                for tgt in body.succs(bb):
                    self._flow(tgt, st, work)
        return self

    def _flow(self, tgt, st, work):
        old = self.inp.get(tgt)
        new = self.join(old, st)
        if old is None or new != old:
            self.inp[tgt] = new
            if tgt not in work:
                work.append(tgt)


def place_is_field(p, names):
    """does place p end with the field-name sequence `names` (ignoring derefs / downcasts in between)?"""
    got = [e.get('n') for e in p.get('pr', []) if isinstance(e, dict) and 'f' in e]
    return got[-len(names):] == list(names)


def rvalue_variant(body, rv):
    """if rvalue builds (directly, or via a single-def temp) an ADT variant, return (adt, variant, op terms)"""
    if 'agg' in rv and rv['agg'].get('kind') == 'adt':
        return rv['agg']['adt'], rv['agg']['variant'], [body.origin(o) for o in rv['ops']]
    if 'use' in rv:
        t = strip_refs(body.origin(rv['use']))
        if t[0] == 'agg' and t[1].get('kind') == 'adt':
            return t[1]['adt'], t[1]['variant'], t[2]
    return None


def unawait(t):
    """strip the `.await` desugaring from an origin term: (poll(Pin::new_unchecked(&mut fut), cx) as Ready).0 -> fut"""
    cur = t
    for _ in range(8):
        cur = strip_refs(cur)
        if cur[0] == 'field' and cur[1][0] == 'variant' and cur[1][2] == 'Ready':
            inner = strip_refs(cur[1][1])
            if is_call(inner, name='poll'):
                f = strip_refs(inner[2][0])
                while is_call(f, name='new_unchecked') or is_call(f, name='new') or is_call(f, name='as_mut') or is_call(f, name='into_future'):
                    f = strip_refs(f[2][0])
                return f
        if cur[0] == 'phi':
            # take the first alternative that unwraps
            for alt in cur[1]:
                r = unawait(alt)
                if r is not alt:
                    return r
        return cur
    return cur


def named_root(body, operand, limit=12):
    """follow refs / derefs / Deref::deref(_mut) calls / copies back to the first local that carries a source name"""
    p = operand.get('cp') or operand.get('mv') or operand if isinstance(operand, dict) else {'l': operand}
    l = p['l']
    for _ in range(limit):
        if body.name_of(l) is not None:
            return l
        ds = body.defs().get(l, [])
        if len(ds) != 1:
            return None
        d = ds[0]
        if d[0] == 'call':
            t = d[2]
            if t.get('name') in ('deref', 'deref_mut', 'as_ref', 'as_mut', 'borrow', 'borrow_mut') and t['args']:
                a = t['args'][0]
                ap = a.get('cp') or a.get('mv')
                if ap is None:
                    return None
                l = ap['l']
                continue
            return None
        rv = d[3]
        if 'ref' in rv:
            l = rv['ref']['l']
            continue
        if 'use' in rv:
            sp = rv['use'].get('cp') or rv['use'].get('mv')
            if sp is None:
                return None
            l = sp['l']
            continue
        return None
    return None


def prefix_writes(body, calls=None):
    """writes into a message prefix: [(bb, width, endian, value term, call term)] for put_u8 / put_u32 / put_u32_le /
    put_slice(&x.to_be_bytes() | to_le_bytes())"""
    out = []
    for bb, t in (calls if calls is not None else body.calls(pat='BufMut::put_')):
        nm = t.get('name')
        v = body.origin(t['args'][1]) if len(t['args']) > 1 else ('x',)
        if nm == 'put_u8':
            out.append((bb, 1, 'be', v, t))
        elif nm in ('put_u32', 'put_u32_ne') and nm == 'put_u32':
            out.append((bb, 4, 'be', v, t))
        elif nm == 'put_u32_le':
            out.append((bb, 4, 'le', v, t))
        elif nm == 'put_slice':
            tb = [x for x in _find(v, lambda x: is_call(x) and x[3] in ('to_be_bytes', 'to_le_bytes'))]
            if tb:
                ty = tb[0][4].get('fn') or ''
                width = 4 if 'u32' in ty else (8 if 'u64' in ty else (2 if 'u16' in ty else None))
                out.append((bb, width, 'be' if tb[0][3] == 'to_be_bytes' else 'le', tb[0][2][0], t))
            else:
                out.append((bb, None, '?', v, t))
        else:
            out.append((bb, None, '?', v, t))
    return out


def _find(t, pred, out=None):
    if out is None:
        out = []
    if pred(t):
        out.append(t)
    if isinstance(t, tuple):
        for x in t[1:]:
            if isinstance(x, tuple):
                _find(x, pred, out)
            elif isinstance(x, list):
                for y in x:
                    if isinstance(y, tuple):
                        _find(y, pred, out)
    return out


NEVER = ('never',)


def simplify(t, depth=0):
    """project through known constructors: (V{x} as V).0 -> x, (W{..} as V).0 -> infeasible (dropped from a phi),
    branch(Ok{x}|Some{x}) as Continue.0 -> x, tuple{a, b}.1 -> b, Struct{f: a}.f -> a.  Terms it does not understand are kept."""
    if depth > 60 or not isinstance(t, tuple) or not t:
        return t
    k = t[0]
    if k in ('ref', 'deref'):
        inner = simplify(t[1], depth + 1)
        return inner if inner is NEVER else (k, inner) + tuple(t[2:])
    if k == 'phi':
        alts = []
        for a in t[1]:
            sa = simplify(a, depth + 1)
            if sa is NEVER:
                continue
            if sa and sa[0] == 'phi':
                alts.extend(sa[1])
            else:
                alts.append(sa)
        uniq = []
        for a in alts:
            if a not in uniq:
                uniq.append(a)
        if not uniq:
            return NEVER
        if len(uniq) == 1:
            return uniq[0]
        return ('phi', uniq) + tuple(t[2:])
    if k == 'field':
        base = t[1]
        if isinstance(base, tuple) and base and base[0] == 'variant':
            want = base[2]
            inner = strip_refs(simplify(base[1], depth + 1))
            r = _project_variant(inner, want, t[2], depth)
            if r is not None:
                return r
            return ('field', ('variant', inner, want), t[2])
        inner = strip_refs(simplify(base, depth + 1))
        if inner is NEVER:
            return NEVER
        r = _project_field(inner, t[2], depth)
        if r is not None:
            return r
        return ('field', inner, t[2])
    if k == 'cast' and len(t) > 2:
        inner = simplify(t[2], depth + 1)
        return NEVER if inner is NEVER else (t[0], t[1], inner) + tuple(t[3:])
    if k == 'discr':
        inner = simplify(t[1], depth + 1)
        return NEVER if inner is NEVER else ('discr', inner) + tuple(t[2:])
    if k == 'bin':
        a, b = simplify(t[2], depth + 1), simplify(t[3], depth + 1)
        return NEVER if (a is NEVER or b is NEVER) else ('bin', t[1], a, b) + tuple(t[4:])
    if k == 'un':
        a = simplify(t[2], depth + 1)
        return NEVER if a is NEVER else ('un', t[1], a) + tuple(t[3:])
    if k == 'agg' and len(t) > 2 and isinstance(t[2], list):
        ops = [simplify(o, depth + 1) for o in t[2]]
        if any(o is NEVER for o in ops):
            return NEVER
        return ('agg', t[1], ops) + tuple(t[3:])
    if k == 'call' and len(t) > 2 and isinstance(t[2], list):
        ops = [simplify(o, depth + 1) for o in t[2]]
        if any(o is NEVER for o in ops):
            return NEVER
        if len(t) > 3 and t[3] in ('map', 'map_ok', 'map_err') and re.search(r'task::(poll::)?Poll', t[1]) and ops:
            r0 = strip_refs(ops[0])
            if r0 and r0[0] == 'agg' and r0[1].get('variant') == 'Pending':
                return r0  # Poll::Pending.map(f) is Poll::Pending
        return ('call', t[1], ops) + tuple(t[3:])
    return t


def _project_field(inner, name, depth):
    if inner and inner[0] == 'phi':
        return simplify(('phi', [('field', a, name) for a in inner[1]]), depth + 1)
    if inner and inner[0] == 'agg':
        meta, ops = inner[1], inner[2]
        if meta.get('kind') == 'tuple' and str(name).isdigit() and int(name) < len(ops):
            return simplify(ops[int(name)], depth + 1)
        if meta.get('kind') == 'adt' and not meta.get('variant_is_enum') and name in (meta.get('fields') or []):
            return simplify(ops[meta['fields'].index(name)], depth + 1)
    return None


def _project_variant(inner, want, fld, depth):
    """payload field `fld` of `inner` seen as variant `want`"""
    if inner is NEVER:
        return NEVER
    if inner and inner[0] == 'phi':
        return simplify(('phi', [('field', ('variant', a, want), fld) for a in inner[1]]), depth + 1)
    if inner and inner[0] == 'agg' and inner[1].get('variant'):
        if inner[1]['variant'] != want:
            return NEVER
        flds = inner[1].get('fields') or []
        idx = flds.index(str(fld)) if str(fld) in flds else (int(fld) if str(fld).isdigit() else None)
        if idx is not None and idx < len(inner[2]):
            return simplify(inner[2][idx], depth + 1)
        return None
    if is_call(inner, name='branch') and want in ('Continue', 'Break'):
        x = strip_refs(simplify(inner[2][0], depth + 1))
        if want == 'Continue':
            outs = []
            alts = x[1] if x and x[0] == 'phi' else [x]
            for a in alts:
                a = strip_refs(a)
                if a and a[0] == 'agg' and a[1].get('variant') in ('Ok', 'Some'):
                    outs.append(simplify(a[2][0], depth + 1) if a[2] else a)
                elif a and a[0] == 'agg' and a[1].get('variant') in ('Err', 'None'):
                    continue
                elif is_call(a, name='from_residual'):
                    continue  # FromResidual::from_residual always yields the Break-side value (Err / None)
                else:
                    outs.append(('field', ('variant', ('call',) + tuple(inner[1:2]) + ([a],) + tuple(inner[3:]), want), fld))
            return simplify(('phi', outs), depth + 1) if outs else NEVER
    return None


def norm_cmp(o):
    """normalise an ordering comparison term so that the operator is Gt or Ge: Lt(a,b) -> Gt(b,a), Le(a,b) -> Ge(b,a)"""
    if isinstance(o, tuple) and o and o[0] == 'bin':
        if o[1] == 'Lt':
            return ('bin', 'Gt', o[3], o[2])
        if o[1] == 'Le':
            return ('bin', 'Ge', o[3], o[2])
    return o
