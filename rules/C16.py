"""C16 — grpc-web server layer translates requests and responses losslessly (structural clauses)."""
import re
from common import *
import mirlib

META = {
    'explanation': 'The dispatch table of GrpcWebService::call (content-type x method x version -> action) is extracted as decision rows with '
                   'enum variant names; content-type tables are compared with the four spec constants; the encoding flow (request body: '
                   'content-type, response body and content-type: Accept) is traced by operand origin; the trailers frame layout '
                   '(0x80, big-endian length, every entry as name:value CRLF) and the base64 request decoder (split at multiples of 4, '
                   'leftover at end => error) are checked by call identity, constants and guards.',
    'exhaustive': True,
    'assumptions': ['http::method::Inner / http::version::Http variant names identify POST and HTTP/2'],
}


def arg_root_via_parts(body, operand):
    """parameter number the operand is taken from, also through `let (head, body) = x.into_parts()`"""
    t = strip_refs(body.origin(operand))
    for _ in range(4):
        if t and t[0] == 'field' and is_call(strip_refs(t[1]), name='into_parts'):
            t = strip_refs(strip_refs(t[1])[2][0])
    return arg_root(t)


def check_trailer_writer(R, web, rule):
    """tonic-web's encode_trailers writes every (name, value) entry of the trailer map as `name ":" value CRLF` - one line per value,
    so a repeated key reaches the client as repeated entries (joined with "," it would arrive as one entry with another value)"""
    en = web.body('call::encode_trailers')
    R.saw(en)
    # every (name, value) entry of the map: HeaderMap::iter() / (&HeaderMap).into_iter(), consumed by fold / for_each / a for loop
    it = [(bb, t) for bb, t in en.calls(name='iter') if 'HeaderMap' in (t.get('fn') or '')] + [(bb, t) for bb, t in en.calls(name='into_iter') if re.search(r'&(\'\w+ )?http::HeaderMap', str(t.get('self_ty')) + str(t.get('resolved')))]
    bad_it = [t.get('name') for bb, t in en.calls() if t.get('name') in ('keys', 'values', 'get', 'index', 'drain') and 'HeaderMap' in (t.get('fn') or '') + str(t.get('self_ty'))]
    R.check(len(it) == 1 and not bad_it, rule, 'every-entry', site(en), 'iterates HeaderMap::iter() (every value of every name): %d site(s); other map accessors: %r' % (len(it), bad_it))
    cl = [c for c in web.children(en) if c.kind == 'closure']
    wb = cl[0] if len(cl) == 1 and not [1 for bb, t in en.calls() if t.get('name') in ('put_slice', 'extend_from_slice', 'push', 'put_u8')] else (en if not cl else None)
    if wb is not None:
        c = wb
        R.saw(c)
        seq = []
        for bb in sorted(c.live_blocks(), key=lambda x: len(c.dominators().get(x, ()))):
            t = c.term(bb)
            if t['k'] == 'call' and t.get('name') in ('put_slice', 'push', 'put_u8', 'extend_from_slice', 'put'):
                a = c.origin(t['args'][1])
                cv = const_val(strip_refs(a))
                srcs = [str(x[4].get('fn')) + str(x[4].get('self_ty')) + str(x[4].get('resolved')) for x in find_terms(a, lambda x: is_call(x))]
                if cv == ord(':') or cv == b':':
                    seq.append(':')
                elif isinstance(cv, bytes) and cv == b'\r\n':
                    seq.append('CRLF')
                elif any('HeaderName' in x for x in srcs):
                    seq.append('name')
                elif any('HeaderValue' in x for x in srcs):
                    seq.append('value')
                else:
                    seq.append('?' + show(a)[:30])
        R.eq(seq, ['name', ':', 'value', 'CRLF'], rule, 'entry-grammar', site(c), 'bytes written per entry')
        if c is en:
            wr = [bb for bb, t in en.calls() if t.get('name') in ('put_slice', 'extend_from_slice')]
            R.check(bool(wr) and all(en.succs(x) and x in en.reachable(en.succs(x)[0]) for x in wr), rule, 'entry-grammar:in-loop', site(en), 'the per-entry writes are inside the loop over the entries')
    else:
        R.bad(rule, 'entry-grammar', site(en), 'encode_trailers has %d closures' % len(cl), kind='UNRECOGNISED')


def run(R):
    web = R.crate('tonic_web')
    W = spec('wire')['grpc_web']

    # ---------------------------------------------------------------- R1 dispatch table
    R.describe('C16.R1', 'GrpcWebService::call: (grpc-web, POST) -> inner.call(coerce_request(req, encoding)); (grpc-web, other method) -> 405; other HTTP/2 -> inner.call(req) untouched; other -> 400')
    with R.guard('C16.R1'):
        b = web.body(re.compile(r'service::GrpcWebService<S> as tower_service::Service<http::Request<ReqBody>>>::call$'))
        R.saw(b)
        # by feasible path: the Case stored in the returned ResponseFuture against the request kind / method / version tests passed
        table = {}
        prow = mirlib.path_rows(b, relevant=lambda sub_: sub_.startswith('discr('))
        R.floor('C16.R1', 'dispatch arms', len(prow), 4)
        for cons, path in prow:
            bb = path[-1]
            val = strip_refs(mirlib.simplify(b.ret_on_path(path)))
            if not (val and val[0] == 'agg' and (val[1].get('adt') or '').endswith('service::ResponseFuture')):
                R.bad('C16.R1', 'row-shape', site(b, bb), 'call() returns %s' % show(val)[:100], kind='UNRECOGNISED')
                continue
            kind = None
            method = None
            version = None
            for s, tm, vals in b.path_tests(path):
                if tm[0] != 'discr' or len(tm) < 3 or not tm[2]:
                    continue
                names = {v: n for v, n in tm[2]}
                if (tm[3] or '').endswith('service::RequestKind'):
                    kind = [names.get(v, v) for v in vals] if vals != ['else'] else [n for v, n in tm[2] if v not in [a_ for a_, _ in b.term(s)['arms']]]
                elif (tm[3] or '').endswith('Method') or 'method::Inner' in (tm[3] or '') or term_contains(tm, lambda x: x and x[0] == 'field' and x[2] == 'method'):
                    method = ('==', tuple(names.get(v) for v in vals)) if vals != ['else'] else ('!=', tuple(names.get(v) for v, _ in b.term(s)['arms']))
                elif (tm[3] or '').endswith('Version') or 'version::Http' in (tm[3] or ''):
                    version = ('==', tuple(names.get(v) for v in vals)) if vals != ['else'] else ('!=', tuple(names.get(v) for v, _ in b.term(s)['arms']))
            case = strip_refs(val[2][val[1]['fields'].index('case')])
            act = None
            if case[0] == 'agg':
                act = case[1].get('variant')
            elif is_call(case, name='immediate'):
                act = 'immediate:%s' % (constdef(case[2][0]) or '?').split('::')[-1]
            key = (tuple(kind or ()), method, version)
            if key in table and table[key][0] != act:
                R.bad('C16.R1', 'row-ambiguous', site(b, bb), 'dispatch %r answers both %r and %r' % (key, table[key][0], act))
            table[key] = (act, bb, case)
        want = {
            (('GrpcWeb',), ('==', ('Post',)), None): 'GrpcWeb',
            (('GrpcWeb',), ('!=', ('Post',)), None): 'immediate:METHOD_NOT_ALLOWED',
            (('Other',), None, ('==', ('H2',))): 'Other',
            (('Other',), None, ('!=', ('H2',))): 'immediate:BAD_REQUEST',
        }
        for k, v in want.items():
            got = table.get(k)
            R.check(got is not None and got[0] == v, 'C16.R1', 'row:%s/%s/%s' % (k[0][0], (k[1] or ('', ['-']))[0] + str((k[1] or ('', ['-']))[1][0]), (k[2] or ('', ['-']))[0] + str((k[2] or ('', ['-']))[1][0])),
                    site(b, got[1]) if got else site(b), 'dispatch %r -> %r (required %r); rows extracted: %r' % (k, got[0] if got else None, v, {kk: vv[0] for kk, vv in table.items()}))
        R.eq(len(table), 4, 'C16.R1', 'row-count', site(b), 'number of dispatch rows')
        # actions' arguments
        for k, (act, bb, case) in table.items():
            if act == 'GrpcWeb':
                fut = case[2][case[1]['fields'].index('future')]
                acc = case[2][case[1]['fields'].index('accept')]
                okf = is_call(strip_refs(fut), pat='Service::call') and term_contains(fut, lambda x: is_call(x, name='coerce_request'))
                R.check(okf, 'C16.R1', 'grpc-web:inner.call(coerce_request)', site(b, bb), 'future = %s' % show(fut)[:100])
                cr = find_terms(fut, lambda x: is_call(x, name='coerce_request'))
                if cr:
                    enc = cr[0][2][1]
                    R.check(field_names(enc)[-1:] == ['encoding'], 'C16.R1', 'grpc-web:request-encoding=content-type', site(b, bb), 'coerce_request encoding = %s' % show(enc))
                R.check(field_names(acc)[-1:] == ['accept'], 'C16.R1', 'grpc-web:response-encoding=accept', site(b, bb), 'Case::GrpcWeb.accept = %s' % show(acc))
            elif act == 'Other':
                fut = case[2][case[1]['fields'].index('future')]
                okf = is_call(strip_refs(fut), pat='Service::call') and not term_contains(fut, lambda x: is_call(x, name='coerce_request'))
                mp = find_terms(fut, lambda x: is_call(x, name='map') and 'Request' in x[1])
                okm = bool(mp) and mp[0][2][0][0] == 'arg' and term_contains(mp[0][2][1], lambda x: x and x[0] == 'fnitem' and x[1].endswith('Body::new'))
                R.check(okf and okm, 'C16.R1', 'other-h2:pass-through', site(b, bb), 'future = %s' % show(fut)[:120])
        # no header mutation on the pass-through arm
        oth = [v for k, v in table.items() if v[0] == 'Other']
        if oth:
            reg = [x for x in b.live_blocks() if b.dominates(x, oth[0][1]) or x == oth[0][1]]
            mut = [t['name'] for x in reg for t in [b.term(x)] if t['k'] == 'call' and t.get('name') in ('headers_mut', 'insert', 'remove', 'append') and any(s == sw and vals != [] for s, vals, tm in b.edge_guards(x) for sw in [s] if (tm[0] == 'discr' and (tm[3] or '').endswith('RequestKind')))]
            R.check(not mut, 'C16.R1', 'other-h2:no-header-mutation', site(b, oth[0][1]), 'header mutations on the pass-through path: %r' % mut)
        im = web.body('service::Case::<F>::immediate')
        R.saw(im)
        stc = im.calls(name='status')
        R.check(len(stc) == 1 and show(im.origin(stc[0][1]['args'][1])).startswith('arg1'), 'C16.R1', 'immediate-uses-given-status', site(im), 'Response::builder().status(status)')
        rk = web.body("service::RequestKind::<'a>::new")
        R.saw(rk)
        ig = rk.calls(name='is_grpc_web')
        R.check(len(ig) == 1, 'C16.R1', 'kind-by-is_grpc_web', site(rk), 'is_grpc_web sites: %d' % len(ig))
        for bb, i, p, a, ops in mirlib.aggregates(rk, 'service::RequestKind', 'GrpcWeb'):
            f = a['fields']
            e, ac, m = rk.origin(ops[f.index('encoding')]), rk.origin(ops[f.index('accept')]), rk.origin(ops[f.index('method')])
            R.check(is_call(e, name='from_content_type') and is_call(ac, name='from_accept') and (strip_refs(m)[0] == 'arg' or (is_call(strip_refs(m), name='method') and 'Request' in strip_refs(m)[1] and arg_root(strip_refs(m)[2][0]) is not None)), 'C16.R1', 'kind-fields', site(rk, bb, i), 'encoding=%s accept=%s method=%s' % (show(e)[:50], show(ac)[:50], show(m)))
            g = rk.edge_guards(bb)
            R.check(any(is_call(strip_refs(tm), name='is_grpc_web') and (vals == ['else'] or 0 not in vals) for s, vals, tm in g), 'C16.R1', 'grpc-web-iff-content-type', site(rk, bb, i), 'GrpcWeb kind only when is_grpc_web(headers)')

    # ---------------------------------------------------------------- R2 content-type tables
    R.describe('C16.R2', 'is_grpc_web accepts exactly the four grpc-web content-types; Encoding::from_header: the two text types -> Base64 else None; to_content_type is the inverse on the +proto forms')
    with R.guard('C16.R2'):
        cts = {}
        for nm in ('GRPC_WEB', 'GRPC_WEB_PROTO', 'GRPC_WEB_TEXT', 'GRPC_WEB_TEXT_PROTO'):
            cts[nm] = web.const('call::content_types::' + nm).get('v')
        R.eq(sorted(cts.values()), sorted(W['content_types']), 'C16.R2', 'constants', 'tonic-web/src/call.rs', 'grpc-web content-type constants')
        ig = web.body('call::content_types::is_grpc_web')
        R.saw(ig)
        rows = decision_rows(ig, 0, writers_of(ig, 0))
        acc, rej = set(), 0
        for cons, bb in rows:
            w = block_writes(ig, bb, 0)
            val = const_val(w[0][1]) if w and w[0][0] == 'term' else None
            tok, _ = token_of(cons)
            if val is True:
                acc.add(tok)
            elif val is False:
                rej += 1
            else:
                R.bad('C16.R2', 'is_grpc_web:shape', site(ig, bb), 'unrecognised row %r -> %r' % (cons, w), kind='UNRECOGNISED')
        R.eq(sorted(x for x in acc if x), sorted(W['content_types']), 'C16.R2', 'is_grpc_web:accepted', site(ig), 'content-types accepted as grpc-web')
        R.check(rej >= 1, 'C16.R2', 'is_grpc_web:default-false', site(ig), 'anything else is not grpc-web')
        ct = web.body('call::content_types::content_type')
        R.check(any((constdef(ct.origin(t['args'][1])) or '').endswith('CONTENT_TYPE') for bb, t in ct.calls(name='get')), 'C16.R2', 'reads-content-type-header', site(ct), 'content_type() reads CONTENT_TYPE')
        # the classifier (is_grpc_web) and the decoder selector (Encoding::from_content_type) must read the header the same way: the
        # raw value, compared exactly. Stripping parameters / trimming / case-folding in one of them lets a request be accepted as
        # grpc-web-text while its body is passed on undecoded.
        NORMALISERS = ('split', 'splitn', 'split_once', 'trim', 'trim_start', 'trim_end', 'to_lowercase', 'to_ascii_lowercase', 'eq_ignore_ascii_case', 'starts_with', 'strip_suffix', 'strip_prefix', 'find', 'rsplit', 'parse')
        for nm_ in ('call::content_types::content_type', 'call::content_types::is_grpc_web', 'call::Encoding::from_content_type', 'call::Encoding::from_header'):
            fb_ = web.body(nm_)
            fam_ = family(web, fb_)
            used = sorted({t_['name'] for m_ in fam_ for bb_, t_ in m_.calls() if t_.get('name') in NORMALISERS and 'str' in (t_.get('fn') or '') + (t_.get('self_ty') or '')})
            R.check(not used, 'C16.R2', 'content-type-read-raw:%s' % nm_.split('::')[-1], site(fb_), '%s compares the content-type value exactly as sent (normalising calls: %r)' % (nm_.split('::')[-1], used))
        fh = web.body('call::Encoding::from_header')
        R.saw(fh)
        rows = decision_rows(fh, 0, writers_of(fh, 0))
        b64, none = set(), 0
        for cons, bb in rows:
            var = variant_of(block_writes(fh, bb, 0))
            tok, _ = token_of(cons)
            if var == 'Base64':
                b64.add(tok)
            elif var == 'None':
                none += 1
        R.eq(sorted(x for x in b64 if x), sorted(W['text_types']), 'C16.R2', 'from_header:text->Base64', site(fh), 'content-types selecting Base64')
        R.check(none >= 1, 'C16.R2', 'from_header:default-None', site(fh), 'other values -> Encoding::None')
        for nm, hdr in (('from_content_type', 'CONTENT_TYPE'), ('from_accept', 'ACCEPT')):
            fb = web.body('call::Encoding::' + nm)
            g = fb.calls(name='get')
            R.check(len(g) == 1 and (constdef(fb.origin(g[0][1]['args'][1])) or '').endswith('header::' + hdr), 'C16.R2', '%s-reads-%s' % (nm, hdr), site(fb), '%s reads header %s' % (nm, hdr))
        tc = web.body('call::Encoding::to_content_type')
        R.saw(tc)
        eadt = {v['discr']: v['name'] for v in web.adt('call::Encoding')['variants']}
        rows = decision_rows(tc, 0, writers_of(tc, 0))
        got = {}
        for cons, bb in rows:
            d = cons_dict(cons)
            ds = [v for k, v in d.items() if k.startswith('discr(')]
            w = block_writes(tc, bb, 0)
            s = const_str(w[0][1]) if w and w[0][0] == 'term' else None
            if s is None and w and w[0][0] == 'term':
                cd = constdef(w[0][1])
                s = web.consts.get(cd, {}).get('v') if cd else None
            if ds and ds[0][0] == '==':
                got[eadt.get(ds[0][1])] = s
        R.eq(got.get('Base64'), 'application/grpc-web-text+proto', 'C16.R2', 'to_content_type:Base64', site(tc), 'content-type for Base64')
        R.eq(got.get('None'), 'application/grpc-web+proto', 'C16.R2', 'to_content_type:None', site(tc), 'content-type for binary')

    # ---------------------------------------------------------------- R3 encoding flow
    R.describe('C16.R3', 'coerce_request wraps the body with GrpcWebCall::request(b, encoding) and sets content-type application/grpc; coerce_response(res, accept) uses the same encoding for the body wrapper and the response content-type')
    with R.guard('C16.R3'):
        cq = web.body('service::coerce_request')
        R.saw(cq)
        ins = {(constdef(cq.origin(t['args'][1])) or '').split('::')[-1]: cq.origin(t['args'][2]) for bb, t in cq.calls(pat='HeaderMap', name='insert')}
        R.check('CONTENT_TYPE' in ins and (constdef(ins['CONTENT_TYPE']) or '').endswith('GRPC_CONTENT_TYPE'), 'C16.R3', 'request:content-type=grpc', site(cq), 'content-type := %s' % (show(ins.get('CONTENT_TYPE')) if 'CONTENT_TYPE' in ins else None))
        cl = [c for c in web.children(cq) if c.kind == 'closure']
        okw = False
        for c in cl:
            for bb, t in c.calls(name='request'):
                if 'GrpcWebCall' in (t.get('fn') or ''):
                    okw = 'encoding' in show(c.origin(t['args'][1]))
        R.check(okw, 'C16.R3', 'request:body-wrapped-with-content-type-encoding', site(cq), 'req.map(|b| GrpcWebCall::request(b, encoding))')
        cp = web.body('service::coerce_response')
        R.saw(cp)
        cl = [c for c in family(web, cp) if c is not cp and c.kind == 'closure']
        # the wrapper call: in a closure handed to Response::map, or directly on the body taken out of the response's parts
        wsites = [(c, bb, t) for c in [cp] + cl for bb, t in c.calls(name='response') if 'GrpcWebCall' in (t.get('fn') or '')]
        enc_params = [i_ + 1 for i_, ty_ in enumerate(web.sig('service::coerce_response')['inputs']) if ty_.split('::')[-1] == 'Encoding']
        okw = False
        if len(wsites) == 1 and len(enc_params) == 1:
            c, bb, t = wsites[0]
            enc = resolve_env(web, c, c.origin(t['args'][1]), within=[cp])
            okw = arg_root(strip_refs(enc)) == enc_params[0] or (c is not cp and 'encoding' in show(c.origin(t['args'][1])) and strip_refs(enc)[0] != 'call')
        R.check(okw, 'C16.R3', 'response:body-wrapped-with-encoding', site(cp), 'res.map(|b| GrpcWebCall::response(b, encoding))')
        # .. on every path: whatever the inner service answered (also application/grpc+proto) is translated; no pass-through return
        maps_ = [bb_ for bb_, t_ in cp.calls(name='map') if any(strip_refs(cp.origin(a_))[:1] == ('agg',) and any(t2_.get('name') == 'response' and 'GrpcWebCall' in (t2_.get('fn') or '') for c_ in cl if c_.path == strip_refs(cp.origin(a_))[1].get('def') for bb2_, t2_ in c_.calls()) for a_ in t_['args'])]
        maps_ += [bb_ for c_, bb_, t_ in wsites if c_ is cp]
        okall = len(maps_) == 1 and all(cp.must_pass(0, rb_, maps_) for rb_ in cp.return_blocks())
        if okall and wsites and wsites[0][0] is cp:
            # direct form: the wrapped body is what the returned response carries, and it wraps the inner response's own body
            rt_ = mirlib.returned_terms(cp)
            okall = len(rt_) == 1 and term_contains(rt_[0][1], lambda x: is_call(x, name='response') and 'GrpcWebCall' in x[1]) and arg_root_via_parts(cp, wsites[0][2]['args'][0]) == 1
        R.check(okall, 'C16.R3', 'response:translated-on-every-path', site(cp), 'every path of coerce_response wraps the body with GrpcWebCall::response: %r' % okall)
        ins = [(bb, t) for bb, t in cp.calls(pat='HeaderMap', name='insert') if (constdef(cp.origin(t['args'][1])) or '').endswith('CONTENT_TYPE')]
        okc = len(ins) == 1 and term_contains(cp.origin(ins[0][1]['args'][2]), lambda x: is_call(x, name='to_content_type') and 'arg2' in show(x))
        R.check(okc, 'C16.R3', 'response:content-type=to_content_type(encoding)', site(cp), 'content-type := %s' % (show(cp.origin(ins[0][1]['args'][2]))[:100] if ins else None))
        rp = web.body(re.compile(r'service::ResponseFuture<F> as std::future::Future>::poll$'))
        R.saw(rp)
        # called in poll itself, or in the closure of `future.poll(cx).map_ok(|res| coerce_response(res, *accept))`
        cr = [(m_, bb_, t_) for m_ in family(web, rp) for bb_, t_ in m_.calls(name='coerce_response')]
        enc_ = show(resolve_env(web, cr[0][0], cr[0][0].origin(cr[0][2]['args'][1]), within=family(web, rp))) if cr else None
        R.check(len(cr) == 1 and 'accept' in enc_, 'C16.R3', 'poll:coerce_response(res, accept)', site(rp), 'coerce_response encoding argument = %s' % (enc_[:100] if enc_ else None))
        for nm, dirn in (('request', 'Decode'), ('response', 'Encode')):
            fb = web.body('call::GrpcWebCall::<B>::' + nm)
            bb, t = fb.call1(pat='GrpcWebCall::<B>::new')
            d = strip_refs(fb.origin(t['args'][1]))
            R.check(d[0] == 'agg' and d[1].get('variant') == dirn and show(fb.origin(t['args'][2])).startswith('arg2'), 'C16.R3', 'GrpcWebCall::%s' % nm, site(fb, bb), 'new(inner, %s, encoding)' % show(d))

    # ---------------------------------------------------------------- R4 trailers frame
    R.describe('C16.R4', 'make_trailers_frame: put_u8(0x80), put_u32(len), payload; encode_trailers writes every (name, value) entry as name ":" value CRLF; poll_encode emits it as one data frame (base64 when asked) and ends when the inner body ends')
    with R.guard('C16.R4'):
        mk = web.body('call::make_trailers_frame')
        R.saw(mk)
        lay = prefix_layout(mk)
        R.eq([(d['off'], d['width']) for d in lay[:2]] + [(lay[2]['off'],) if len(lay) > 2 else None], [(0, 1), (1, 4), (5,)], 'C16.R4', 'frame-writes', site(mk), 'writes of the trailers frame as (offset, width): flag, big-endian length, payload at 5')
        if len(lay) == 3:
            R.check(lay[1]['endian'] == 'be', 'C16.R4', 'frame-order', site(mk), 'flag, then big-endian length, then payload')
            fl = lay[0]['value']
            R.check(const_val(fl) == W['trailers_flag'], 'C16.R4', 'flag=0x80', site(mk, lay[0]['bb']), 'flag = %s' % show(fl))
            ln = payload_len_source(lay[1]['value'])
            R.check(is_call(strip_refs(ln), name='len') and mentions_call(ln, name='encode_trailers'), 'C16.R4', 'length=payload-length', site(mk, lay[1]['bb']), 'length = %s' % show(ln)[:100])
            pl = lay[2]['value']
            R.check(mentions_call(pl, name='encode_trailers'), 'C16.R4', 'payload=encoded-trailers', site(mk, lay[2]['bb']), 'payload = %s' % show(pl)[:100])
        check_trailer_writer(R, web, 'C16.R4')
        pe = web.body('call::GrpcWebCall::<B>::poll_encode')
        R.saw(pe)
        mt = pe.calls(name='make_trailers_frame')
        R.check(len(mt) == 1 and mentions_call(pe.origin(mt[0][1]['args'][0]), name='into_trailers'), 'C16.R4', 'trailers->frame', site(pe), 'make_trailers_frame(frame.into_trailers())')
        # by feasible path: every data frame handed out (made from a data frame or from the trailers) is base64-encoded exactly when
        # the negotiated encoding is Base64
        seen4 = set()
        for cons, path in mirlib.path_rows(pe, stop=set(writers_of(pe, 0))):
            val = mirlib.simplify(pe.ret_on_path(path))
            if not has_fn(val, 'data', 'Frame'):
                continue
            kind = 'trailers' if has_fn(val, 'make_trailers_frame') else ('data' if has_fn(val, 'copy_to_bytes') else '?')
            b64 = term_contains(val, lambda x: is_call(x, name='encode') and 'base64' in x[1])
            enc = None
            for bb_, tm, vals in pe.path_tests(path):
                c_ = strip_refs(tm)
                if is_call(c_) and c_[3] in ('eq', 'ne') and term_contains(c_, lambda x: x and x[0] == 'agg' and x[1].get('variant') == 'Base64') and any(field_names(a_)[-1:] == ['encoding'] for a_ in c_[2]):
                    tr = pe.edge_truth(bb_, vals)
                    if tr is not None:
                        enc = 'Base64' if (tr == (c_[3] == 'eq')) else 'None'
                elif c_ and c_[0] == 'discr' and field_names(c_[1])[-1:] == ['encoding'] and len(c_) > 2 and c_[2]:
                    names_ = dict((a_, b2_) for a_, b2_ in c_[2])
                    if len(vals) == 1 and vals[0] in names_:
                        enc = names_[vals[0]]
                    elif vals == ['else']:
                        arms_ = [v_ for v_, _ in pe.term(bb_)['arms']]
                        rest_ = [n_ for d_, n_ in c_[2] if d_ not in arms_]
                        enc = rest_[0] if len(rest_) == 1 else None
            st = site(pe, path[-1])
            R.check(kind in ('data', 'trailers'), 'C16.R4', 'frame-source', st, 'the data frame is made from the inner data frame or from make_trailers_frame(trailers): %s' % show(val)[:100])
            R.check(enc is not None and b64 == (enc == 'Base64'), 'C16.R4', 'base64-iff-asked', st, '%s frame: base64-encoded %r with encoding %r' % (kind, b64, enc))
            seen4.add((kind, enc))
        R.eq(sorted(seen4), [('data', 'Base64'), ('data', 'None'), ('trailers', 'Base64'), ('trailers', 'None')], 'C16.R4', 'base64 rows', site(pe), 'frame kinds x encodings decided in poll_encode')
        # nothing after the inner body ends; trailers frames are data frames
        nn = 0
        for bb in writers_of(pe, 0):
            for w in block_writes(pe, bb, 0):
                if w[0] == 'variant' and w[2] == 'Ready':
                    v = strip_refs(w[3][0])
                    if v[0] == 'agg' and v[1].get('variant') == 'None':
                        nn += 1
                        g = pe.edge_guards(bb)
                        R.check(any(tm[0] == 'discr' and 'poll_frame' in show(tm) and tm[2] and any(n == 'None' and vv in vals for vv, n in tm[2]) for s, vals, tm in g), 'C16.R4', 'ends-with-inner', site(pe, bb), 'Ready(None) only when the inner body ended')
        R.floor('C16.R4', 'end-of-body sites in poll_encode', nn, 1)
        R.check(not pe.calls(name='trailers'), 'C16.R4', 'no-http-trailers-emitted', site(pe), 'poll_encode never emits Frame::trailers (trailers travel in the body)')

    # ---------------------------------------------------------------- R5 request decode
    R.describe('C16.R5', 'base64 request decoding: decode_chunk decodes the largest prefix that is a multiple of 4 and keeps the rest; at the end of the inner body leftover bytes => error, else stored trailers / end')
    with R.guard('C16.R5'):
        def is_floor4(t_, depth=0):
            """(len/4)*4  |  len - len%4  |  a call to a method returning one of these"""
            t_ = strip_refs(t_)
            sh = show(t_)
            if t_[0] == 'field' and t_[1] and t_[1][0] == 'bin':   # (x op y).0 of a checked op
                t_ = t_[1]
            if t_[0] == 'bin' and t_[1] in ('MulWithOverflow', 'Mul') and const_val(t_[3]) == 4:
                d_ = strip_refs(t_[2])
                return d_[0] == 'bin' and d_[1] == 'Div' and const_val(d_[3]) == 4 and term_contains(d_[2], lambda x: is_call(x, name='len'))
            if t_[0] == 'bin' and t_[1] in ('SubWithOverflow', 'Sub'):
                r_ = strip_refs(t_[3])
                return term_contains(t_[2], lambda x: is_call(x, name='len')) and r_[0] == 'bin' and r_[1] == 'Rem' and const_val(r_[3]) == 4 and term_contains(r_[2], lambda x: is_call(x, name='len'))
            if is_call(t_) and depth < 2 and (t_[1] or '').startswith('tonic_web::'):
                cb_ = [x for x in web.bodies if x.kind == 'fn' and x.path == t_[1]]
                if cb_:
                    R.saw(cb_[0])
                    rt_ = mirlib.returned_terms(cb_[0])
                    return len(rt_) == 1 and is_floor4(rt_[0][1], depth + 1)
            return False
        dc = web.body('call::GrpcWebCall::<B>::decode_chunk')
        R.saw(dc)
        sp = dc.calls(name='split_to')
        okm = len(sp) == 1 and is_floor4(dc.origin(sp[0][1]['args'][1]))
        R.check(okm, 'C16.R5', 'max_decodable=(len/4)*4', site(dc), 'the split index is the largest multiple of 4 not above the buffered length: %s' % (show(dc.origin(sp[0][1]['args'][1]))[:100] if sp else None))
        R.check(okm, 'C16.R5', 'split-at-multiple-of-4', site(dc), 'buf.split_to(that index)')
        de = dc.calls(pat='base64::Engine::decode')
        R.check(len(de) == 1 and mentions_call(dc.origin(de[0][1]['args'][1]), name='split_to') and (constdef(dc.origin(de[0][1]['args'][0])) or '').endswith('base64::STANDARD'), 'C16.R5', 'decode-that-prefix', site(dc), 'STANDARD.decode(buf.split_to(index))')
        me = dc.calls(name='map_err')
        errv = [bb_ for bb_, i_, p_, a_, o_ in returned_aggs(dc, 'result::Result', 'Err') if is_call(strip_refs(dc.origin(o_[0])), name='internal_error') and any(tm[0] == 'discr' and term_contains(tm, lambda x: is_call(x, pat='base64::Engine::decode')) and vals == [1] for s_, vals, tm in dc.edge_guards(bb_))]
        R.check(len(me) == 1 or len(errv) == 1, 'C16.R5', 'decode-error-is-value', site(dc), 'base64 errors are mapped to a Status (map_err sites: %d, matched Err arms: %d)' % (len(me), len(errv)))
        # "not enough to decode yet" (Ok(None)) only below one base64 quantum (4 characters): a larger threshold holds back the last
        # quantum of a body forever
        nones = [bb for bb, i_, p_, a_, ops_ in returned_aggs(dc, 'result::Result', 'Ok') if strip_refs(dc.origin(ops_[0]))[0] == 'agg' and strip_refs(dc.origin(ops_[0]))[1].get('variant') == 'None']
        R.floor('C16.R5', 'Ok(None) returns of decode_chunk', len(nones), 1)
        for nb in nones:
            ths = []
            for s_ in [x for x in sorted(dc.live_blocks()) if dc.term(x)['k'] == 'switch' and nb in dc.reachable(x)]:
                o_ = mirlib.norm_cmp(dc.origin(dc.term(s_)['on']))
                if o_[0] == 'bin' and o_[1] in ('Gt', 'Ge') and isinstance(const_val(o_[2]), int) and term_contains(o_[3], lambda x: is_call(x, name='len') or is_call(x, name='remaining')):
                    ths.append(const_val(o_[2]) + (1 if o_[1] == 'Ge' else 0))
                elif o_[0] == 'bin' and o_[1] in ('Gt', 'Ge') and isinstance(const_val(o_[3]), int) and term_contains(o_[2], lambda x: is_call(x, name='len') or is_call(x, name='remaining')):
                    ths.append(None)
                elif o_[0] == 'bin' and o_[1] in ('Eq', 'Ne') and ((const_val(o_[3]) == 0 and is_floor4(o_[2])) or (const_val(o_[2]) == 0 and is_floor4(o_[3]))):
                    ths.append(4)  # the largest multiple of 4 not above len is 0 exactly when len < 4
            R.check(bool(ths) and all(isinstance(k_, int) and k_ <= 4 for k_ in ths), 'C16.R5', 'wait-only-below-one-quantum', site(dc, nb), 'decode_chunk waits for more input only while len < %r (must be <= 4, the base64 quantum max_decodable() rounds to)' % ths)
        pdx = web.body('call::GrpcWebCall::<B>::poll_decode')
        R.saw(pdx)
        # at inner end: has_remaining(buf) true -> Err
        hr = [(bb, t) for bb, t in pdx.calls() if t.get('name') in ('has_remaining', 'is_empty') and mentions_field(pdx.origin(t['args'][0]), 'buf')]
        R.check(len(hr) == 1, 'C16.R5', 'leftover-test', site(pdx), 'buf.has_remaining() / buf.is_empty() sites at end of body: %d' % len(hr))
        if hr:
            sw = mirlib.follow_to_switch(pdx, hr[0][1]['t'])
            edges = pdx.switch_edges(sw)
            true_t = [t for t, vals in edges.items() if vals == ['else'] or (0 not in vals and 'else' not in vals)]
            false_t = [t for t, vals in edges.items() if vals == [0]]
            neg_ = pdx.origin(pdx.term(sw)['on'])
            flip = (hr[0][1]['name'] == 'is_empty') != (neg_[0] == 'un' and neg_[1] == 'Not')
            if flip:
                true_t, false_t = false_t, true_t   # "leftover" edge first
            def ends(v_):
                v_ = strip_refs(v_)
                # Ready(None), or Ready(trailers.take().map(..)) which is None exactly when no trailers are stored
                if (v_[0] == 'agg' and v_[1].get('variant') == 'None') or (is_call(v_, name='map') and is_call(strip_refs(v_[2][0]), name='take') and mentions_field(v_[2][0], 'trailers')):
                    return True
                # `trailers.take()?` in a helper producing the final item: the residual None
                return bool(is_call(v_, name='from_residual') and v_[2] and term_contains(v_[2][0], lambda x: is_call(x, name='take')) and mentions_field(v_[2][0], 'trailers'))
            # by feasible path from the leftover test to a return: leftover -> an error; a clean end only without leftover
            n_left = n_end = 0
            ok_t = True
            ok_f = True
            for cons, path in mirlib.path_rows(pdx, start=sw):
                if len(path) < 2:
                    continue
                val = strip_refs(mirlib.simplify(pdx.ret_on_path(path)))
                leftover = path[1] in true_t
                pay = strip_refs(val[2][0]) if val and val[0] == 'agg' and val[1].get('variant') == 'Ready' and val[2] else None
                is_err = pay is not None and term_contains(pay, lambda x: x and x[0] == 'agg' and x[1].get('variant') == 'Err')
                if leftover:
                    n_left += 1
                    ok_t = ok_t and is_err
                if pay is not None and ends(pay):
                    n_end += 1
                    ok_f = ok_f and not leftover
            R.check(ok_t and n_left >= 1, 'C16.R5', 'leftover->error', site(pdx, sw), 'leftover bytes at the end of a base64 body produce an error (paths: %d)' % n_left)
            R.check(ok_f and n_end >= 1, 'C16.R5', 'clean-end-only-without-leftover', site(pdx, sw), 'Ready(None) only on the no-leftover edge (paths: %d)' % n_end)
            g = pdx.edge_guards(hr[0][0])
            R.check(any(tm[0] == 'discr' and 'poll_frame' in show(tm) and tm[2] and any(n == 'None' and vv in vals for vv, n in tm[2]) for s, vals, tm in g), 'C16.R5', 'leftover-test-at-inner-end', site(pdx, hr[0][0]), 'the leftover test happens when the inner body ended')
        pt = [(bb, t) for bb, t in pdx.calls(name='put') if 'buf' in show(pdx.origin(t['args'][0]))]
        R.check(len(pt) == 1 and mentions_call(pdx.origin(pt[0][1]['args'][1]), name='into_data'), 'C16.R5', 'chunks-appended', site(pdx), 'data chunks are appended to buf before decoding')
