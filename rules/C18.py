"""C18 — health service reports the latest status to Check and Watch (structural clauses)."""
import re
from common import *
import mirlib
from mirlib import unawait

META = {
    'explanation': 'Every HashMap operation on the status table is traced to a guard obtained from RwLock::read/write on the shared '
                   '`statuses` field (mutations under the write guard, one guard spanning get-then-send); updates go through '
                   'watch::Sender::send on the stored sender, Check reads the stored receiver\'s current value, Watch clones the stored '
                   'receiver into tokio_stream::wrappers::WatchStream::new (current value first), clearing removes the entry, the empty '
                   'name defaults to SERVING and both lookups answer NOT_FOUND on a miss.',
    'exhaustive': True,
    'assumptions': ['tokio::sync::watch / RwLock and tokio_stream::wrappers::WatchStream behave as documented (WatchStream::new yields the current value first; dropping the Sender ends receivers after the last value)'],
}

MAP_OPS = ('get', 'get_mut', 'insert', 'remove', 'entry', 'contains_key', 'iter', 'values', 'keys', 'clear', 'retain')


def lock_of(body, term):
    """'read'/'write' if the receiver term of a map operation derives from an awaited RwLock::read/write on a `statuses` field"""
    found = []

    def walk(t, depth=0):
        if depth > 60 or not isinstance(t, tuple):
            return
        if is_call(t) and t[3] in ('read', 'write') and 'RwLock' in t[1] and (mentions_field(t, 'statuses') or 'statuses' in show(t)):
            found.append(t[3])
            return
        for x in t[1:]:
            if isinstance(x, tuple):
                walk(x, depth + 1)
            elif isinstance(x, list):
                for y in x:
                    walk(y, depth + 1)
    walk(term)
    return found[0] if found else None


def run(R):
    h = R.crate('tonic_health')

    # ---------------------------------------------------------------- R1 all map access under the lock
    R.describe('C18.R1', 'every HashMap operation on the status table takes its receiver from a guard of RwLock::read/write(statuses).await; insert/remove and the get-then-send pair use the write guard')
    ops_seen = {}
    with R.guard('C18.R1'):
        n = 0
        for bd in h.bodies:
            if bd.kind == 'promoted' or 'server::' not in bd.path or 'generated' in (bd.file or '') or '::tests::' in bd.path:
                continue
            for bb, t in bd.calls():
                if t.get('name') in MAP_OPS and 'HashMap' in (t.get('fn') or ''):
                    n += 1
                    R.saw(bd)
                    recv = bd.origin(t['args'][0])
                    lk = lock_of(bd, recv)
                    ops_seen.setdefault(short(bd.path), []).append((t['name'], lk, bb))
                    need_write = t['name'] in ('insert', 'remove', 'get_mut', 'entry', 'clear', 'retain')
                    R.check(lk is not None and (lk == 'write' or not need_write), 'C18.R1', 'locked:%s:%s' % (short(bd.path).split('::', 2)[-1], t['name']), site(bd, bb),
                            'HashMap::%s receiver comes from RwLock::%s guard: %s' % (t['name'], lk, show(recv)[:90]))
        R.floor('C18.R1', 'map operations', n, 5)
        # HashMap::from in new() is construction, not access
        ss = h.body('server::HealthReporter::set_service_status::{closure#0}')
        wr = ss.calls(name='write')
        R.check(len(wr) == 1, 'C18.R1', 'set:one-write-guard', site(ss), 'RwLock::write sites in set_service_status: %d (one guard spans lookup and update)' % len(wr))
        R.check(not ss.calls(name='read'), 'C18.R1', 'set:no-read-then-write', site(ss), 'no read guard is taken (no check-then-act across two guards)')
        # the guard is not dropped between get and send/insert
        guard_locals = {mirlib.named_root(ss, t['args'][0]) for bb, t in ss.calls() if t.get('name') in MAP_OPS and 'HashMap' in (t.get('fn') or '')}
        guard_locals.discard(None)
        R.check(len(guard_locals) == 1, 'C18.R1', 'set:one-guard-variable', site(ss), 'map operations in set_service_status go through guard variable(s) %r' % sorted(ss.name_of(l) for l in guard_locals))
        for opn in ('send', 'insert'):
            for bb, t in ss.calls(name=opn):
                drops = [x for x in ss.live_blocks() if ss.term(x)['k'] == 'drop' and not ss.term(x)['p'].get('pr') and ss.term(x)['p']['l'] in guard_locals]
                okd = bool(drops) and all(not ss.dominates(d, bb) for d in drops)
                R.check(okd, 'C18.R1', 'set:guard-held-until-%s' % opn, site(ss, bb), 'the write guard variable is dropped only after %s (drop sites: %d)' % (opn, len(drops)))

    # ---------------------------------------------------------------- R2 update / clear
    R.describe('C18.R2', 'set_service_status: existing entry -> Sender::send(status) on the stored sender; missing -> insert(name, watch::channel(status)); clear_service_status -> remove(name)')
    with R.guard('C18.R2'):
        ss = h.body('server::HealthReporter::set_service_status::{closure#0}')
        R.saw(ss)
        g = ss.calls(pat='HashMap', name='get')
        R.check(len(g) == 1 and 'service_name' in show(ss.origin(g[0][1]['args'][1])), 'C18.R2', 'set:lookup-by-name', site(ss), 'writer.get(service_name)')
        sd = ss.calls(pat='watch::Sender', name='send')
        R.check(len(sd) == 1, 'C18.R2', 'set:send', site(ss), 'watch::Sender::send sites: %d' % len(sd))
        for bb, t in sd:
            tx = ss.origin(t['args'][0])
            okt = term_contains(tx, lambda x: is_call(x, name='get') and 'HashMap' in x[1]) and term_contains(tx, lambda x: x and x[0] == 'variant' and x[2] == 'Some')
            R.check(okt, 'C18.R2', 'set:send-on-stored-sender', site(ss, bb), 'sender = %s' % show(tx)[:120])
            st = ss.origin(t['args'][1])
            R.check('status' in show(st), 'C18.R2', 'set:send-the-status', site(ss, bb), 'value = %s' % show(st)[:60])
            gd = ss.edge_guards(bb)
            R.check(any(tm[0] == 'discr' and 'get(' in show(tm) and vals == [1] for s, vals, tm in gd), 'C18.R2', 'set:send-iff-present', site(ss, bb), 'send only when the entry exists')
        ins = ss.calls(pat='HashMap', name='insert')
        R.check(len(ins) == 1, 'C18.R2', 'set:insert', site(ss), 'HashMap::insert sites: %d' % len(ins))
        for bb, t in ins:
            v = ss.origin(t['args'][2])
            okc = is_call(strip_refs(v), pat='watch::channel') and 'status' in show(strip_refs(v)[2][0])
            R.check(okc, 'C18.R2', 'set:insert-fresh-channel(status)', site(ss, bb), 'value = %s' % show(v)[:80])
            k = ss.origin(t['args'][1])
            R.check('service_name' in show(k), 'C18.R2', 'set:insert-under-name', site(ss, bb), 'key = %s' % show(k)[:80])
            gd = ss.edge_guards(bb)
            R.check(any(tm[0] == 'discr' and 'get(' in show(tm) and vals in ([0], ['else']) for s, vals, tm in gd), 'C18.R2', 'set:insert-iff-absent', site(ss, bb), 'insert only when the entry is missing')
        cl = h.body('server::HealthReporter::clear_service_status::{closure#0}')
        R.saw(cl)
        rm = cl.calls(pat='HashMap', name='remove')
        R.check(len(rm) == 1 and 'service_name' in show(cl.origin(rm[0][1]['args'][1])), 'C18.R2', 'clear:remove(name)', site(cl), 'writer.remove(service_name)')
        for nm, var in (('set_serving', 'Serving'), ('set_not_serving', 'NotServing')):
            b = h.body('server::HealthReporter::%s::{closure#0}' % nm)
            R.saw(b)
            c = b.calls(name='set_service_status')
            okv = len(c) == 1 and strip_refs(b.origin(c[0][1]['args'][2]))[0] == 'agg' and strip_refs(b.origin(c[0][1]['args'][2]))[1].get('variant') == var
            okn = len(c) == 1 and term_contains(b.origin(c[0][1]['args'][1]), lambda x: x and x[0] in ('constdef', 'const') and 'NAME' in str(x[1]))
            R.check(okv and okn, 'C18.R2', '%s' % nm, site(b), '%s -> set_service_status(S::NAME, %s): name %r status %r' % (nm, var, okn, okv))

    # ---------------------------------------------------------------- R3 check / watch
    R.describe('C18.R3', 'check -> current value (*receiver.borrow()) of the stored receiver; watch -> WatchStream::new(clone of the stored receiver) (current value first); both NOT_FOUND on a missing name')
    with R.guard('C18.R3'):
        sh = h.body('server::HealthService::service_health::{closure#0}')
        fsh = family(h, sh)
        R.saw(*fsh)
        from_get_rx = lambda b_, t_: term_contains(b_.origin(t_), lambda x: is_call(x, name='get') and 'HashMap' in x[1]) or term_contains(b_.origin(t_), lambda x: x and x[0] == 'field' and x[2] in (1, '1'))
        g = fam_calls(fsh, pat='HashMap', name='get')
        R.check(len(g) == 1, 'C18.R3', 'check:get.map', site(sh), 'one lookup statuses.get(name) on the check path: %d' % len(g))
        br = [(b_, bb, t) for b_, bb, t in fam_calls(fsh, name='borrow') if 'watch::Receiver' in (t.get('fn') or '')]
        okb = len(br) == 1 and from_get_rx(br[0][0], br[0][2]['args'][0])
        R.check(okb, 'C18.R3', 'check:current-value-of-stored-receiver', site(br[0][0], br[0][1]) if br else site(sh), 'the status returned is *receiver.borrow() of the receiver stored under that name: %r' % okb)
        R.check(not fam_calls(fsh, name='borrow_and_update') and not fam_calls(fsh, name='changed'), 'C18.R3', 'check:not-consuming', site(sh), 'check does not consume change notifications')
        ck = h.body(re.compile(r'server::HealthService as .*Health>::check::\{closure#0\}$'))
        fck = family(h, ck)
        R.saw(ck)
        nf = fam_calls(fck, pat='Status::not_found')
        oknf = False
        if len(nf) == 1:
            b_, bb_, t_ = nf[0]
            if b_ is ck:
                oknf = any(tm[0] == 'discr' and 'service_health' in show(tm) and vals in ([0], ['else']) for s, vals, tm in ck.edge_guards(bb_))
            else:
                # inside the closure handed to ok_or_else / ok_or on the lookup result
                oknf = any(t2.get('name') in ('ok_or_else', 'ok_or') and term_contains(ck.origin(t2['args'][0]), lambda x: is_call(x, name='service_health') or (x and x[0] == 'yield')) for bb2, t2 in ck.calls())
        R.check(oknf, 'C18.R3', 'check:not_found-on-miss', site(ck), 'Status::not_found exactly when the name is not registered: %r' % oknf)
        shc = ck.calls(name='service_health')
        R.check(len(shc) == 1 and 'service' in show(ck.origin(shc[0][1]['args'][1])), 'C18.R3', 'check:by-request-service', site(ck), 'service_health(request.service)')
        nw = [(bb, t) for bb, t in ck.calls(name='new') if 'HealthCheckResponse' in (t.get('fn') or '')]
        R.check(len(nw) == 1 and term_contains(ck.origin(nw[0][1]['args'][0]), lambda x: is_call(x, name='service_health') or (x and x[0] == 'yield')), 'C18.R3', 'check:returns-that-status', site(ck), 'HealthCheckResponse::new(status from service_health)')
        wt = h.body(re.compile(r'server::HealthService as .*Health>::watch::\{closure#0\}$'))
        fwt = family(h, wt)
        R.saw(*fwt)
        g = fam_calls(fwt, pat='HashMap', name='get')
        okk = len(g) == 1 and ('service' in show(g[0][0].origin(g[0][2]['args'][1])) or (g[0][0] is not wt and term_contains(g[0][0].origin(g[0][2]['args'][1]), lambda x: x and x[0] == 'field' and x[1] in (('env',), ('deref', ('env',))))))
        R.check(okk, 'C18.R3', 'watch:lookup', site(wt), 'statuses.read().await.get(request.service): %d lookup(s)' % len(g))
        cn = [(b_, bb, t) for b_, bb, t in fam_calls(fwt, name='clone') if 'watch::Receiver' in ((t.get('resolved') or '') + (t.get('self_ty') or ''))]
        R.check(len(cn) == 1 and from_get_rx(cn[0][0], cn[0][2]['args'][0]), 'C18.R3', 'watch:clone-stored-receiver', site(wt), 'rx.clone() of the stored receiver: %d site(s)' % len(cn))
        ws = [(bb, t) for bb, t in wt.calls(name='new') if (t.get('fn') or '').endswith('server::WatchStream::new')]
        via_helper = cn and cn[0][0] is not wt
        R.check(len(ws) == 1 and (term_contains(wt.origin(ws[0][1]['args'][0]), lambda x: is_call(x, name='clone')) or (via_helper and term_contains(wt.origin(ws[0][1]['args'][0]), lambda x: x and (x[0] == 'yield' or is_call(x, name='poll'))))), 'C18.R3', 'watch:stream-of-that-clone', site(wt), 'WatchStream::new(status_rx)')
        nf = fam_calls(fwt, pat='Status::not_found')
        oknf = False
        if len(nf) == 1 and nf[0][0] is wt:
            oknf = any(tm[0] == 'discr' and ('get(' in show(tm) or (via_helper and term_contains(tm, lambda x: x and (x[0] == 'yield' or is_call(x, name='poll'))))) and vals in ([0], ['else']) for s, vals, tm in wt.edge_guards(nf[0][1]))
        elif len(nf) == 1:
            oknf = any(t2.get('name') in ('ok_or_else', 'ok_or') for bb2, t2 in wt.calls())
        R.check(oknf, 'C18.R3', 'watch:not_found-on-miss', site(wt), 'Status::not_found when the name is not registered: %r' % oknf)
        wn = h.body('server::WatchStream::new')
        R.saw(wn)
        c = wn.calls(name='new')
        okw = len(c) == 1 and re.search(r'tokio_stream::wrappers::(watch::)?WatchStream', c[0][1].get('fn') or '') is not None and show(wn.origin(c[0][1]['args'][0])).startswith('arg1')
        R.check(okw, 'C18.R3', 'watch:current-value-first', site(wn), 'tokio_stream::wrappers::WatchStream::new(rx) (from_changes would skip the current status): %s' % (c[0][1].get('fn') if c else None))
        R.check(not any(t.get('name') == 'from_changes' for bd in h.bodies for bb, t in bd.calls()), 'C18.R3', 'watch:no-from_changes', '', 'WatchStream::from_changes is not used anywhere in tonic-health')
        pn = h.body(re.compile(r'server::WatchStream as tokio_stream::Stream>::poll_next$'))
        R.saw(pn)
        pl = pn.calls(name='poll_next')
        R.check(len(pl) == 1 and mentions_field(pn.origin(pl[0][1]['args'][0]), 'inner'), 'C18.R3', 'stream:forwards-inner', site(pn), 'polls the wrapped WatchStream')
        fam_pn = family(h, pn)
        selfmade = []
        for fb in fam_pn:
            for bb, i, p, a, ops in mirlib.aggregates(fb, 'task::Poll', 'Pending'):
                g_ = fb.edge_guards(bb)
                from_inner = fb is pn and any(tm[0] == 'discr' and is_call(strip_refs(tm[1]), name='poll_next') and tm[2] and len(vals) == 1 and dict((x_, y_) for x_, y_ in tm[2]).get(vals[0]) == 'Pending' for s_, vals, tm in g_)
                if not from_inner:
                    selfmade.append((fb, bb))
        R.check(not selfmade, 'C18.R3', 'stream:no-self-made-pending', site(selfmade[0][0], selfmade[0][1]) if selfmade else site(pn),
                'Poll::Pending is only ever the inner stream\'s Pending (which registered the waker): other constructed Pending sites %d — returning Pending without a registered waker parks the watcher forever' % len(selfmade))
        news = [(fb, bb, t) for fb in fam_pn for bb, t in fb.calls(name='new') if 'HealthCheckResponse' in (t.get('fn') or '')]
        okm = len(news) == 1 and (show(news[0][0].origin(news[0][2]['args'][0])).startswith('arg2') if news[0][0] is not pn else term_contains(pn.origin(news[0][2]['args'][0]), lambda x: x and x[0] == 'variant' and x[2] == 'Some' and term_contains(x, lambda y: is_call(y, name='poll_next'))))
        R.check(okm, 'C18.R3', 'stream:maps-each-status', site(pn), 'each status yielded by the inner stream is mapped to Ok(HealthCheckResponse::new(status))')

    # ---------------------------------------------------------------- R4 defaults / sharing / conversions
    R.describe('C18.R4', 'HealthReporter::new registers "" -> SERVING; health_reporter() shares one Arc between reporter and service; ServingStatus conversion is the identity table')
    with R.guard('C18.R4'):
        nw = h.body('server::HealthReporter::new')
        R.saw(nw)
        ch = nw.calls(pat='watch::channel')
        okd = len(ch) == 1 and strip_refs(nw.origin(ch[0][1]['args'][0]))[0] == 'agg' and strip_refs(nw.origin(ch[0][1]['args'][0]))[1].get('variant') == 'Serving'
        ts = nw.calls(name='to_string')
        okn = len(ts) == 1 and const_val(nw.origin(ts[0][1]['args'][0])) == ''
        R.check(okd and okn, 'C18.R4', 'default-empty-name-serving', site(nw), '("".to_string(), watch::channel(Serving)): name %r status %r' % (okn, okd))
        hr = h.body('server::health_reporter')
        R.saw(hr)
        c = hr.calls(pat='HealthService::new')
        oks = len(c) == 1 and is_call(strip_refs(hr.origin(c[0][1]['args'][0])), name='clone') and mentions_field(hr.origin(c[0][1]['args'][0]), 'statuses') and mentions_call(hr.origin(c[0][1]['args'][0]), pat='HealthReporter::new')
        R.check(oks, 'C18.R4', 'shared-arc', site(hr), 'HealthService::new(reporter.statuses.clone()): %r' % oks)
        cv = h.body(re.compile(r'impl std::convert::From<ServingStatus> for .*health_check_response::ServingStatus>::from$'))
        R.saw(cv)
        rows = decision_rows(cv, 0, writers_of(cv, 0))
        src = {v['discr']: v['name'] for v in h.adt('tonic_health::ServingStatus')['variants']}
        got = {}
        for cons, bb in rows:
            d = cons_dict(cons)
            ds = [v for k, v in d.items() if k.startswith('discr(')]
            if ds and ds[0][0] == '==':
                got[src.get(ds[0][1])] = variant_of(block_writes(cv, bb, 0))
        for nme in ('Unknown', 'Serving', 'NotServing'):
            R.eq(got.get(nme), nme, 'C18.R4', 'convert:%s' % nme, site(cv), 'wire status for ServingStatus::%s' % nme)
        rn = h.body('server::<impl generated::grpc_health_v1::HealthCheckResponse>::new')
        R.saw(rn)
        fr = rn.calls(name='from') + rn.calls(name='into')
        R.check(len(fr) == 1 and show(rn.origin(fr[0][1]['args'][0])).startswith('arg1'), 'C18.R4', 'response-carries-status', site(rn), 'HealthCheckResponse::new(status) converts that status')
