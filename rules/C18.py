"""C18 — health service reports the latest status to Check and Watch (structural clauses)."""
import re
from common import *
import mirlib
from mirlib import unawait

META = {
    'explanation': 'Every HashMap operation on the status table is traced to a guard obtained from RwLock::read/write on the shared '
                   'table (mutations under the write guard, one guard spanning get-then-send); updates go through '
                   'watch::Sender::send on the stored sender, Check reads the stored receiver\'s current value, Watch clones the stored '
                   'receiver into tokio_stream::wrappers::WatchStream::new (current value first), clearing removes the entry, the empty '
                   'name defaults to SERVING and both lookups answer NOT_FOUND on a miss. Functions, closures and helper functions are '
                   'followed through calls, captures and function items, so the same facts are read whether the logic is written inline '
                   'or spread over helpers; values are identified by type and by where they come from, not by their names.',
    'exhaustive': True,
    'assumptions': ['tokio::sync::watch / RwLock and tokio_stream::wrappers::WatchStream behave as documented (WatchStream::new yields the current value first; dropping the Sender ends receivers after the last value)'],
}

MAP_OPS = ('get', 'get_mut', 'insert', 'remove', 'entry', 'contains_key', 'iter', 'values', 'keys', 'clear', 'retain')
WRITE_OPS = ('insert', 'remove', 'get_mut', 'entry', 'clear', 'retain')


def in_scope(bd):
    return not (bd.kind == 'promoted' or 'server' not in bd.path or 'generated' in (bd.file or '') or '::tests::' in bd.path)


def lock_of(term):
    """'read'/'write' if the term derives from an awaited RwLock::read/write"""
    found = find_terms(term, lambda t: is_call(t) and t[3] in ('read', 'write') and 'RwLock' in t[1])
    return found[0][3] if found else None


def deep_family(h, body, depth=0, seen=None):
    """a body with everything it runs: its closures / coroutines, spliced helpers, and the crate-local (non-generated) functions it
    calls or passes around as function items, transitively (bounded)"""
    seen = seen if seen is not None else []
    for m in family(h, body):
        if m not in seen:
            seen.append(m)
    if depth >= 3:
        return seen
    for m in list(seen):
        refs = set()
        for bb, t in m.calls():
            fn = t.get('fn') or ''
            if fn.startswith('tonic_health::server'):
                refs.add(fn)
            for a in t['args']:
                if 'k' in a and (a['k'].get('fn') or '').startswith('tonic_health::server'):
                    refs.add(a['k']['fn'])
        for bb in m.live_blocks():
            for st in m.blocks[bb]['stmts']:
                rv = st.get('rv') or {}
                if not isinstance(rv, dict):
                    continue
                # function items used as values: aggregate operands, plain uses, fn-pointer casts
                cands = list(rv.get('ops', [])) + [rv[k_] for k_ in ('use', 'op') if isinstance(rv.get(k_), dict)]
                for o in cands:
                    if 'k' in o and (o['k'].get('fn') or '').startswith('tonic_health::server'):
                        refs.add(o['k']['fn'])
        for fn in sorted(refs):
            base = re.sub(r'::<[^:]*>$', '', fn)
            for cand in h.bodies:
                if cand.kind in ('fn', 'closure', 'coroutine') and in_scope(cand) and (cand.path == fn or cand.path == base or cand.path.startswith(fn + '::{') or cand.path.startswith(base + '::{')):
                    if cand not in seen:
                        deep_family(h, cand, depth + 1, seen)
    return seen


def fnitem_uses(fam, pred):
    """[(body, bb, call term | None, fn path)] for function items (not calls) named by the family: arguments of calls
    (`.map(HealthCheckResponse::new)`) and operands of statements (fn-pointer casts)"""
    out = []
    for m in fam:
        for bb in m.live_blocks():
            t = m.term(bb)
            if t['k'] == 'call':
                for a in t['args']:
                    if 'k' in a and a['k'].get('fn') and pred(a['k']):
                        out.append((m, bb, t, a['k']))
            for st in m.blocks[bb]['stmts']:
                rv = st.get('rv') if isinstance(st, dict) else None
                if isinstance(rv, dict):
                    for o in list(rv.get('ops', [])) + [rv[k_] for k_ in ('use', 'op') if isinstance(rv.get(k_), dict)]:
                        if isinstance(o, dict) and 'k' in o and o['k'].get('fn') and pred(o['k']):
                            out.append((m, bb, None, o['k']))
    return out


def trace(h, fam, body, term, depth=0):
    """a term with closure captures resolved and, when it is rooted in a parameter of a helper function, replaced by what the family
    passes for that parameter (one call site), repeatedly"""
    t = resolve_env(h, body, term, within=fam)
    if depth > 4:
        return t
    # which function does `body` belong to (a coroutine / closure of fn F)?
    owner = body
    for _ in range(4):
        if owner.kind in ('closure', 'coroutine') and owner.parent:
            ps = [x for x in h.bodies if x.path == owner.parent]
            if not ps:
                break
            owner = ps[0]
        else:
            break
    n = arg_root(strip_refs(t))
    if n is None or owner.kind != 'fn':
        return t
    sites = [(b_, bb, tt) for b_ in fam for bb, tt in b_.calls() if (tt.get('fn') or '') and re.sub(r'::<[^:]*>$', '', tt['fn']) == re.sub(r'::<[^:]*>$', '', owner.path)]
    if len(sites) != 1 or n - 1 >= len(sites[0][2]['args']):
        return t
    b_, bb, tt = sites[0]
    return trace(h, fam, b_, b_.origin(tt['args'][n - 1]), depth + 1)


def run(R):
    h = R.crate('tonic_health')

    # ---------------------------------------------------------------- R1 all map access under the lock
    R.describe('C18.R1', 'every HashMap operation on the status table takes its receiver from a guard of RwLock::read/write(table).await (or works on a map that is not shared yet); insert/remove and the get-then-send pair use the write guard')
    with R.guard('C18.R1'):
        kinds = set()
        n = 0
        for bd in h.bodies:
            if not in_scope(bd):
                continue
            for bb, t in bd.calls():
                if t.get('name') in MAP_OPS and 'HashMap' in (t.get('fn') or ''):
                    n += 1
                    R.saw(bd)
                    recv = resolve_env(h, bd, bd.origin(t['args'][0]))
                    lk = lock_of(recv)
                    kinds.add(t['name'])
                    # a map built in this very body and only later wrapped in the lock is not shared yet
                    r0 = strip_refs(recv)
                    fresh = is_call(r0) and 'HashMap' in r0[1] and r0[3] in ('new', 'with_capacity', 'from', 'default', 'from_iter') and bool(bd.calls(pat='RwLock', name='new'))
                    need_write = t['name'] in WRITE_OPS
                    R.check(fresh or (lk is not None and (lk == 'write' or not need_write)), 'C18.R1', 'locked:%s:%s' % (short(bd.path).split('::', 2)[-1], t['name']), site(bd, bb),
                            'HashMap::%s receiver comes from a RwLock::%s guard (or a map not shared yet: %r): %s' % (t['name'], lk, fresh, show(recv)[:90]))
        R.check({'get', 'insert', 'remove'} <= kinds, 'C18.R1', 'floor:map operations', '', 'kinds of map operations seen: %r (%d sites)' % (sorted(kinds), n))
        ss = h.body('server::HealthReporter::set_service_status::{closure#0}')
        SS = deep_family(h, ss)
        R.saw(*SS)
        wr = fam_calls(SS, pat='RwLock', name='write')
        R.check(len(wr) == 1, 'C18.R1', 'set:one-write-guard', site(ss), 'RwLock::write sites in set_service_status: %d (one guard spans lookup and update)' % len(wr))
        R.check(not fam_calls(SS, pat='RwLock', name='read'), 'C18.R1', 'set:no-read-then-write', site(ss), 'no read guard is taken (no check-then-act across two guards)')
        # the write guard (identified by its type) is not released between the lookup and the send / insert
        holder = wr[0][0] if wr else ss
        guard_locals = {l for l in range(len(holder.local_tys)) if re.match(r'^(tokio::sync::)?(rwlock::)?RwLockWriteGuard<', holder.tystr(holder.local_tys[l]))}
        R.check(len(guard_locals) >= 1, 'C18.R1', 'set:one-guard-variable', site(holder), 'locals holding the write guard: %d' % len(guard_locals))

        def moved_out_before(l, dbb):
            # a whole-value move of l that dominates the drop: the drop is then a no-op (the value lives on where it was moved to)
            for bb_ in holder.live_blocks():
                if not (holder.dominates(bb_, dbb) or bb_ == dbb):
                    continue
                for st_ in holder.blocks[bb_]['stmts']:
                    rv_ = st_.get('rv') or {}
                    u_ = rv_.get('use') if isinstance(rv_, dict) else None
                    if u_ and isinstance(u_.get('mv'), dict) and u_['mv'].get('l') == l and not u_['mv'].get('pr'):
                        return True
                t_ = holder.term(bb_)
                if bb_ != dbb and t_['k'] == 'call' and any(isinstance(a_.get('mv'), dict) and a_['mv'].get('l') == l and not a_['mv'].get('pr') for a_ in t_['args']):
                    return True
            return False
        drops = [x for x in holder.live_blocks() if holder.term(x)['k'] == 'drop' and not holder.term(x)['p'].get('pr') and holder.term(x)['p']['l'] in guard_locals
                 and not moved_out_before(holder.term(x)['p']['l'], x)]
        drops += [bb for bb, t in holder.calls(pat='mem::drop') if any('RwLockWriteGuard' in g for g in t.get('ga', []))]
        for opn in ('send', 'insert'):
            for b_, bb, t in fam_calls(SS, name=opn):
                if opn == 'send' and 'watch::Sender' not in (t.get('fn') or ''):
                    continue
                if opn == 'insert' and 'HashMap' not in (t.get('fn') or ''):
                    continue
                if b_ is holder:
                    at = [bb]
                else:
                    # the operation sits in a callee: the guard must still be held where the holder calls into it
                    root = b_
                    for _ in range(4):
                        if root.kind in ('closure', 'coroutine') and root.parent:
                            ps = [x for x in h.bodies if x.path == root.parent]
                            root = ps[0] if ps else root
                    at = [cb for cb, ct in holder.calls() if (ct.get('fn') or '') and re.sub(r'::<[^:]*>$', '', ct['fn']) == root.path]
                okd = bool(drops) and bool(at) and all(not holder.dominates(d, a_) for d in drops for a_ in at)
                R.check(okd, 'C18.R1', 'set:guard-held-until-%s' % opn, site(b_, bb), 'the write guard is released only after %s (release sites: %d)' % (opn, len(drops)))

    # ---------------------------------------------------------------- R2 update / clear
    R.describe('C18.R2', 'set_service_status: existing entry -> Sender::send(status) on the stored sender; missing -> insert(name, watch::channel(status)); clear_service_status -> remove(name)')
    with R.guard('C18.R2'):
        ss = h.body('server::HealthReporter::set_service_status::{closure#0}')
        ssf = h.body('server::HealthReporter::set_service_status')
        SS = deep_family(h, ss)
        STATUS_N = param_of_type(ssf, r'ServingStatus$')
        # the service name: the one parameter that is neither self nor the status (a &str or any S: AsRef<str>)
        others = [n_ for n_ in range(2, ssf.argc + 1) if n_ != STATUS_N]
        if len(others) != 1:
            raise CheckError('UNRECOGNISED: set_service_status has %d parameters besides self and the status' % len(others))
        NAME_N = others[0]

        def is_param(b_, term, n):
            tt = trace(h, SS, b_, term)
            return arg_root(strip_refs(tt)) == n or any(arg_root(strip_refs(x)) == n for x in find_terms(tt, lambda y: isinstance(y, tuple) and y and y[0] in ('arg',)) if False) or \
                bool(find_terms(tt, lambda y: isinstance(y, tuple) and y and y[0] == 'arg' and y[1] == n)) and not find_terms(tt, lambda y: isinstance(y, tuple) and y and y[0] == 'arg' and y[1] not in (n, 1))
        g = fam_calls(SS, pat='HashMap', name='get')
        R.check(len(g) == 1 and is_param(g[0][0], g[0][0].origin(g[0][2]['args'][1]), NAME_N), 'C18.R2', 'set:lookup-by-name', site(ss), 'table.get(service_name): %d lookup(s), keyed by the name parameter' % len(g))
        from_get = lambda b_, t_: term_contains(trace(h, SS, b_, t_), lambda x: is_call(x, name='get') and 'HashMap' in x[1])
        sd = fam_calls(SS, pat='watch::Sender', name='send')
        R.check(len(sd) == 1, 'C18.R2', 'set:send', site(ss), 'watch::Sender::send sites: %d' % len(sd))
        for b_, bb, t in sd:
            tx = trace(h, SS, b_, b_.origin(t['args'][0]))
            okt = term_contains(tx, lambda x: is_call(x, name='get') and 'HashMap' in x[1]) and term_contains(tx, lambda x: x and x[0] == 'variant' and x[2] == 'Some')
            R.check(okt, 'C18.R2', 'set:send-on-stored-sender', site(b_, bb), 'sender = %s' % show(tx)[:120])
            R.check(is_param(b_, b_.origin(t['args'][1]), STATUS_N), 'C18.R2', 'set:send-the-status', site(b_, bb), 'value = %s' % show(trace(h, SS, b_, b_.origin(t['args'][1])))[:60])
            # reached only when the lookup found the entry: in this body, or where the family calls into it
            def guarded_by_get(b2, bb2, want):
                for s, vals, tm in b2.edge_guards(bb2):
                    if tm[0] == 'discr' and term_contains(trace(h, SS, b2, tm), lambda x: is_call(x, name='get') and 'HashMap' in x[1]) and vals in want:
                        return True
                return False
            okg = guarded_by_get(b_, bb, ([1],))
            if not okg and b_ is not ss:
                owner = b_
                while owner.kind in ('closure', 'coroutine') and owner.parent and [x for x in h.bodies if x.path == owner.parent]:
                    owner = [x for x in h.bodies if x.path == owner.parent][0]
                okg = any(guarded_by_get(c_, cbb, ([1],)) for c_ in SS for cbb, ct in c_.calls() if re.sub(r'::<[^:]*>$', '', ct.get('fn') or '') == owner.path)
            R.check(okg, 'C18.R2', 'set:send-iff-present', site(b_, bb), 'send only when the entry exists')
        ins = fam_calls(SS, pat='HashMap', name='insert')
        R.check(len(ins) == 1, 'C18.R2', 'set:insert', site(ss), 'HashMap::insert sites: %d' % len(ins))
        for b_, bb, t in ins:
            v = trace(h, SS, b_, b_.origin(t['args'][2]))
            chans = find_terms(v, lambda x: is_call(x, pat='watch::channel'))
            # StatusChannel::new(status) written as a (known or new) constructor call: look into it
            if not chans:
                for c_ in find_terms(v, lambda x: is_call(x) and (x[1] or '').startswith('tonic_health::server')):
                    for cb in [x for x in h.bodies if x.kind == 'fn' and x.path == re.sub(r'::<[^:]*>$', '', c_[1])]:
                        for cbb, ct in cb.calls(pat='watch::channel'):
                            if arg_root(strip_refs(cb.origin(ct['args'][0]))) is not None:
                                an = arg_root(strip_refs(cb.origin(ct['args'][0])))
                                chans.append(('call', ct.get('fn'), [c_[2][an - 1]], 'channel', ct))
            okc = len(chans) >= 1 and all(is_param(b_, c_[2][0], STATUS_N) for c_ in chans)
            R.check(okc, 'C18.R2', 'set:insert-fresh-channel(status)', site(b_, bb), 'value = %s' % show(v)[:80])
            k = b_.origin(t['args'][1])
            R.check(is_param(b_, k, NAME_N), 'C18.R2', 'set:insert-under-name', site(b_, bb), 'key = %s' % show(trace(h, SS, b_, k))[:80])
            R.check(guarded_by_get(b_, bb, ([0], ['else'])), 'C18.R2', 'set:insert-iff-absent', site(b_, bb), 'insert only when the entry is missing')
        cl = h.body('server::HealthReporter::clear_service_status::{closure#0}')
        clf = h.body('server::HealthReporter::clear_service_status')
        CL = deep_family(h, cl)
        R.saw(*CL)
        rm = fam_calls(CL, pat='HashMap', name='remove')
        okr = len(rm) == 1 and clf.argc == 2 and bool(find_terms(trace(h, CL, rm[0][0], rm[0][0].origin(rm[0][2]['args'][1])), lambda y: isinstance(y, tuple) and y and y[0] == 'arg' and y[1] == 2))
        R.check(okr, 'C18.R2', 'clear:remove(name)', site(cl), 'table.remove(service_name): %d site(s)' % len(rm))
        for nm, var in (('set_serving', 'Serving'), ('set_not_serving', 'NotServing')):
            b = h.body('server::HealthReporter::%s::{closure#0}' % nm)
            F = deep_family(h, b)
            R.saw(b)
            c = [(b_, bb, t) for b_, bb, t in fam_calls(F, name='set_service_status') if b_ is not ss and not b_.path.startswith(ssf.path + '::')]
            okv = okn = False
            if len(c) == 1:
                b_, bb, t = c[0]
                sv = strip_refs(mirlib.simplify(trace(h, F, b_, b_.origin(t['args'][2]))))
                okv = sv[0] == 'agg' and sv[1].get('variant') == var
                okn = term_contains(trace(h, F, b_, b_.origin(t['args'][1])), lambda x: x and x[0] in ('constdef', 'const') and 'NAME' in str(x[1]))
            R.check(okv and okn, 'C18.R2', '%s' % nm, site(b), '%s -> set_service_status(S::NAME, %s): name %r status %r' % (nm, var, okn, okv))

    # ---------------------------------------------------------------- R3 check / watch
    R.describe('C18.R3', 'check -> current value (*receiver.borrow()) of the stored receiver; watch -> WatchStream::new(clone of the stored receiver) (current value first); both NOT_FOUND on a missing name')
    with R.guard('C18.R3'):
        def lookup_facts(handler, tag):
            F = deep_family(h, handler)
            R.saw(*F)
            g = fam_calls(F, pat='HashMap', name='get')
            okg = False
            if len(g) == 1:
                key = trace(h, F, g[0][0], g[0][0].origin(g[0][2]['args'][1]))
                okg = mentions_field(key, 'service') and lock_of(resolve_env(h, g[0][0], g[0][0].origin(g[0][2]['args'][0]), within=F)) in ('read', 'write')
            return F, g, okg

        def from_stored_rx(F, g, b_, op_):
            """the receiver operand is the one stored under the looked-up name: derived from the get result, or the parameter of a
            closure / function that the family applies to the looked-up entry"""
            t_ = trace(h, F, b_, b_.origin(op_))
            if term_contains(t_, lambda x: is_call(x, name='get') and 'HashMap' in x[1]):
                return True
            if arg_root(strip_refs(t_)) is not None or (strip_refs(t_) and arg_root(strip_refs(t_)) is None and find_terms(t_, lambda y: isinstance(y, tuple) and y and y[0] == 'arg')):
                # rooted in a parameter of b_: b_ (or its function) must be handed over as a callable somewhere in the family
                owner = b_.path
                for m in F:
                    for bb in m.live_blocks():
                        for st in m.blocks[bb]['stmts']:
                            rv = st.get('rv') or {}
                            if isinstance(rv, dict):
                                for o in list(rv.get('ops', [])) + [rv[k_] for k_ in ('use', 'op') if isinstance(rv.get(k_), dict)]:
                                    if 'k' in o and re.sub(r'::<[^:]*>$', '', o['k'].get('fn') or '') == owner:
                                        return True
                                    # a closure captured by the future of an (async) helper that applies it to the entry
                                    if isinstance(rv.get('agg'), dict) and rv['agg'].get('kind') in ('coroutine', 'closure') and ('mv' in o or 'cp' in o):
                                        o2_ = strip_refs(m.origin(o))
                                        if o2_ and o2_[0] == 'agg' and isinstance(o2_[1], dict) and o2_[1].get('def') == owner:
                                            return True
                    for bb, t in m.calls():
                        for a in t['args']:
                            if 'k' in a and re.sub(r'::<[^:]*>$', '', a['k'].get('fn') or '') == owner:
                                return True
                            o_ = strip_refs(m.origin(a))
                            if o_ and o_[0] == 'agg' and o_[1].get('def') == owner:
                                return True
            return False

        def not_found_ok(F, handler, g):
            nf = fam_calls(F, pat='Status::not_found')
            if not nf:
                # `.ok_or_else(service_not_registered)`: a named function that does nothing but build the NOT_FOUND status
                def builds_nf(k_):
                    fp_ = re.sub(r'::<[^:]*>$', '', k_['fn'])
                    bs_ = [x for x in h.bodies if x.kind == 'fn' and x.path == fp_] + ([h.helper_defs[fp_]] if fp_ in h.helper_defs else [])
                    return len(bs_) == 1 and len(bs_[0].calls(pat='Status::not_found')) == 1 and all(is_call(strip_refs(rt_), pat='Status::not_found') for _, rt_ in mirlib.returned_terms(bs_[0]))
                fu = [(m_, bb2_, t2_, k_) for m_, bb2_, t2_, k_ in fnitem_uses(F, builds_nf) if t2_ is not None]
                if len(fu) == 1 and fu[0][2].get('name') in ('ok_or_else',):
                    return True, 1
                return False, len(fu)
            if len(nf) != 1:
                return False, len(nf)
            b_, bb_, t_ = nf[0]
            # (a) behind the "not there" edge of a test on the lookup result (the get itself, or what a helper returned for it)
            def lookupish(tm):
                tt = trace(h, F, b_, tm)
                return term_contains(tt, lambda x: (is_call(x, name='get') and 'HashMap' in x[1]) or (x and x[0] == 'yield') or (is_call(x) and (x[1] or '').startswith('tonic_health::server')) or is_call(x, name='poll'))
            if any(tm[0] == 'discr' and lookupish(tm) and vals in ([0], ['else']) for s, vals, tm in b_.edge_guards(bb_)):
                return True, 1
            # (b) the closure handed to ok_or_else / ok_or on the lookup result
            if b_.kind == 'closure':
                for m in F:
                    for bb2, t2 in m.calls():
                        if t2.get('name') in ('ok_or_else', 'ok_or') and any(strip_refs(m.origin(a))[:1] == ('agg',) and strip_refs(m.origin(a))[1].get('def') == b_.path for a in t2['args']):
                            return True, 1
            return False, 1
        ck = h.body(re.compile(r'server::HealthService as .*Health>::check::\{closure#0\}$'))
        FCK, g, okg = lookup_facts(ck, 'check')
        R.check(len(g) == 1, 'C18.R3', 'check:get.map', site(ck), 'one lookup table.get(name) on the check path: %d' % len(g))
        R.check(okg, 'C18.R3', 'check:by-request-service', site(ck), 'the lookup is keyed by request.service and made under the lock: %r' % okg)
        br = [(b_, bb, t) for b_, bb, t in fam_calls(FCK, name='borrow') if 'watch::Receiver' in (t.get('fn') or '')]
        okb = len(br) == 1 and from_stored_rx(FCK, g, br[0][0], br[0][2]['args'][0])
        R.check(okb, 'C18.R3', 'check:current-value-of-stored-receiver', site(br[0][0], br[0][1]) if br else site(ck), 'the status returned is *receiver.borrow() of the receiver stored under that name: %r' % okb)
        R.check(not fam_calls(FCK, name='borrow_and_update') and not fam_calls(FCK, name='changed'), 'C18.R3', 'check:not-consuming', site(ck), 'check does not consume change notifications')
        oknf, nnf = not_found_ok(FCK, ck, g)
        R.check(oknf, 'C18.R3', 'check:not_found-on-miss', site(ck), 'Status::not_found exactly when the name is not registered: %r (sites %d)' % (oknf, nnf))
        lookupish = lambda x: (is_call(x) and (x[1] or '').startswith('tonic_health::server')) or (x and x[0] == 'yield') or is_call(x, name='poll') or is_call(x, name='borrow')
        nw = [(bb, t) for bb, t in ck.calls(name='new') if 'HealthCheckResponse' in (t.get('fn') or '')]
        okn = len(nw) == 1 and term_contains(ck.origin(nw[0][1]['args'][0]), lookupish)
        if not nw:
            # .map(HealthCheckResponse::new) over what the lookup returned
            fu = [(m_, bb_, t_, k_) for m_, bb_, t_, k_ in fnitem_uses([ck], lambda k_: 'HealthCheckResponse' in k_['fn'] and k_['fn'].endswith('::new')) if t_ is not None and t_.get('name') == 'map']
            okn = len(fu) == 1 and term_contains(ck.origin(fu[0][2]['args'][0]), lookupish)
        R.check(okn, 'C18.R3', 'check:returns-that-status', site(ck), 'HealthCheckResponse::new(status from the lookup)')
        wt = h.body(re.compile(r'server::HealthService as .*Health>::watch::\{closure#0\}$'))
        FWT, g, okk = lookup_facts(wt, 'watch')
        R.check(len(g) == 1 and okk, 'C18.R3', 'watch:lookup', site(wt), 'table.read().await.get(request.service): %d lookup(s), keyed by the request: %r' % (len(g), okk))
        cn = [(b_, bb, t) for b_, bb, t in fam_calls(FWT, name='clone') if 'watch::Receiver' in ((t.get('resolved') or '') + (t.get('self_ty') or ''))]
        okcn = len(cn) == 1 and from_stored_rx(FWT, g, cn[0][0], cn[0][2]['args'][0])
        if not cn:
            # `Receiver::clone` handed over as the projection the lookup helper applies to the stored receiver: the helper calls its
            # function parameter on something derived from the get
            cf = fnitem_uses(FWT, lambda k_: k_['fn'].endswith('Clone::clone') and any('watch::Receiver' in g_ for g_ in (k_.get('ga') or [])))
            applied = False
            for m_ in FWT:
                for bb_, t_ in m_.calls():
                    if t_.get('name') in ('call', 'call_once', 'call_mut') or (t_.get('fn') is None and t_.get('fnptr')):
                        applied = applied or any(term_contains(trace(h, FWT, m_, m_.origin(a_)), lambda x: is_call(x, name='get') and 'HashMap' in x[1]) for a_ in t_['args'])
                for bb_ in m_.live_blocks():
                    t_ = m_.term(bb_)
                    if t_['k'] == 'call' and not t_.get('fn') and any(term_contains(trace(h, FWT, m_, m_.origin(a_)), lambda x: is_call(x, name='get') and 'HashMap' in x[1]) for a_ in t_['args']):
                        applied = True
            okcn = len(cf) == 1 and applied
        R.check(okcn, 'C18.R3', 'watch:clone-stored-receiver', site(wt), 'rx.clone() of the stored receiver: %d site(s)' % len(cn))
        streamish = lambda x: is_call(x, name='clone') or (x and x[0] == 'yield') or is_call(x, name='poll') or (is_call(x) and (x[1] or '').startswith('tonic_health::server'))
        ws = [(bb, t) for bb, t in wt.calls(name='new') if (t.get('fn') or '').endswith('server::WatchStream::new')]
        okws = len(ws) == 1 and term_contains(wt.origin(ws[0][1]['args'][0]), streamish)
        if not ws:
            fu = [(m_, bb_, t_, k_) for m_, bb_, t_, k_ in fnitem_uses([wt], lambda k_: k_['fn'].endswith('server::WatchStream::new')) if t_ is not None and t_.get('name') == 'map']
            okws = len(fu) == 1 and term_contains(wt.origin(fu[0][2]['args'][0]), streamish)
        R.check(okws, 'C18.R3', 'watch:stream-over-that-receiver', site(wt), 'WatchStream::new(the cloned receiver)')
        oknf, nnf = not_found_ok(FWT, wt, g)
        R.check(oknf, 'C18.R3', 'watch:not_found-on-miss', site(wt), 'Status::not_found when the name is not registered: %r (sites %d)' % (oknf, nnf))
        wn = h.body('server::WatchStream::new')
        R.saw(wn)
        c = wn.calls(name='new')
        okw = len(c) == 1 and re.search(r'tokio_stream::wrappers::(watch::)?WatchStream', c[0][1].get('fn') or '') is not None and show(wn.origin(c[0][1]['args'][0])).startswith('arg1')
        R.check(okw, 'C18.R3', 'watch:current-value-first', site(wn), 'tokio_stream::wrappers::WatchStream::new(rx) (from_changes would skip the current status): %s' % (c[0][1].get('fn') if c else None))
        R.check(not any(t.get('name') == 'from_changes' for bd in h.bodies for bb, t in bd.calls()), 'C18.R3', 'watch:no-from_changes', '', 'WatchStream::from_changes is not used anywhere in tonic-health')
        pn = h.body(re.compile(r'server::WatchStream as tokio_stream::Stream>::poll_next$'))
        R.saw(pn)
        fam_pn = family(h, pn)
        is_inner_poll = lambda t_: t_.get('name') == 'poll_next' and re.search(r'tokio_stream::wrappers::(watch::)?WatchStream', (t_.get('self_ty') or '') + (t_.get('resolved') or '')) is not None
        pl = [(bb, t) for bb, t in pn.calls(name='poll_next') if is_inner_poll(t)]
        R.check(len(pl) == 1 and mentions_arg(pn.origin(pl[0][1]['args'][0]), 1), 'C18.R3', 'stream:forwards-inner', site(pn), 'polls the wrapped tokio WatchStream held in self: %d site(s)' % len(pl))
        selfmade = []
        for fb in fam_pn:
            for bb, i, p, a, ops in mirlib.aggregates(fb, 'task::Poll', 'Pending'):
                g_ = fb.edge_guards(bb)
                from_inner = fb is pn and any(tm[0] == 'discr' and is_call(strip_refs(tm[1]), name='poll_next') and tm[2] and len(vals) == 1 and dict((x_, y_) for x_, y_ in tm[2]).get(vals[0]) == 'Pending' for s_, vals, tm in g_)
                if not from_inner:
                    selfmade.append((fb, bb))
        R.check(not selfmade, 'C18.R3', 'stream:no-self-made-pending', site(selfmade[0][0], selfmade[0][1]) if selfmade else site(pn),
                'Poll::Pending is only ever the inner stream\'s Pending (which registered the waker): other constructed Pending sites %d — returning Pending without a registered waker parks the watcher forever' % len(selfmade))
        news = [(fb, bb, t) for fb in fam_pn for bb, t in fb.calls(name='new') if 'HealthCheckResponse' in (t.get('fn') or '')]
        okm = False
        if len(news) == 1:
            fb, bb, t = news[0]
            a0 = fb.origin(t['args'][0])
            if fb is pn:
                okm = term_contains(a0, lambda x: x and x[0] == 'variant' and x[2] == 'Some' and term_contains(x, lambda y: is_call(y, name='poll_next')))
            else:
                okm = arg_root(strip_refs(a0)) is not None
        if not news:
            # the constructor handed to Option::map as a function: ready!(inner.poll_next(cx)).map(HealthCheckResponse::new).map(Ok)
            for fb in fam_pn:
                for bb, t in fb.calls(name='map'):
                    fn_args = [(a_.get('k') or {}).get('fn') or '' for a_ in t['args'] if isinstance(a_, dict)]
                    if any(re.search(r'HealthCheckResponse>?::new$', f_) for f_ in fn_args) and 'Option' in (t.get('fn') or '') and term_contains(fb.origin(t['args'][0]), lambda y: is_call(y, name='poll_next')):
                        okm = True
        # every Some(status) of the inner stream becomes an item: no path from the Some arm of the inner poll to Pending / nothing
        R.check(okm, 'C18.R3', 'stream:maps-each-status', site(pn), 'each status yielded by the inner stream is mapped to Ok(HealthCheckResponse::new(status))')

    # ---------------------------------------------------------------- R4 defaults / sharing / conversions
    R.describe('C18.R4', 'HealthReporter::new registers "" -> SERVING; health_reporter() shares one Arc between reporter and service; ServingStatus conversion is the identity table')
    with R.guard('C18.R4'):
        nw = h.body('server::HealthReporter::new')
        NW = deep_family(h, nw)
        R.saw(*NW)
        ch = fam_calls(NW, pat='watch::channel')
        okd = False
        if len(ch) == 1:
            sv = strip_refs(mirlib.simplify(trace(h, NW, ch[0][0], ch[0][0].origin(ch[0][2]['args'][0]))))
            okd = sv[0] == 'agg' and sv[1].get('variant') == 'Serving'
        # the key: "" (to_string / to_owned / String::from of the empty literal, or String::new())
        keys = []
        for b_, bb, t in fam_calls(NW, name='to_string') + fam_calls(NW, name='to_owned') + fam_calls(NW, name='from'):
            if t['args'] and const_val(b_.origin(t['args'][0])) == '':
                keys.append(bb)
        keys += [bb for b_, bb, t in fam_calls(NW, pat='String', name='new') if 'string::String' in (t.get('fn') or '')]
        okn = len(keys) == 1
        R.check(okd and okn, 'C18.R4', 'default-empty-name-serving', site(nw), '("" as String, watch::channel(Serving)): name %r status %r' % (okn, okd))
        hr = h.body('server::health_reporter')
        R.saw(hr)
        c = hr.calls(pat='HealthService::new')
        oks = len(c) == 1 and is_call(strip_refs(hr.origin(c[0][1]['args'][0])), name='clone') and arg_root(strip_refs(strip_refs(hr.origin(c[0][1]['args'][0]))[2][0])) is None \
            and mentions_call(hr.origin(c[0][1]['args'][0]), pat='HealthReporter::new') and 'Arc' in (strip_refs(hr.origin(c[0][1]['args'][0]))[4].get('self_ty') or strip_refs(hr.origin(c[0][1]['args'][0]))[1])
        R.check(oks, 'C18.R4', 'shared-arc', site(hr), 'HealthService::new(reporter.<table>.clone()): %r' % oks)
        cv = h.body(re.compile(r'impl std::convert::From<ServingStatus> for .*health_check_response::ServingStatus>::from$'))
        R.saw(cv)
        rows = decision_rows(cv, 0, writers_of(cv, 0))
        src = {v['discr']: v['name'] for v in h.adt('tonic_health::ServingStatus')['variants']}
        got = {}
        for cons, bb in rows:
            d = cons_dict(cons)
            ds = [v for k, v in d.items() if k.startswith('discr(')]
            if ds and ds[0][0] == '==':
                got[src.get(ds[0][1])] = variant_of(block_writes(cv, bb, 0))
        for nme in ('Unknown', 'Serving', 'NotServing'):
            R.eq(got.get(nme), nme, 'C18.R4', 'convert:%s' % nme, site(cv), 'wire status for ServingStatus::%s' % nme)
        rn = h.body('server::<impl generated::grpc_health_v1::HealthCheckResponse>::new')
        R.saw(rn)
        fr = [(bb, t) for bb, t in rn.calls(name='from') + rn.calls(name='into') if t['args'] and show(strip_refs(rn.origin(t['args'][0]))).startswith('arg1')]
        ag = mirlib.aggregates(rn, 'HealthCheckResponse')
        okr = len(fr) == 1 and show(rn.origin(fr[0][1]['args'][0])).startswith('arg1') and len(ag) == 1 and term_contains(rn.origin(ag[0][4][ag[0][3]['fields'].index('status')]), lambda x: is_call(x) and x[4] is fr[0][1])
        R.check(okr, 'C18.R4', 'response-carries-status', site(rn), 'HealthCheckResponse::new(status) stores the wire value converted from that status')
