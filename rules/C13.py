"""C13 — graceful shutdown loses no accepted call (ordering / pairing clauses)."""
import re
from common import *
import mirlib

META = {
    'explanation': 'On the pre-transform coroutine CFGs of Server::serve_internal and serve_connection: nothing that accepts or serves a '
                   'connection is reachable after the shutdown broadcast; on the graceful edge every path to the return passes, in order, '
                   'Sender::send -> drop of the server\'s own receiver -> awaiting Sender::closed; every connection task gets a clone of '
                   'the receiver made before it is spawned, holds it (borrowed, not moved into the signal future) until its connection '
                   'future completed, calls graceful_shutdown (never breaks out) on the signal and max-age arms, and leaves its loop only '
                   'through the arm of the completed connection; the Fuse helper fires once.',
    'exhaustive': True,
    'assumptions': ['hyper graceful_shutdown lets in-flight streams finish; tokio watch::Sender::closed resolves when all receivers are dropped; tokio::select! polls the listed futures'],
}


def run(R):
    tonic = R.crate('tonic')
    si = tonic.body('transport::server::Server::<L>::serve_internal::{closure#0}')
    # the connection task: the coroutine, written in serve_connection or in an async helper it spawns, that drives the connection
    sp0 = tonic.body('transport::server::serve_connection')
    tasks = [c for c in family(tonic, sp0) if c.kind == 'coroutine' and c.calls(name='graceful_shutdown')]
    if len(tasks) != 1:
        raise CheckError('ANCHOR-MISSING: %d coroutines under serve_connection call graceful_shutdown (the connection task)' % len(tasks))
    sc = tasks[0]
    R.saw(si, sc)

    # ---------------------------------------------------------------- R1 nothing accepted after the broadcast
    R.describe('C13.R1', 'serve_internal: no accept / MakeSvc::call / serve_connection is reachable after watch::Sender::send; the send is on the graceful edge')
    send = None
    host, host_call = si, None
    with R.guard('C13.R1'):
        sends = [(bb, t) for bb, t in si.calls(pat='watch::Sender', name='send')]
        if not sends:
            # the drain phase may live in an async helper extracted later (not a function of the pinned tree) that serve_internal awaits
            kn = mirlib.known_fns().get('tonic', set())
            for ab_, ai_, ap_, aa_, aops_ in mirlib.aggregates(si):
                if aa_.get('kind') != 'coroutine' or not aa_.get('def'):
                    continue
                fnp = aa_['def'].rsplit('::{closure#0}', 1)[0]
                co = [x for x in tonic.bodies if x.kind == 'coroutine' and x.path == aa_['def']]
                if fnp.startswith('tonic::') and fnp not in kn and co and co[0].calls(pat='watch::Sender', name='send'):
                    host = co[0]
                    host_call = (ab_, {'caps': {n_: si.origin(o_) for n_, o_ in zip(aa_.get('fields') or [], aops_)}})
                    sends = [(ab_, None)]
                    R.saw(host)
                    R.note('the drain phase (send / drop / closed) is in the awaited helper %s' % fnp)
        if len(sends) != 1:
            raise CheckError('ANCHOR-MISSING: watch::Sender::send in serve_internal (%d sites)' % len(sends))
        send = sends[0]
        after = si.reachable(send[0])
        for nm, pat in (('accept', 'StreamExt::next'), ('make-service', 'Service::call'), ('serve_connection', 'serve_connection'), ('poll_ready', 'Service::poll_ready')):
            hits = [bb for bb, t in si.calls(pat=pat) if bb in after and bb != send[0]]
            R.check(not hits, 'C13.R1', 'after-send:no-%s' % nm, site(si, hits[0]) if hits else site(si, send[0]), '%s reachable after the shutdown broadcast: %d site(s)' % (pat, len(hits)))
        # the test that decides whether there is a shutdown signal at all: `signal.is_some()` (an Option of the caller's future
        # type), wherever it is kept in between (a local, a field of a private struct, a capture of the drain helper)
        def graceful_test(body_, tm_):
            r_ = strip_refs(mirlib.simplify(resolve_env(tonic, body_, tm_, within=[si])))
            if is_call(r_, name='is_some') and 'Option' in r_[1]:
                ga_ = r_[4].get('ga') or []
                return any(re.match(r'^[A-Z]\w?$', g_ or '') for g_ in ga_) or 'signal' in show(r_)
            return False
        gsite = None
        for body_, at_ in ((si, send[0]),) + (((host, host.calls(pat='watch::Sender', name='send')[0][0]),) if host is not si else ()):
            for s_, vals_, tm_ in body_.edge_guards(at_):
                if graceful_test(body_, tm_) and (vals_ == ['else'] or 0 not in vals_):
                    gsite = (body_, s_)
        R.check(gsite is not None, 'C13.R1', 'send-on-graceful', site(si, send[0]), 'the broadcast happens only when a signal was supplied (graceful)')
        R.check(gsite is not None, 'C13.R1', 'graceful=signal.is_some()', site(si), 'the flag tested is signal.is_some()')
        acc = si.calls(pat='StreamExt::next')
        R.check(len(acc) == 1 and 'incoming' in show(si.origin(acc[0][1]['args'][0])), 'C13.R1', 'accept-site', site(si), 'incoming.next() sites: %d' % len(acc))

    # the accept loop looks at the signal on every turn: its select! either starts at a random branch (not `biased;`) or polls
    # the signal before the listener (a biased select with the listener first never polls the signal while connections keep arriving)
    with R.guard('C13.R1', 'select'):
        sels = []
        for c in tonic.bodies:
            if c.kind != 'closure' or not c.path.startswith(si.path + '::'):
                continue
            polls = [(bb, t) for bb, t in c.calls(name='poll') if 'Future::poll' in (t.get('fn') or '')]
            sigp = [(bb, t) for bb, t in polls if re.search(r'server::Fuse<', str(t.get('self_ty')))]
            accp = [(bb, t) for bb, t in polls if re.search(r'stream_ext::next::Next<', str(t.get('self_ty')))]
            if sigp and accp:
                sels.append((c, sigp, accp))
        R.check(len(sels) == 1, 'C13.R1', 'accept-select', site(si), 'select! closures polling both the shutdown signal and incoming.next(): %d' % len(sels))
        for c, sigp, accp in sels:
            R.saw(c)
            fair = bool(c.calls(name='thread_rng_n'))

            def branch_ix(bb_):
                for s_, vals, tm in c.edge_guards(bb_):
                    if show(tm).startswith('Rem(') and len(vals) == 1 and isinstance(vals[0], int):
                        return vals[0]
                return None
            si_, ai_ = branch_ix(sigp[0][0]), branch_ix(accp[0][0])
            R.check(fair or (si_ is not None and ai_ is not None and si_ < ai_), 'C13.R1', 'signal-polled-every-turn', site(c, sigp[0][0]),
                    'random start branch: %r; branch order signal=%r listener=%r (biased with the listener first starves the signal under a steady stream of connections: connections keep being accepted after the signal)' % (fair, si_, ai_))

    # ---------------------------------------------------------------- R2 order on the graceful edge
    R.describe('C13.R2', 'graceful edge: send -> drop(own receiver) -> closed().await -> return, on every path; the non-graceful edge returns without waiting')
    with R.guard('C13.R2'):
        hb = host
        hsend = send if host is si else (hb.calls(pat='watch::Sender', name='send') or [None])[0]

        def from_channel(body_, term_, want_clone=False):
            """does the value come from the watch::channel made in serve_internal (through the helper's parameter when hosted)"""
            if body_ is si:
                return term_contains(term_, lambda x: is_call(x, pat='watch::channel')) and (want_clone or not term_contains(term_, lambda x: is_call(x, name='clone')))
            caps = host_call[1]['caps']
            envs = find_terms(term_, lambda x: isinstance(x, tuple) and len(x) == 3 and x[0] == 'field' and x[1] in (('env',), ('deref', ('env',))))
            if not envs or envs[0][2] not in caps:
                return False
            a_ = caps[envs[0][2]]
            return term_contains(a_, lambda x: is_call(x, pat='watch::channel')) and not term_contains(a_, lambda x: is_call(x, name='clone'))
        drops = [(bb, t) for bb, t in hb.calls(pat='mem::drop') if any('watch::Receiver' in g for g in t.get('ga', []))]
        R.check(len(drops) == 1, 'C13.R2', 'own-receiver-dropped', site(hb), 'drop::<watch::Receiver<()>> sites: %d (without it closed() never resolves)' % len(drops))
        closed = [(bb, t) for bb, t in hb.calls(pat='watch::Sender', name='closed')]
        R.check(len(closed) == 1, 'C13.R2', 'closed-awaited', site(hb), 'Sender::closed sites: %d' % len(closed))
        rets = hb.return_blocks()
        if drops and closed and hsend:
            R.check(hb.dominates(hsend[0], drops[0][0]) and hb.dominates(drops[0][0], closed[0][0]), 'C13.R2', 'order:send<drop<closed', site(hb, closed[0][0]), 'send dominates drop(receiver) dominates closed()')
            # the drop is of the receiver created with the channel, not of a clone
            dv = hb.origin(drops[0][1]['args'][0])
            R.check(from_channel(hb, dv), 'C13.R2', 'drops-the-original-receiver', site(hb, drops[0][0]), 'dropped value = %s' % show(dv)[:100])
            ys = [bb for bb in hb.reachable(closed[0][0]) if hb.term(bb)['k'] == 'yield']
            R.check(bool(ys), 'C13.R2', 'closed-is-awaited', site(hb, closed[0][0]), 'closed() is followed by an await point')
            for rb in rets:
                R.check(hb.must_pass(hsend[0], rb, [closed[0][0]]), 'C13.R2', 'every-graceful-path-waits', site(hb, rb), 'every path from send to the return passes closed()')
            if host is not si:
                # the helper's future is awaited before serve_internal returns
                ysi = [bb for bb in si.reachable(send[0]) if si.term(bb)['k'] == 'call' and si.term(bb).get('name') == 'poll' and 'Future::poll' in (si.term(bb).get('fn') or '')]
                R.check(bool(ysi) and all(si.must_pass(send[0], rb, ysi) for rb in si.return_blocks() if rb in si.reachable(send[0])), 'C13.R2', 'every-graceful-path-waits:helper-awaited', site(si, send[0]), 'the drain helper is awaited on every path to the return')
            if gsite is not None:
                gb_, gs_ = gsite
                other = [t_ for t_, vals in gb_.switch_edges(gs_).items() if vals == [0]]
                wait_site = closed[0][0] if gb_ is hb else send[0]
                R.check(bool(other) and wait_site not in gb_.reachable(other[0], removed={gs_}), 'C13.R2', 'non-graceful-does-not-wait', site(gb_, gs_), 'without a signal serve returns without awaiting closed()')
            tx = hb.origin(closed[0][1]['args'][0])
            stx = hb.origin(hsend[1]['args'][0])
            R.check(from_channel(hb, tx, True) and from_channel(hb, stx, True), 'C13.R2', 'same-channel', site(hb), 'send and closed act on the sender of the channel made in serve_internal')
        ch = si.calls(pat='watch::channel')
        R.check(len(ch) == 1, 'C13.R2', 'one-channel', site(si), 'watch::channel sites: %d' % len(ch))

    # ---------------------------------------------------------------- R3 every connection gets a receiver made before it is spawned
    R.describe('C13.R3', 'serve_connection(.., graceful.then(|| signal_rx.clone()), ..): each connection task is handed a clone of the receiver created in serve_internal (not a sender to subscribe later)')
    with R.guard('C13.R3'):
        c = si.calls(name='serve_connection')
        if len(c) != 1:
            raise CheckError('ANCHOR-MISSING: serve_connection call in serve_internal (%d sites)' % len(c))
        # where the receiver enters serve_connection: a parameter, or a field of a parameter struct
        wlocs = locs_of_type(tonic, sp0, r'watch::Receiver<\(\)>')
        if len(wlocs) != 1:
            raise CheckError('UNRECOGNISED: serve_connection has %d parameters / parameter fields holding a watch::Receiver' % len(wlocs))
        via = loc_through_call(si, c[0][1], wlocs[0])
        if not via or via[0] != 'term':
            raise CheckError('UNRECOGNISED: the receiver handed to serve_connection is not built at the call site')
        w = strip_refs(via[1])
        wty = sp0.ty(wlocs[0][0]) if not wlocs[0][1] else [f_['ty'] for f_ in tonic.adt(re.sub(r'<.*$', '', re.sub(r"^&('\w+ )?(mut )?", '', sp0.ty(wlocs[0][0]))))['variants'][0]['fields'] if f_['n'] == wlocs[0][1][-1]][0]
        okt = is_call(w, name='then') and ('graceful' in show(w[2][0]) or (is_call(strip_refs(w[2][0]), name='is_some') and 'signal' in show(w[2][0])))
        # or spelled out: if graceful { Some(signal_rx.clone()) } else { None }
        phi_form = False
        if not okt and w and w[0] == 'phi':
            alts = [strip_refs(a_) for a_ in w[1]] if isinstance(w[1], (list, tuple)) else []
            somes = [a_ for a_ in alts if a_ and a_[0] == 'agg' and a_[1].get('variant') == 'Some']
            nones = [a_ for a_ in alts if a_ and a_[0] == 'agg' and a_[1].get('variant') == 'None']
            if len(somes) == 1 and len(nones) == 1 and len(alts) == 2:
                pay = strip_refs(somes[0][2][0])
                okpay = is_call(pay, name='clone') and 'watch::Receiver' in pay[1] + str(pay[4].get('self_ty')) + str(pay[4].get('resolved')) and term_contains(pay, lambda x: is_call(x, pat='watch::channel'))
                sb = [bb_ for bb_, i_, p_, a_, ops_ in mirlib.aggregates(si, variant='Some') if show(strip_refs(si.origin(ops_[0]))) == show(pay)]
                okg = bool(sb) and all(any(graceful_test(si, tm_) and (vals_ == ['else'] or 0 not in vals_) for s_, vals_, tm_ in si.edge_guards(bb_)) for bb_ in sb)
                phi_form = bool(okpay and okg)
        R.check(okt or phi_form, 'C13.R3', 'watcher=graceful.then(..)', site(si, c[0][0]), 'watcher argument = %s' % show(w)[:100])
        if phi_form:
            R.ok('C13.R3', 'closure-clones-receiver', site(si, c[0][0]), 'Some(signal_rx.clone()) on the graceful edge, None otherwise')
        if okt:
            clo = strip_refs(w[2][1])
            okc = False
            if clo[0] == 'agg' and 'def' in clo[1]:
                cb = tonic.body(clo[1]['def'])
                R.saw(cb)
                cl = [(bb, t) for bb, t in cb.calls(name='clone')]
                okc = len(cl) == 1 and 'watch::Receiver' in ((cl[0][1].get('self_ty') or '') + (cl[0][1].get('resolved') or '')) and cl[0][1]['dest']['l'] == 0
            R.check(okc, 'C13.R3', 'closure-clones-receiver', site(si, c[0][0]), 'the closure returns signal_rx.clone(): %r' % okc)
        R.check('Option<tokio::sync::watch::Receiver<()>>' in wty, 'C13.R3', 'connection-takes-a-receiver', 'tonic/src/transport/server/mod.rs (serve_connection)', 'serve_connection watcher parameter type: %s' % wty)
        subs = [short(bd.path) for bd in tonic.bodies if 'transport::server' in bd.path for bb, t in bd.calls(name='subscribe')]
        R.check(not subs, 'C13.R3', 'no-late-subscribe', '', 'watch::Sender::subscribe calls in transport::server: %r (a receiver subscribed inside the task misses a signal sent before its first poll and is not counted by closed())' % subs)

    # ---------------------------------------------------------------- R4 connection task
    R.describe('C13.R4', 'connection task: signal future = Fuse{watcher.as_mut().map(|w| w.changed())} (receiver borrowed, not moved); graceful_shutdown on the signal and max-age arms; the loop is left only after the connection future completed; the receiver is dropped after the loop')
    with R.guard('C13.R4'):
        fz = [x for x in mirlib.aggregates(sc, 'transport::server::Fuse')]
        R.check(len(fz) == 1, 'C13.R4', 'fuse-site', site(sc), 'Fuse constructions: %d' % len(fz))
        wl = sc.local_named('watcher')
        upw = 'watcher' in sc.upvar_names()
        if fz:
            inner = strip_refs(sc.origin(fz[0][4][0]))
            am = strip_refs(inner[2][0]) if is_call(inner, pat='Option', name='map') else None
            okm = is_call(am, name='as_mut') and any('watch::Receiver' in g_ for g_ in (am[4].get('ga') or [])) and am[2] and strip_refs(am[2][0])[0] != 'call'
            R.check(okm, 'C13.R4', 'signal-borrows-receiver', site(sc, fz[0][0], fz[0][1]),
                    'Fuse.inner = %s; required watcher.as_mut().map(..): the task must keep owning the receiver while the connection is open (moving it into the signal future releases it when the signal fires)' % show(inner)[:110])
            if okm:
                clo = strip_refs(inner[2][1])
                okc = False
                if clo[0] == 'agg' and 'def' in clo[1]:
                    cb = tonic.body(clo[1]['def'])
                    ch = cb.calls(pat='watch::Receiver', name='changed')
                    okc = len(ch) == 1 and ch[0][1]['dest']['l'] == 0
                elif clo[0] == 'fnitem' and re.search(r'watch::Receiver::<.*>::changed$|watch::Receiver<.*>::changed$|watch::Receiver::changed$', str(clo[1])):
                    okc = True   # `.map(watch::Receiver::changed)`: the method itself instead of |w| w.changed()
                R.check(okc, 'C13.R4', 'signal=receiver.changed()', site(sc), 'the closure returns w.changed()')
        gs = sc.calls(name='graceful_shutdown')
        R.check(len(gs) == 2, 'C13.R4', 'graceful_shutdown-sites', site(sc), 'graceful_shutdown sites: %d (signal arm and max-connection-age arm)' % len(gs))
        # select output switch
        outs = [bb for bb in sorted(sc.live_blocks()) if sc.term(bb)['k'] == 'switch' and (lambda o: o[0] == 'discr' and '__tokio_select_util::Out' in (o[3] or ''))(sc.origin(sc.term(bb)['on']))]
        if len(outs) != 1:
            raise CheckError('UNRECOGNISED: %d switches on the select! output in serve_connection' % len(outs))
        ob = outs[0]
        o = sc.origin(sc.term(ob)['on'])
        names = {v: n for v, n in o[2]}
        edges = sc.switch_edges(ob)
        head = None
        # loop head = a block dominating ob that is reachable from ob
        for x in sorted(sc.dominators()[ob], key=lambda y: -len(sc.dominators()[y])):
            if x in sc.reachable(sc.succs(ob)[0]) or any(x in sc.reachable(t_) for t_ in edges):
                head = x
                break
        arm_of = {}
        for t_, vals in edges.items():
            for v in vals:
                if v != 'else':
                    arm_of[names.get(v, v)] = t_
        exits = {}
        for nm, t_ in arm_of.items():
            # path-sensitively: an arm that only names the event (`=> Event::X`) is followed into the matching arm of the `match` that acts on it
            region = sc.reach_ps([t_], removed={ob})
            loops_back = ob in sc.reach_ps([t_])
            reaches_ret = any(rb in region for rb in sc.return_blocks())
            has_gs = any(bb in region and not (bb in sc.reachable(arm_of[o2], removed={ob}) if False else False) for bb, t in gs for o2 in [nm])
            exits[nm] = (reaches_ret, loops_back, region)
        # a graceful_shutdown site belongs to an arm when only that arm's (path-sensitive) region contains it
        regions_ = {nm: exits[nm][2] for nm in exits}
        for nm in list(exits):
            rr_, lb_, reg_ = exits[nm]
            exits[nm] = (rr_, lb_, [bb for bb, t in gs if bb in reg_ and not any(bb in regions_[o2] for o2 in regions_ if o2 != nm)])
        # arm _0 is `rv = &mut conn`
        order = sorted(k for k in exits if re.match(r'_\d+$', str(k)))
        R.check(len(order) == 3, 'C13.R4', 'three-select-arms', site(sc, ob), 'select! arms: %r' % order)
        if len(order) == 3:
            conn_arm, sleep_arm, sig_arm = order
            R.check(exits[conn_arm][0] and not exits[conn_arm][2], 'C13.R4', 'loop-exit-after-connection-completes', site(sc, ob), 'the arm of the completed connection future leaves the loop: %r' % (exits[conn_arm],))
            for nm, label in ((sleep_arm, 'max-age'), (sig_arm, 'signal')):
                reaches_ret, loops_back, gss = exits[nm]
                R.check(len(gss) == 1 and loops_back and not reaches_ret, 'C13.R4', '%s-arm:graceful_shutdown-and-continue' % label, site(sc, arm_of[nm]),
                        '%s arm: graceful_shutdown sites %d, continues the loop %r, can leave the loop without the connection completing %r' % (label, len(gss), loops_back, reaches_ret))
        for bb, t in gs:
            R.check(term_contains(sc.origin(t['args'][0]), lambda x: is_call(x, name='serve_connection')) or 'Connection' in (t.get('self_ty') or t.get('fn') or ''), 'C13.R4', 'graceful_shutdown-on-conn', site(sc, bb), 'receiver = %s' % show(sc.origin(t['args'][0]))[:80])
        # the receiver is dropped only after the loop
        dr = [(bb, t) for bb, t in sc.calls(pat='mem::drop') if any('watch::Receiver' in g for g in t.get('ga', []))]
        implicit = [bb for bb in sc.live_blocks() if sc.term(bb)['k'] == 'drop' and 'watch::Receiver' in sc.tystr(sc.term(bb)['ty'])]
        alld = [bb for bb, t in dr] + implicit
        R.check(bool(alld), 'C13.R4', 'receiver-dropped-at-end', site(sc), 'drop sites of the task\'s receiver: explicit %d, scope-end %d' % (len(dr), len(implicit)))
        inloop = [bb for bb in alld if ob in sc.reachable(bb)]
        R.check(not inloop, 'C13.R4', 'receiver-outlives-loop', site(sc, inloop[0]) if inloop else site(sc), 'the receiver is dropped only after the serve loop was left (drops inside the loop: %d)' % len(inloop))
        hs = sc.calls(pat='Builder', name='serve_connection')
        R.check(len(hs) == 1, 'C13.R4', 'hyper-serve_connection', site(sc), 'hyper serve_connection sites: %d' % len(hs))
        sp = tonic.body('transport::server::serve_connection')
        R.check(len(sp.calls(pat='tokio::spawn')) == 1 or len(sp.calls(name='spawn')) == 1, 'C13.R4', 'task-spawned', site(sp), 'the connection future is spawned as its own task')

    # ---------------------------------------------------------------- R5 Fuse fires once
    R.describe('C13.R5', 'Fuse::poll: after the inner future is Ready the slot is cleared; an empty slot is Pending forever')
    with R.guard('C13.R5'):
        fp = tonic.body(re.compile(r'transport::server::Fuse<F> as std::future::Future>::poll$'))
        R.saw(fp)
        fam = [fp] + [c for c in tonic.children(fp) if c.kind == 'closure']
        fzf = [f_['n'] for f_ in tonic.adt('transport::server::Fuse')['variants'][0]['fields'] if f_['ty'].startswith('std::option::Option<') or f_['ty'].startswith('Option<')]
        if len(fzf) != 1:
            raise CheckError('UNRECOGNISED: Fuse has %d Option fields' % len(fzf))
        SLOT = fzf[0]
        sets = [(fb, bb, t) for fb in fam for bb, t in fb.calls(name='set')]
        oks = False
        for fb, bb, t in sets:
            v = strip_refs(fb.origin(t['args'][1]))
            oks = v[0] == 'agg' and v[1].get('variant') == 'None' and (mentions_field(resolve_env(tonic, fb, fb.origin(t['args'][0])), SLOT) or recv_place_fields(fb, t['args'][0])[-1:] == [SLOT])
        mp = fp.calls(pat='Poll', name='map')
        okm = len(mp) == 1 and is_call(strip_refs(fp.origin(mp[0][1]['args'][0])), name='poll') and mp[0][1]['dest']['l'] == 0
        if not okm and len(sets) == 1 and sets[0][0] is fp:
            # spelled out: let out = ready!(fut.poll(cx)); inner.set(None); Poll::Ready(out)  — the clearing set() is on the Ready edge of
            # the poll and on every path from there to a return
            sb_ = sets[0][1]
            pol = [bb_ for bb_, t_ in fp.calls(name='poll') if 'Future::poll' in (t_.get('fn') or '')]
            g_ = fp.edge_guards(sb_)
            on_ready = any(tm[0] == 'discr' and is_call(strip_refs(tm[1]), name='poll') and vals == [0] and tm[2] and dict((a_, b_) for a_, b_ in tm[2]).get(0) == 'Ready' for s_, vals, tm in g_)
            ready_rets = [bb_ for bb_, i_, p_, a_, o_ in mirlib.aggregates(fp, 'task::Poll', 'Ready') if p_['l'] == 0]
            okm = len(pol) == 1 and on_ready and bool(ready_rets) and all(fp.dominates(sb_, rb_) for rb_ in ready_rets)
        R.check(len(sets) == 1 and oks and okm, 'C13.R5', 'cleared-when-ready', site(fp), 'the slot is cleared exactly when the inner future returned Ready (fut.poll(cx).map(|o| { inner.set(None); o }) or the spelled-out form): set sites %d, clears inner %r, tied to the Ready result %r' % (len(sets), oks, okm))
        pend = [bb for bb in writers_of(fp, 0) if any(w[0] == 'variant' and w[2] == 'Pending' for w in block_writes(fp, bb, 0))]
        okp = any(any(tm[0] == 'discr' and vals in ([0], ['else']) and (term_contains(tm, lambda x: is_call(x, name='as_pin_mut')) or mentions_field(tm, SLOT)) for s, vals, tm in fp.edge_guards(bb)) for bb in pend)
        R.check(okp, 'C13.R5', 'empty-slot-pending', site(fp), 'None -> Poll::Pending: %r' % okp)
