"""C04 — status survives the header encoding; reading any headers is total.

Decided here (structural necessary conditions, DESIGN §3 C04):
 R1 four code tables agree with the 17-row spec table   R2 percent-encode set ⊇ controls ∪ {%}
 R3 base64 engines                                        R4 reader strips / writer order
 R5 totality of the header reader (panic sites)           R6 HTTP status table   R7 HTTP/2 reason table
"""
import re
from common import *
import mirlib
import C08

META = {
    'explanation': 'Status/Code tables are extracted from MIR by value (decision rows of every switch / Eq chain) and '
                   'compared row by row with spec/status_codes.json, spec/http_status.json and spec/h2_reason.json; the '
                   'percent-encode set is const-evaluated; base64 engine constructors are read from the const '
                   'initialisers; every potential panic site reachable from the header reader is enumerated.',
    'exhaustive': True,
    'assumptions': ['percent-encoding::AsciiSet is a 128-bit mask in little-endian u32 chunks (asserted by size 16)',
                    'http::HeaderMap::insert replaces, remove removes all values of a name'],
}


def family_call(tonic, body, name=None, pat=None):
    """[(owner body, bb, call term, link)] for calls in `body` or in closures nested in it; link = the origin, in `body`, of the
    receiver of the combinator call the closure was handed to (None when the call is in `body` itself)"""
    out = [(body, bb, t, None) for bb, t in body.calls(pat=pat, name=name)]
    for c in tonic.bodies:
        if c.kind != 'closure' or not c.path.startswith(body.path + '::'):
            continue
        hits = c.calls(pat=pat, name=name)
        if not hits:
            continue
        # find, up the closure chain, the call in `body` that receives the outermost closure
        top = c
        while top.parent != body.path and top.parent:
            ps = [x for x in tonic.bodies if x.path == top.parent]
            if not ps:
                break
            top = ps[0]
        link = None
        for pb, pt in body.calls():
            for a in pt['args']:
                o = strip_refs(body.origin(a))
                if o[0] == 'agg' and o[1].get('def') == top.path and pt['args']:
                    link = body.origin(pt['args'][0])
        for bb, t in hits:
            out.append((c, bb, t, link))
    # functions written after the pinned tree that `body` hands to a combinator by name (`.map_or_else(dflt, decode_header)`)
    for m in family(tonic, body):
        if m.kind != 'fn' or m is body:
            continue
        fam_m = [m] + [c for c in tonic.bodies if c.kind == 'closure' and c.path.startswith(m.path + '::')]
        link = None
        for pb, pt in body.calls():
            if any('k' in a and re.sub(r'::<[^:]*>$', '', a['k'].get('fn') or '') == m.path for a in pt['args']) and pt['args']:
                link = body.origin(pt['args'][0])
        for c in fam_m:
            for bb, t in c.calls(pat=pat, name=name):
                if not any(x[0] is c and x[1] == bb for x in out):
                    out.append((c, bb, t, link))
    return out


def check_status_writer(R, tonic, rule):
    """every value Status::add_header stores under grpc-message / grpc-status-details-bin / grpc-status went through its encoder on every path"""
    ah = tonic.body('status::Status::add_header')
    R.saw(ah)
    # every value stored under grpc-message / grpc-status-details-bin / grpc-status went through its encoder on every path
    enc = {'GRPC_MESSAGE': ('percent_encode', None), 'GRPC_STATUS_DETAILS': ('encode', 'base64'), 'GRPC_STATUS': ('to_header_value', None)}
    nins = 0
    for ibb, it in ah.calls(pat='HeaderMap', name='insert'):
        k = constdef(ah.origin(it['args'][1])) or ''
        kn = k.split('::')[-1]
        if kn not in enc:
            R.bad(rule, 'writer-insert-key', site(ah, ibb), 'insert under %s: not one of the three status headers' % show(ah.origin(it['args'][1])))
            continue
        nins += 1
        fn_, pat_ = enc[kn]
        v = ah.origin(it['args'][2])
        R.check(on_every_path(v, lambda x: is_call(x, name=fn_, pat=pat_)), rule, 'writer-always-encodes:%s' % kn, site(ah, ibb),
                'value of %s passes through %s() on every path: %s' % (kn, fn_, show(v)[:140]))
    R.floor(rule, 'status header inserts in add_header', nins, 3)
    # the user metadata goes in first, so that it can never overwrite one of the three status headers (grpc-status-details-bin is
    # not a reserved name that into_sanitized_headers strips; HeaderMap::extend replaces existing keys)
    ext = ah.calls(name='extend')
    for ibb, it in ah.calls(pat='HeaderMap', name='insert'):
        kn = (constdef(ah.origin(it['args'][1])) or '?').split('::')[-1]
        R.check(len(ext) == 1 and ah.dominates(ext[0][0], ibb), rule, 'writer-metadata-first:%s' % kn, site(ah, ibb), 'extend(user metadata) happens before the insert of %s' % kn)
    # completeness by feasible path: grpc-status on every successful path; grpc-message / grpc-status-details-bin whenever the
    # message / the details are not empty (an early return for "nothing to write" must not skip the other field)
    ins_of = {}
    for ibb, it in ah.calls(pat='HeaderMap', name='insert'):
        ins_of.setdefault((constdef(ah.origin(it['args'][1])) or '?').split('::')[-1], []).append(ibb)
    meta = {}
    npaths = 0
    for cons, path in mirlib.path_rows(ah, meta=meta, limit=200000):
        val = strip_refs(mirlib.simplify(ah.ret_on_path(path)))
        if not (val and val[0] == 'agg' and val[1].get('variant') == 'Ok'):
            continue
        npaths += 1
        terms = meta.get('__terms__', {})
        nonempty = {}
        for sub_, op_, v_ in cons:
            tm_ = terms.get(sub_)
            c_ = strip_refs(tm_) if tm_ is not None else None
            neg_ = False
            while c_ and c_[0] == 'un' and c_[1] == 'Not':
                c_ = strip_refs(c_[2]); neg_ = not neg_
            if is_call(c_, name='is_empty'):
                fld = [f_ for f_ in field_names(c_[2][0]) if f_ in ('message', 'details')] or (['message'] if mentions_call(c_[2][0], name='message') else [])
                truth = (op_ == '==' and v_ not in (0, False)) or (op_ in ('!=',) and v_ in (0, False)) or (op_ == 'notin' and 0 in v_)
                falsy = (op_ == '==' and v_ in (0, False))
                if fld and (truth or falsy):
                    empty = truth != neg_
                    nonempty[fld[-1]] = not empty
        st = site(ah, path[-1])
        R.check(any(b_ in path for b_ in ins_of.get('GRPC_STATUS', [])), rule, 'writer-complete:grpc-status', st, 'a successful path of add_header writes grpc-status')
        for fld, kn in (('message', 'GRPC_MESSAGE'), ('details', 'GRPC_STATUS_DETAILS')):
            if nonempty.get(fld) is not False:
                # not known to be empty on this path: it must have been written (or tested non-empty and written)
                wrote = any(b_ in path for b_ in ins_of.get(kn, []))
                R.check(wrote or fld not in nonempty and False or wrote, rule, 'writer-complete:%s' % fld, st,
                        'on a successful path where the %s is not known to be empty, %s is written: %r (known: %r)' % (fld, kn, wrote, nonempty))
    R.floor(rule, 'successful paths of add_header', npaths, 1)
    # the user metadata is copied as a whole map (HeaderMap::extend keeps every value of a repeated name; insert keeps the last)
    ext = ah.calls(name='extend')
    okx = len(ext) == 1 and is_call(strip_refs(ah.origin(ext[0][1]['args'][1])), name='into_sanitized_headers') and mentions_field(ah.origin(ext[0][1]['args'][1]), 'metadata')
    R.check(okx, rule, 'writer-extends-with-whole-metadata', site(ah, ext[0][0]) if ext else site(ah), 'header_map.extend(self.metadata.clone().into_sanitized_headers()): %r' % okx)


def run(R):
    tonic = R.crate('tonic')
    codes = spec('status_codes')['codes']
    byname = codes
    bynum = {v: k for k, v in codes.items()}

    # ---------------------------------------------------------------- R1 code tables
    R.describe('C04.R1', 'Code enum, Code::to_header_value, Code::from_bytes, Code::from_i32 all equal the 17-row spec table; non-rows map to Unknown')
    with R.guard('C04.R1'):
        adt = tonic.adt('tonic::status::Code')
        got = {v['name']: v['discr'] for v in adt['variants']}
        for name, num in codes.items():
            R.eq(got.get(name), num, 'C04.R1', 'enum:%s' % name, 'tonic/src/status.rs (enum Code)', 'discriminant of Code::%s' % name)
        R.eq(len(got), 17, 'C04.R1', 'enum:count', 'tonic/src/status.rs (enum Code)', 'number of variants')

        # to_header_value: discr(arg) == n  ->  HeaderValue::from_static("n")
        b = tonic.body('status::Code::to_header_value')
        R.saw(b)
        seen = {}
        for cons, path in mirlib.path_rows(b):
            d = cons_dict(cons)
            subj = [k for k in d if k.startswith('discr(')]
            val = strip_refs(mirlib.simplify(b.ret_on_path(path)))
            bb = path[-1]
            tl = table_lookup(tonic, val[2][0]) if is_call(val, name='from_static') else None
            if tl is not None and tl['kind'] == 'index':
                # the table as data: from_static(TABLE[self as usize](.0)) — row n is entry n; if entries carry the code too it must be code n
                probe = strip_refs(tl['probe'])
                while probe and probe[0] == 'cast' and len(probe) > 2:
                    probe = strip_refs(probe[2])
                R.check(probe[0] == 'discr' and arg_root(probe[1]) == 1, 'C04.R1', 'to_header_value:indexed-by-code', site(b, bb), 'the table is indexed by the code\'s own discriminant: %s' % show(tl['probe'])[:60])
                for n, e in enumerate(tl['entries']):
                    s_ = const_str(tl['value'](e))
                    seen[n] = s_
                    R.eq(s_, str(n), 'C04.R1', 'to_header_value:%s' % bynum.get(n, n), site(b, bb), 'header string for discriminant %d (table entry %d)' % (n, n))
                    if e and e[0] == 'agg' and e[1].get('kind') == 'tuple':
                        cvs = [x for x in e[2] if strip_refs(x)[0] == 'agg' and (strip_refs(x)[1].get('adt') or '').endswith('status::Code')]
                        R.check(len(cvs) == 1 and strip_refs(cvs[0])[1].get('variant') == bynum.get(n), 'C04.R1', 'to_header_value:entry-code:%s' % bynum.get(n, n), site(b, bb), 'table entry %d belongs to Code::%s' % (n, bynum.get(n)))
                continue
            if len(subj) != 1 or d[subj[0]][0] != '==' or not is_call(val, name='from_static'):
                R.bad('C04.R1', 'to_header_value:shape', site(b, bb), 'unrecognised row %r -> %s' % (cons, show(val)[:80]), kind='UNRECOGNISED')
                continue
            n = d[subj[0]][1]
            s = const_str(val[2][0])
            seen[n] = s
            R.eq(s, str(n), 'C04.R1', 'to_header_value:%s' % bynum.get(n, n), site(b, bb), 'header string for discriminant %d' % n)
        R.floor('C04.R1', 'to_header_value rows', len(seen), 17)

        # from_bytes
        b = tonic.body('status::Code::from_bytes')
        R.saw(b)
        eff = writers_of(b, 0)
        rows = decision_rows(b, 0, eff)
        pe = tonic.body('status::Code::parse_err')
        R.saw(pe)
        pe_w = [w for bb in writers_of(pe, 0) for w in block_writes(pe, bb, 0)]
        R.check(len(pe_w) == 1 and pe_w[0][0] == 'variant' and pe_w[0][2] == 'Unknown', 'C04.R1', 'parse_err=Unknown', site(pe),
                'Code::parse_err returns %r' % (pe_w,))
        found = {}
        # the table as data: TABLE.iter().find(|(text, _)| text.as_bytes() == bytes).map_or_else(parse_err, |(_, code)| *code), or
        # TABLE.iter().position(|text| ..).map(|i| Code::from_i32(i)) over the strings "0".."16"
        tls = []
        for cons_, path_ in mirlib.path_rows(b):
            v_ = strip_refs(mirlib.simplify(b.ret_on_path(path_)))
            t0_ = table_lookup(tonic, v_)
            if t0_ is None:
                for c_ in find_terms(v_, lambda y: is_call(y, name='position')):
                    t0_ = table_lookup(tonic, c_)
            if t0_ is not None and t0_['kind'] in ('find', 'position'):
                tls.append((t0_, v_, path_))
        if tls:
            t0_, v_, path_ = tls[0]
            R.check(arg_root(strip_refs(resolve_env(tonic, b, t0_['probe']))) == 1 or mentions_arg(t0_['probe'], 1) or term_contains(t0_['probe'], lambda y: y and y[0] == 'field' and y[1] in (('env',), ('deref', ('env',)))), 'C04.R1', 'from_bytes:probe', site(b), 'the table is searched for the header bytes')
            for n_, e_ in enumerate(t0_['entries']):
                k_ = const_str(t0_['key'](e_)) if const_str(t0_['key'](e_)) is not None else const_val(t0_['key'](e_))
                k_ = k_.decode('latin1') if isinstance(k_, bytes) else k_
                if t0_['kind'] == 'find' and t0_['value'] is not None:
                    cv_ = strip_refs(t0_['value'](e_))
                    found[k_] = cv_[1].get('variant') if cv_ and cv_[0] == 'agg' else None
                elif t0_['kind'] == 'position' and term_contains(v_, lambda y: is_call(y, name='from_i32')):
                    found[k_] = bynum.get(n_)   # position n is handed to Code::from_i32 (its own table is checked below)
            dflt_ok = (t0_['default'] is not None and has_fn(t0_['default'], 'parse_err')) or any(is_call(strip_refs(mirlib.simplify(b.ret_on_path(p2_))), name='parse_err') for c2_, p2_ in mirlib.path_rows(b))
            R.check(dflt_ok, 'C04.R1', 'from_bytes:default@table', site(b), 'a value not in the table yields Code::parse_err() (Unknown)')
            rows = []
        for cons, bb in rows:
            d = cons_dict(cons)
            ln = [v for k, v in d.items() if 'len(' in k or k.startswith('PtrMetadata(')]
            b0 = [v for k, v in d.items() if k.endswith('[const(0)]')]
            b1 = [v for k, v in d.items() if k.endswith('[const(1)]')]
            w = block_writes(b, bb, 0)
            var = variant_of(w)
            is_err = bool(w) and w[0][0] == 'call' and (w[0][3] == 'parse_err')
            key = None
            if ln and ln[0][0] == '==' and b0 and b0[0][0] == '==':
                if ln[0][1] == 1 and not b1:
                    key = chr(b0[0][1])
                elif ln[0][1] == 2 and b1 and b1[0][0] == '==':
                    key = chr(b0[0][1]) + chr(b1[0][1])
            if key is not None:
                if var is None and not is_err:
                    R.bad('C04.R1', 'from_bytes:shape', site(b, bb), 'row %r writes %r' % (key, w), kind='UNRECOGNISED')
                    continue
                found[key] = var if var else 'Unknown'
            else:
                # a default row: must be the error value
                R.check(is_err or var == 'Unknown', 'C04.R1', 'from_bytes:default@' + ','.join('%s%s' % (k.split('(')[0][-12:], v[0]) for k, v in sorted(d.items())), site(b, bb),
                        'non-row path %r yields %r (must be Unknown)' % (cons, w))
        for name, num in codes.items():
            R.eq(found.get(str(num)), name, 'C04.R1', 'from_bytes:%s' % name, site(b), 'Code for header bytes %r' % str(num))
        for k, v in found.items():
            if not (k.isdigit() and int(k) in bynum and str(int(k)) == k):
                R.check(v == 'Unknown', 'C04.R1', 'from_bytes:extra:%s' % k, site(b), 'bytes %r map to %s but are not a spec row' % (k, v))
        R.floor('C04.R1', 'from_bytes rows', len(found), 17)
        # the accepted language is exactly the 17 canonical spellings: an integer parser is not an equivalent reader
        ip = [(m_, bb_) for m_ in family(tonic, b) for bb_, t_ in m_.calls() if t_.get('name') in ('parse', 'from_str', 'from_str_radix', 'from_ascii') and re.search(r'core::str|core::num|std::str|FromStr', (t_.get('fn') or '') + ' ' + (t_.get('resolved') or ''))]
        R.check(not ip, 'C04.R1', 'from_bytes:no-integer-parse', site(ip[0][0], ip[0][1]) if ip else site(b),
                'Code::from_bytes reads grpc-status with an integer parser (%d site(s)): str::parse::<i32> also accepts "+7", "07", "00" — malformed codes that must read as Unknown (a trailer `grpc-status: 00` would count as success)' % len(ip))

        # from_i32
        b = tonic.body('status::Code::from_i32')
        R.saw(b)
        eff = writers_of(b, 0)
        rows = decision_rows(b, 0, eff)
        found = {}
        for cons, bb in rows:
            d = cons_dict(cons)
            var = variant_of(block_writes(b, bb, 0))
            ks = [v for k, v in d.items() if k.startswith('arg1')]
            if ks and ks[0][0] == '==':
                found[ks[0][1]] = var
            elif ks and ks[0][0] == 'in':
                for v in ks[0][1]:
                    found[v] = var
            else:
                R.check(var == 'Unknown', 'C04.R1', 'from_i32:default', site(b, bb), 'default row yields %r' % var)
        for name, num in codes.items():
            R.eq(found.get(num), name, 'C04.R1', 'from_i32:%s' % name, site(b), 'Code for integer %d' % num)
        R.floor('C04.R1', 'from_i32 rows', len(found), 17)

    # ---------------------------------------------------------------- R2 percent-encode set
    R.describe('C04.R2', 'ENCODING_SET ⊇ {0x00..0x1F, 0x7F, %}; writer percent_encode(.., ENCODING_SET), reader percent_decode(..).decode_utf8()')
    with R.guard('C04.R2'):
        c = tonic.const('tonic::status::ENCODING_SET')
        bs = c.get('bytes')
        if not bs or len(bs) != 16:
            raise CheckError('UNRECOGNISED: ENCODING_SET does not evaluate to a 16-byte mask: %r' % (c,))
        mask = int.from_bytes(bytes(bs), 'little')
        need = list(range(0x20)) + [0x7f, ord('%')]
        missing = [ch for ch in need if not (mask >> ch) & 1]
        R.check(not missing, 'C04.R2', 'set', 'tonic/src/status.rs (ENCODING_SET)',
                'mask=%032x; required members missing: %r' % (mask, [hex(m) for m in missing]))
        for ch in need:
            R.check((mask >> ch) & 1, 'C04.R2', 'member:0x%02x' % ch, 'tonic/src/status.rs (ENCODING_SET)', 'byte 0x%02x is in the encode set' % ch)
        ah = tonic.body('status::Status::add_header')
        R.saw(ah)
        bb, t = ah.call1(name='percent_encode')
        a1 = ah.origin(t['args'][1])
        R.check(constdef(a1) and constdef(a1).endswith('ENCODING_SET'), 'C04.R2', 'writer-uses-set', site(ah, bb), 'percent_encode second argument = %s' % show(a1))
        a0 = ah.origin(t['args'][0])
        R.check(mentions_field(a0, 'message') or mentions_call(a0, name='message'), 'C04.R2', 'writer-encodes-message', site(ah, bb), 'percent_encode input = %s' % show(a0))
        check_status_writer(R, tonic, 'C04.R2')
        fh = tonic.body('status::Status::from_header_map')
        R.saw(fh)
        fc = family_call(tonic, fh, name='decode_utf8')
        if len(fc) != 1:
            raise CheckError('ANCHOR-MISSING: decode_utf8 in from_header_map (or a closure of it) matched %d sites' % len(fc))
        ob, bb, t, link = fc[0]
        a0 = ob.origin(t['args'][0])
        src_ok = mentions_constdef(a0, 'GRPC_MESSAGE') if link is None else mentions_constdef(link, 'GRPC_MESSAGE')
        R.check(is_call(strip_refs(a0), name='percent_decode') and src_ok, 'C04.R2', 'reader-decodes-message', site(ob, bb),
                'decode_utf8 receiver = %s (applied to the grpc-message header: %r)' % (show(a0), src_ok))

    # ---------------------------------------------------------------- R3 base64 engines
    R.describe('C04.R3', 'base64 engines: decoders accept padded and unpadded input; writer of grpc-status-details-bin uses the no-pad engine, reader the indifferent STANDARD engine')
    with R.guard('C04.R3'):
        for cname, pad in (('util::base64::STANDARD', True), ('util::base64::STANDARD_NO_PAD', False)):
            b, calls = const_init_calls(tonic, cname)
            R.saw(b)
            names = [t.get('name') for _, _, t in calls]
            pads = [const_val(a[1]) for fn, a, t in calls if t.get('name') == 'with_encode_padding']
            R.eq(pads, [pad], 'C04.R3', '%s:encode_padding' % cname.split('::')[-1], site(b), 'with_encode_padding argument')
            modes = [a[1] for fn, a, t in calls if t.get('name') == 'with_decode_padding_mode']
            ok = len(modes) == 1 and modes[0][0] == 'agg' and modes[0][1].get('variant') == 'Indifferent'
            R.check(ok, 'C04.R3', '%s:decode_indifferent' % cname.split('::')[-1], site(b), 'decode padding mode = %s' % (show(modes[0]) if modes else None))
            alph = [a for fn, a, t in calls if t.get('name') == 'new' and 'GeneralPurpose' in (fn or '') and 'Config' not in (fn or '')]
            R.check(len(alph) == 1 and term_contains(alph[0][0], lambda x: x and x[0] == 'constdef' and x[1].endswith('alphabet::STANDARD')),
                    'C04.R3', '%s:alphabet' % cname.split('::')[-1], site(b), 'alphabet = %s' % (show(alph[0][0]) if alph else None))
        ah = tonic.body('status::Status::add_header')
        bb, t = ah.call1(name='encode')
        R.check(mentions_constdef(ah.origin(t['args'][0]), 'STANDARD_NO_PAD'), 'C04.R3', 'writer-engine', site(ah, bb), 'engine = %s' % show(ah.origin(t['args'][0])))
        inp_ = ah.origin(t['args'][1])
        R.check(mentions_field(inp_, 'details') or term_contains(inp_, lambda x: is_call(x, name='details') and 'Status' in x[1]), 'C04.R3', 'writer-encodes-details', site(ah, bb), 'input = %s' % show(inp_))
        fh = tonic.body('status::Status::from_header_map')
        fc = family_call(tonic, fh, pat='base64::Engine::decode')
        if len(fc) != 1:
            raise CheckError('ANCHOR-MISSING: base64 decode in from_header_map (or a closure of it) matched %d sites' % len(fc))
        ob, bb, t, link = fc[0]
        eng = ob.origin(t['args'][0])
        R.check(constdef(eng) and constdef(eng).endswith('base64::STANDARD'), 'C04.R3', 'reader-engine', site(ob, bb), 'engine = %s' % show(eng))
        inp = ob.origin(t['args'][1])
        R.check(mentions_constdef(inp, 'GRPC_STATUS_DETAILS') if link is None else mentions_constdef(link, 'GRPC_STATUS_DETAILS'), 'C04.R3', 'reader-decodes-details', site(ob, bb), 'input = %s' % show(inp))

    # ---------------------------------------------------------------- R4 strips / order
    R.describe('C04.R4', 'reader removes exactly the three status headers from the metadata clone; writer extends with sanitised user metadata before inserting the three (insert, not append)')
    with R.guard('C04.R4'):
        w = spec('wire')['status_headers']
        for cn, val in w.items():
            R.eq(header_name_value(tonic, 'status::Status::' + cn), val, 'C04.R4', 'name:' + cn, 'tonic/src/status.rs', 'header name constant ' + cn)
        fh = tonic.body('status::Status::from_header_map')
        removed = set()
        for bb, t in fh.calls(pat='HeaderMap', name='remove'):
            key = fh.origin(t['args'][1])
            cd = constdef(key)
            recv = strip_refs(fh.origin(t['args'][0]))
            R.check(is_call(recv, name='clone'), 'C04.R4', 'reader-remove-on-clone:%s' % (cd or '?').split('::')[-1], site(fh, bb), 'remove receiver = %s' % show(recv))
            if cd:
                removed.add(cd.split('::')[-1])
            elif find_terms(key, lambda x: is_call(x, name='next')):
                # a loop over an array of the constants
                for x in find_terms(key, lambda x: x and x[0] == 'agg' and x[1].get('kind') == 'array'):
                    for o in x[2]:
                        if constdef(o):
                            removed.add(constdef(o).split('::')[-1])
                # .. or over a named constant table of them
                for e_ in (const_table(tonic, key) or []):
                    if constdef(e_):
                        removed.add(constdef(e_).split('::')[-1])
        R.eq(sorted(removed), sorted(w), 'C04.R4', 'reader-removes', site(fh), 'names removed from the metadata clone')
        # metadata field built from that clone
        aggs = mirlib.aggregates(fh, 'status::Status')
        okm = False
        for bb, i, p, a, ops in aggs:
            fields = a.get('fields', [])
            if 'metadata' in fields:
                mt = fh.origin(ops[fields.index('metadata')])
                okm = is_call(mt, name='from_headers') and mentions_call(mt, name='clone')
                R.check(okm, 'C04.R4', 'reader-metadata-from-clone', site(fh, bb, i), 'metadata = %s' % show(mt))
                ct = strip_refs(fh.origin(ops[fields.index('source')]))
                R.check(ct[0] == 'agg' and ct[1].get('variant') == 'None', 'C04.R4', 'reader-source-none', site(fh, bb, i), 'source = %s' % show(ct))
        R.floor('C04.R4', 'Status aggregate in from_header_map', len(aggs), 1)
        ah = tonic.body('status::Status::add_header')
        ext = ah.calls(name='extend')
        ins = ah.calls(pat='HeaderMap', name='insert')
        R.check(len(ext) == 1 and is_call(ah.origin(ext[0][1]['args'][1]), name='into_sanitized_headers'), 'C04.R4', 'writer-extend-sanitised', site(ah, ext[0][0]) if ext else site(ah),
                'extend argument = %s' % (show(ah.origin(ext[0][1]['args'][1])) if ext else None))
        names = []
        for bb, t in ins:
            cd = constdef(ah.origin(t['args'][1]))
            names.append((cd or '?').split('::')[-1])
            if ext:
                R.check(ah.dominates(ext[0][0], bb), 'C04.R4', 'writer-order:%s' % names[-1], site(ah, bb), 'extend(user metadata) dominates insert of %s' % names[-1])
        R.eq(sorted(names), sorted(w), 'C04.R4', 'writer-inserts', site(ah), 'status headers inserted')
        R.check(not ah.calls(pat='HeaderMap', name='append'), 'C04.R4', 'writer-no-append', site(ah), 'no HeaderMap::append in add_header')
        # grpc-status inserted unconditionally: dominates every Ok return
        st = [bb for bb, t in ins if (constdef(ah.origin(t['args'][1])) or '').endswith('GRPC_STATUS')]
        if st:
            oks = [bb for bb, i, p, a, ops in mirlib.aggregates(ah, 'result::Result', 'Ok') if flows_to_return(ah, p['l'])]
            for okb in oks:
                R.check(ah.dominates(st[0], okb), 'C04.R4', 'writer-status-unconditional', site(ah, okb), 'insert(GRPC_STATUS) dominates the Ok return')
            R.floor('C04.R4', 'Ok returns of add_header', len(oks), 1)
        code_arg = [ah.origin(t['args'][2]) for bb, t in ins if (constdef(ah.origin(t['args'][1])) or '').endswith('GRPC_STATUS')]
        R.check(code_arg and is_call(code_arg[0], name='to_header_value') and mentions_field(code_arg[0], 'code'), 'C04.R4', 'writer-status-from-code', site(ah),
                'grpc-status value = %s' % (show(code_arg[0]) if code_arg else None))

    with R.guard('C04.R4', 'sanitiser'):
        C08.check_sanitiser(R, tonic, 'C04.R4')

    # ---------------------------------------------------------------- R5 totality
    R.describe('C04.R5', 'no unguarded panic site is reachable from Status::from_header_map / infer_grpc_status / Code::from_bytes inside tonic')
    with R.guard('C04.R5'):
        g = mirlib.call_graph(tonic)
        roots = [tonic.body('status::Status::from_header_map').path, tonic.body('status::infer_grpc_status').path,
                 tonic.body('status::Code::from_bytes').path]
        rs = mirlib.reach(g, roots)
        nsites = 0
        nbodies = 0
        for p in sorted(rs):
            for b in tonic.by_path[p]:
                if b.kind == 'promoted':
                    continue
                nbodies += 1
                R.saw(b)
                for bb, kind, what, t in mirlib.panic_sites(b, include_buf=True):
                    nsites += 1
                    key = 'panic:%s:%s:%s' % (short(b.path), kind, what)
                    if kind == 'assert' and what == 'BoundsCheck':
                        # discharge: index constant k under a dominating guard len == n with k < n
                        idx = const_val(b.origin(t['index']))
                        gs = b.edge_guards(bb)
                        lens = [vals for s, vals, term in gs if 'len(' in show(term) and vals != ['else']]
                        ok = isinstance(idx, int) and any(all(isinstance(v, int) and idx < v for v in vals) for vals in lens)
                        R.check(ok, 'C04.R5', key + ':idx%s' % idx, site(b, bb), 'bounds check index %r under length guards %r' % (idx, lens))
                    else:
                        msg = ''
                        if kind == 'unwrap':
                            recv = b.origin(t['args'][0])
                            msg = 'receiver = %s' % show(recv)
                        R.bad('C04.R5', key, site(b, bb), 'panic site reachable from the header reader on peer-supplied input: %s %s' % (what, msg))
        R.floor('C04.R5', 'bodies in reach of the header reader', nbodies, 5)
        R.note('R5: %d bodies reachable, %d potential panic sites examined' % (nbodies, nsites))

    # ---------------------------------------------------------------- R5b degrade to an error status
    R.describe('C04.R5b', 'from_header_map: whenever decoding grpc-message (percent/UTF-8) or grpc-status-details-bin (base64) fails, the resulting status code is Code::Unknown (never the peer-supplied code)')
    with R.guard('C04.R5b'):
        fh = tonic.body('status::Status::from_header_map')
        meta = {}
        rows = mirlib.path_rows(fh, meta=meta)
        n = 0
        nok = 0
        for cons, path in rows:
            v = cons_view(cons, meta)
            val = mirlib.simplify(fh.ret_on_path(path))
            st_ = [x for x in built_parts(val) if x[1].get('adt', '').endswith('status::Status') and x[1].get('kind') == 'adt']
            if not st_:
                continue
            sa = st_[0]
            code_t = strip_refs(sa[2][sa[1]['fields'].index('code')])
            terms = meta.get('__terms__', {})

            def decoded(k, cname):
                # the Result of decoding that header: a discriminant test of something computed from get(<cname>) that is not the Option itself
                t_ = terms.get(k)
                if not t_ or t_[0] != 'discr' or not mentions_constdef(t_, cname):
                    return False
                inner = strip_refs(t_[1])
                is_result = len(t_) > 2 and t_[2] and 'Err' in [n_ for _, n_ in t_[2]]
                return is_result and not is_call(inner, name='get') and not (is_call(inner, name='branch'))
            def outcome(cname):
                # several tests may look at the same decode result (it may be re-wrapped by a helper): a failure seen by any of them counts
                vs = [x for k, x in v.items() if decoded(k, cname)]
                return 'Err' if 'Err' in vs else ('Ok' if vs and all(x == 'Ok' for x in vs) else None)
            det = outcome('GRPC_STATUS_DETAILS')
            msg = outcome('GRPC_MESSAGE')
            failed = [nm for nm, x in (('message', msg), ('details', det)) if x == 'Err']
            if failed:
                n += 1
                okc = code_t[0] == 'agg' and code_t[1].get('variant') == 'Unknown'
                R.check(okc, 'C04.R5b', 'decode-failure->Unknown@%s' % '+'.join(failed), site(fh, path[-1]),
                        'code on the path where decoding %s fails = %s; required Code::Unknown — otherwise grpc-status: 0 with an undecodable field is treated as success' % ('+'.join(failed), show(code_t)[:80]))
            elif msg in ('Ok', None) and det in ('Ok', None):
                nok += 1
                R.check(term_contains(code_t, lambda x: is_call(x, name='from_bytes')), 'C04.R5b', 'decoded->peer-code', site(fh, path[-1]), 'code on a path without a decode failure = %s (Code::from_bytes of the header)' % show(code_t)[:80])
        R.floor('C04.R5b', 'decode-failure arms', n, 2)
        R.floor('C04.R5b', 'clean paths', nok, 1)

    # ---------------------------------------------------------------- R6 HTTP status table
    R.describe('C04.R6', 'infer_grpc_status maps HTTP status codes exactly as spec/http_status.json; 200 -> Err(None); default Unknown')
    with R.guard('C04.R6'):
        hs = spec('http_status')
        b = tonic.body('status::infer_grpc_status')
        R.saw(b)
        # the table writes a Code-typed local that flows into Status::new
        bbn, tn = b.call1(pat='status::Status::new')
        # Err(None) block
        none_blocks = []
        for bb, i, p, a, ops in mirlib.aggregates(b, 'result::Result', 'Err'):
            if p['l'] == 0:
                ot = strip_refs(b.origin(ops[0]))
                if ot[0] == 'agg' and ot[1].get('variant') == 'None':
                    none_blocks.append(bb)
        rel = lambda s: 'arg2' in s
        # the table by feasible path: constraints on the HTTP status argument -> the Code handed to Status::new (or Err(None))
        meta = {}
        prow = mirlib.path_rows(b, stop={bbn} | set(none_blocks), relevant=rel, meta=meta, limit=200000)
        table = {}
        default = None
        start = bbn
        for cons, path in prow:
            if path[-1] != bbn and path[-1] not in none_blocks:
                continue
            d = cons_dict(cons)
            # the status is pinned by a test on its integer value, or by `status == StatusCode::X` (a call, true on this path)
            eqs = [v for k, v in d.items() if v[0] == '==' and '(' not in k]
            ins = [v for k, v in d.items() if v[0] == 'in' and '(' not in k]
            if not eqs and not ins:
                for sub_, op_, v_ in cons:
                    tm_ = meta.get('__terms__', {}).get(sub_)
                    if tm_ is not None and is_call(strip_refs(tm_), name='eq') and ((op_ == 'notin' and 0 in v_) or (op_ == '!=' and v_ == 0) or (op_ == '==' and v_ not in (0, False))):
                        ints_ = [const_val(x_) for x_ in find_terms(tm_, lambda y: isinstance(y, tuple) and y and y[0] == 'const' and isinstance(y[1], int) and not isinstance(y[1], bool))]
                        # the http crate's associated constants carry the IANA names (StatusCode::OK = 200, ..)
                        import http as _http
                        for x_ in find_terms(tm_, lambda y: isinstance(y, tuple) and y and y[0] == 'constdef' and str(y[1]).startswith('http::StatusCode::')):
                            nm_ = str(x_[1]).rsplit('::', 1)[-1]
                            if nm_ in _http.HTTPStatus.__members__:
                                ints_.append(_http.HTTPStatus[nm_].value)
                        if len(set(ints_)) == 1:
                            eqs = [('==', ints_[0])]
            if path[-1] in none_blocks:
                val = 'Err(None)'
            else:
                cv = strip_refs(mirlib.simplify(b.origin_on_path(tn['args'][0], path)))
                val = cv[1].get('variant') if cv[0] == 'agg' else show(cv)[:40]
            keys_ = [eqs[0][1]] if eqs else (list(ins[0][1]) if ins else [])
            if keys_:
                for k_ in keys_:
                    table[k_] = val
            elif any(k.startswith('arg2') or 'arg2' in k for k in d):
                default = val
        for k, v in hs['map'].items():
            R.eq(table.get(int(k)), v, 'C04.R6', 'http:%s' % k, site(b), 'Code for HTTP %s' % k)
        R.eq(table.get(200), 'Err(None)', 'C04.R6', 'http:200', site(b), 'outcome for HTTP 200 without grpc-status')
        R.eq(default, hs['default'], 'C04.R6', 'http:default', site(b), 'Code for any other HTTP status')
        extra = sorted(set(table) - {int(k) for k in hs['map']} - {200})
        R.check(not extra, 'C04.R6', 'http:no-extra-rows', site(b), 'rows beyond the spec table: %r' % {k: table[k] for k in extra})
        R.floor('C04.R6', 'http rows', len(table), 9)
        # .. and the table is what decides: the decoder never declares a response without grpc-status fine on its own
        check_response_consults_infer(R, tonic, 'C04.R6')
        # Ok(()) (clean outcome) only after the trailers were parsed by from_header_map and their code compared with Code::Ok
        okrets = [bb for bb, i, p, a, ops in mirlib.aggregates(b, 'result::Result', 'Ok') if p['l'] == 0]
        R.floor('C04.R6', 'Ok returns of infer_grpc_status', len(okrets), 1)
        for ob in okrets:
            g = b.edge_guards(ob)
            uses_fhm = lambda t_: has_fn(t_, 'from_header_map', 'Status')
            parsed = any(tm[0] == 'discr' and uses_fhm(tm) and vals == [1] for s, vals, tm in g)
            is_okv = lambda x: x and x[0] == 'agg' and x[1].get('variant') == 'Ok' and 'Code' in x[1].get('adt', '')
            code_ok = any(is_call(strip_refs(tm), name='eq') and term_contains(tm, lambda x: is_call(x, name='code')) and term_contains(tm, is_okv) and (vals == ['else'] or 0 not in vals) for s, vals, tm in g) \
                or any(is_call(strip_refs(tm), name='ne') and term_contains(tm, lambda x: is_call(x, name='code')) and term_contains(tm, is_okv) and vals == [0] for s, vals, tm in g) \
                or any(tm[0] == 'discr' and is_call(strip_refs(tm[1]), name='code') and uses_fhm(tm) and vals == [0] and tm[2] and dict((a_, b_) for a_, b_ in tm[2]).get(0) == 'Ok' for s, vals, tm in g)
            R.check(parsed and code_ok, 'C04.R6', 'ok-only-after-parsing-trailers', site(b, ob),
                    'Ok(()) is returned only when Status::from_header_map(trailers) is Some (%r) and its code == Code::Ok (%r); a shortcut on the raw grpc-status header would skip the undecodable-field degradation' % (parsed, code_ok))
        # trailers path: from_header_map consulted first, Ok only for Code::Ok
        fm = b.calls(pat='Status::from_header_map')
        fmi = [bb_ for bb_, t_ in b.calls() if any(a_.get('k', {}).get('fn', '').endswith('Status::from_header_map') for a_ in t_['args'] if isinstance(a_, dict) and 'k' in a_)]
        R.check(len(fm) + len(fmi) == 1, 'C04.R6', 'trailers-first', site(b), 'from_header_map consulted: %d call(s), %d use(s) as a function value' % (len(fm), len(fmi)))

    # ---------------------------------------------------------------- R7 h2 table
    R.describe('C04.R8', 'the client reads the status a peer wrote into the response headers (Trailers-Only) unconditionally: no test on the body or the HTTP status stands in front of Status::from_header_map in create_response')
    with R.guard('C04.R8'):
        check_trailers_only_read(R, tonic, 'C04.R8')

    R.describe('C04.R9', 'once the trailers frame (the status) has been read the decoder stops reading the body: poll_frame reports "stop" for a trailers frame, so a connection error arriving behind the trailers cannot replace the status they carried (C02.R4 instances re-evaluated under this id)')
    with R.guard('C04.R9'):
        import C02
        C02.check_poll_frame_outcomes(R, tonic, 'C04.R9')

    R.describe('C04.R7', 'Status::code_from_h2 maps HTTP/2 reasons as spec/h2_reason.json; every h2 error conversion routes through it; to_h2_error: Cancelled -> CANCEL else INTERNAL_ERROR')
    with R.guard('C04.R7'):
        h2 = spec('h2_reason')
        b = tonic.body('status::Status::code_from_h2')
        R.saw(b)
        eff = writers_of(b, 0)
        rows = decision_rows(b, 0, eff)
        table, default = {}, None
        # the table as data: REASON_CODES.iter().find(|(r, _)| *r == reason).map_or(Code::Unknown, |(_, c)| *c)
        for cons_, path_ in mirlib.path_rows(b):
            tl_ = table_lookup(tonic, mirlib.simplify(b.ret_on_path(path_)))
            if tl_ is not None and tl_['kind'] == 'find' and tl_['value'] is not None:
                h2num_ = {v_: int(k_) for k_, v_ in h2['names'].items()}
                for e_ in tl_['entries']:
                    kt_ = tl_['key'](e_)
                    cds_ = [str(x_[1]).rsplit('::', 1)[-1] for x_ in find_terms(kt_, lambda y: isinstance(y, tuple) and y and y[0] == 'constdef' and 'Reason::' in str(y[1]))]
                    ints_ = [const_val(x_) for x_ in find_terms(kt_, lambda y: isinstance(y, tuple) and y and y[0] == 'const' and isinstance(y[1], int) and not isinstance(y[1], bool))]
                    num_ = h2num_.get(cds_[0]) if cds_ and cds_[0] in h2num_ else (ints_[0] if len(ints_) == 1 else None)
                    cv_ = strip_refs(tl_['value'](e_))
                    if num_ is None or not (cv_ and cv_[0] == 'agg'):
                        R.bad('C04.R7', 'h2:table-entry', site(b), 'unreadable table entry %s' % show(e_)[:80], kind='UNRECOGNISED')
                        continue
                    table.setdefault(num_, cv_[1].get('variant'))   # find() returns the first match
                dv_ = strip_refs(mirlib.simplify(tl_['default'])) if tl_['default'] is not None else None
                default = dv_[1].get('variant') if dv_ and dv_[0] == 'agg' else None
                R.check(default == 'Unknown', 'C04.R7', 'h2:default', site(b), 'a reason not in the table yields %r' % default)
                R.check(term_contains(resolve_env(tonic, b, tl_['probe']), lambda y: is_call(y, name='reason')) or term_contains(tl_['probe'], lambda y: y and y[0] == 'field' and y[1] in (('env',), ('deref', ('env',)))), 'C04.R7', 'h2:probe', site(b), 'the table is searched for the error\'s reason')
                rows = [(c2_, bb2_) for c2_, bb2_ in rows if variant_of(block_writes(b, bb2_, 0)) is not None]
        for cons, bb in rows:
            d = cons_dict(cons)
            var = variant_of(block_writes(b, bb, 0))
            num = [v for k, v in d.items() if 'reason' in k and not k.startswith('discr(')]
            some = [v for k, v in d.items() if k.startswith('discr(')]
            if num and num[0][0] == '==':
                table[num[0][1]] = var
            elif num and num[0][0] == 'in':
                for v in num[0][1]:
                    table[v] = var
            else:
                R.check(var == 'Unknown', 'C04.R7', 'h2:default', site(b, bb), 'default/None row yields %r' % var)
                default = var
        for k, v in h2['required'].items():
            R.eq(table.get(int(k)), v, 'C04.R7', 'h2:%s' % h2['names'][k], site(b), 'Code for HTTP/2 reason %s (%s)' % (k, h2['names'][k]))
        for k in h2['unspecified']:
            R.note('h2 reason %s (%s) -> %s (not fixed by the property statement)' % (k, h2['names'][k], table.get(int(k), default)))
        extra = sorted(set(table) - {int(k) for k in h2['names']})
        R.check(not extra, 'C04.R7', 'h2:no-unknown-reasons', site(b), 'rows for reasons outside 0..13: %r' % extra)
        R.floor('C04.R7', 'h2 rows', len(table), 11)
        # who calls code_from_h2
        callers = sorted({bd.path for bd, bb, t in call_sites_in_crate(tonic, pat='Status::code_from_h2')})
        need = ['from_h2_error', 'from_hyper_error']
        for n in need:
            R.check(any(n in c for c in callers), 'C04.R7', 'route:%s' % n, '', 'callers of code_from_h2: %r' % callers)
        # no second reason table: no other body switches on h2::Reason values
        others = []
        for bd in tonic.bodies:
            if bd.kind == 'promoted' or bd.path == b.path:
                continue
            for bb2, t in bd.calls(pat='h2::Error::reason'):
                # reading the reason only to hand it to the one table is not a second table
                fed = [1 for bb3, t3 in bd.calls(pat=b.path.split('::')[-1])
                       if any(mentions_call(bd.origin(a), pat='h2::Error::reason') for a in t3['args'])]
                if not fed:
                    others.append(bd.path)
        R.check(not others, 'C04.R7', 'single-table', '', 'other bodies reading h2::Error::reason: %r' % others)
        th = tonic.body('status::Status::to_h2_error')
        R.saw(th)
        # decision on self.code: Cancelled -> CANCEL, else INTERNAL_ERROR
        loc = None
        for bb, t in th.calls(name='into'):
            loc = mirlib.root_local(th, t['args'][0])
        if loc is None:
            raise CheckError('UNRECOGNISED: to_h2_error does not convert a Reason with into()')
        eff = writers_of(th, loc)
        rows = decision_rows(th, 0, eff)
        got = {}
        for cons, bb in rows:
            d = cons_dict(cons)
            w = block_writes(th, bb, loc)
            val = None
            for x in w:
                if x[0] == 'term':
                    cd = constdef(x[1])
                    if cd:
                        val = cd.split('::')[-1]
            ds_ = [v for k, v in d.items() if k.startswith('discr(')]
            if ds_ and ds_[0][0] == '==':
                got[ds_[0][1]] = val
            else:
                got['else'] = val
        R.eq(got.get(byname['Cancelled']), 'CANCEL', 'C04.R7', 'to_h2:Cancelled', site(th), 'reason for Code::Cancelled')
        R.eq(got.get('else'), 'INTERNAL_ERROR', 'C04.R7', 'to_h2:else', site(th), 'reason for every other code')
    if R.tier == 'thorough':
        run_matrix(R)
        R.selftest()


def run_matrix(R):
    """thorough: the HTTP/2 reason table exists exactly in builds with the `server` feature, never a second copy"""
    with R.guard('C04.R7', 'matrix'):
        for name, cfg, cr in R.matrix():
            if not name.startswith('m_role_'):
                continue
            R.cur_cfg = name
            tabs = cr.find('status::Status::code_from_h2')
            want = 1 if 'server' in cr.features else 0
            R.check(len(tabs) == want, 'C04.R7', 'h2-table-presence@' + name, 'tonic/src/status.rs', 'code_from_h2 bodies: %d (features %s; required %d)' % (len(tabs), sorted(cr.features), want))
            b = cr.body('status::infer_grpc_status')
            R.check(len(b.calls(pat='Status::from_header_map')) == 1, 'C04.R6', 'trailers-first@' + name, site(b), 'infer_grpc_status consults the trailers in config %s' % name)
        R.cur_cfg = 'full'


def classify_subject(b, bb):
    return mirlib.classify_test(b.origin(b.term(bb)['on']))[0]
