"""C08 — user metadata crosses the wire intact; protocol headers cannot be forged (structural clauses)."""
import re
from collections import defaultdict
from common import *
import mirlib

META = {
    'explanation': 'The reserved-name table is read from the const initialiser; who-may-call rules over every call site in tonic decide '
                   'which conversions skip sanitising; the five untyped iterators and the fifteen string-keyed accessors are checked '
                   'for the is_valid_key categorisation guard; every method signature of the encoding-generic entry API is checked '
                   'for preservation of the encoding type parameter; base64 engines used by the Binary encoding are identified.',
    'exhaustive': True,
    'assumptions': ['http::HeaderMap preserves the order and values of entries it is given'],
}

KEYED = ('get', 'get_mut', 'get_all', 'entry', 'remove')


def sanitiser_facts(tonic):
    """what into_sanitized_headers does, independent of its spelling (for-loop, or iter().for_each(|n| ..remove(n))):
    dict(removes=[(body, bb, call)], recv_ok, key_ok, all_visited, returns_own)"""
    sh = tonic.body('metadata::map::MetadataMap::into_sanitized_headers')
    fam = [c for c in family(tonic, sh) if c is sh or c.kind == 'closure']
    removes = [(fb, bb, t) for fb in fam for bb, t in fb.calls(pat='HeaderMap', name='remove')]
    out = dict(body=sh, removes=removes, recv_ok=False, key_ok=False, all_visited=False, returns_own=False, key='')
    from_table = lambda t_: mentions_constdef(t_, 'GRPC_RESERVED_HEADERS') or any('GRPC_RESERVED_HEADERS' in show(x) for x in find_terms(t_, lambda x: x and x[0] in ('constdef', 'promoted')))
    if len(removes) == 1:
        fb, bb, t = removes[0]
        recv = resolve_env(tonic, fb, fb.origin(t['args'][0]))
        out['recv_ok'] = mentions_field(recv, 'headers') and arg_root(strip_refs(recv)) == 1
        key = fb.origin(t['args'][1])
        out['key'] = show(key)[:120]
        if fb is sh:
            it = find_terms(key, lambda x: is_call(x, name='next'))
            out['key_ok'] = bool(it) and from_table(key)
            out['all_visited'] = bool(sh.succs(bb)) and bb in sh.reachable(sh.succs(bb)[0])
        else:
            # closure form: the key is the closure's parameter and the closure is what a for_each over the table calls
            k0 = strip_refs(key)
            is_param = k0[0] == 'arg'
            drivers = [(pb, pt) for pb, pt in sh.calls() if pt.get('name') in ('for_each', 'try_for_each') and any(strip_refs(sh.origin(a_))[0] == 'agg' and strip_refs(sh.origin(a_))[1].get('def') == fb.path for a_ in pt['args'])]
            out['key_ok'] = is_param and len(drivers) == 1 and from_table(sh.origin(drivers[0][1]['args'][0]))
            out['all_visited'] = len(drivers) == 1 and drivers[0][1].get('name') == 'for_each' and not find_terms(sh.origin(drivers[0][1]['args'][0]), lambda x: is_call(x) and x[3] in ('take', 'skip', 'filter', 'step_by', 'take_while', 'skip_while'))
    rt = mirlib.returned_terms(sh)
    rt1 = through_getters(tonic, rt[0][1]) if len(rt) == 1 else None
    out['returns_own'] = len(rt) == 1 and field_names(rt1)[-1:] == ['headers'] and arg_root(strip_refs(rt1)) == 1
    out['returns'] = show(rt[0][1]) if rt else None
    # `self.strip(); self.into_headers()`: the unsanitised getter may be the tail of the sanitiser itself when the removal loop
    # has run to completion before it (the loop's iterator step dominates the call, the call is outside the loop)
    out['tail_getter'] = []
    if out['returns_own'] and rt1 != rt[0][1] and len(removes) == 1 and removes[0][0] is sh:
        rbb = removes[0][1]
        nxt = [bb for bb, t in sh.calls(name='next') if rbb in sh.reachable(bb) and bb in sh.reachable(rbb)]
        for cb, ct in sh.calls(pat='MetadataMap::into_headers'):
            if len(nxt) == 1 and sh.dominates(nxt[0], cb) and rbb not in sh.reachable(cb) and arg_root(strip_refs(sh.origin(ct['args'][0]))) == 1:
                out['tail_getter'].append(cb)
    return out


def check_sanitiser(R, tonic, rule):
    """into_sanitized_headers removes names from the map in place (every value of every other name survives); no owned HeaderMap iteration"""
    f = sanitiser_facts(tonic)
    sh = f['body']
    R.saw(sh)
    R.check(len(f['removes']) == 1 and f['recv_ok'], rule, 'sanitiser-removes-in-place', site(sh), 'HeaderMap::remove on self.headers: %d site(s), receiver ok: %r' % (len(f['removes']), f['recv_ok']))
    R.check(f['returns_own'], rule, 'sanitiser-returns-own-map', site(sh), 'returns %s (the same map, not a rebuilt one)' % f['returns'])
    offenders = []
    for bd in tonic.bodies:
        if bd.kind == 'promoted':
            continue
        for bb, t in bd.calls(name='into_iter'):
            st = (t.get('self_ty') or '') + ' ' + (t.get('resolved') or '')
            if re.search(r'(^|[ <])http::HeaderMap', st) and not st.strip().startswith('&'):
                offenders.append('%s (%s)' % (short(bd.path), bd.loc(bb)))
    R.check(not offenders, rule, 'no-owned-headermap-iteration', '', 'owned HeaderMap::into_iter sites in tonic (the 2nd.. value of a repeated name comes with key None and is easily dropped): %r' % offenders)


def run(R):
    tonic = R.crate('tonic')
    W = spec('wire')

    # ---------------------------------------------------------------- R1 reserved names
    R.describe('C08.R1', 'GRPC_RESERVED_HEADERS = the six names of the property; into_sanitized_headers removes every element of that array')
    with R.guard('C08.R1'):
        b, calls = const_init_calls(tonic, 'MetadataMap::GRPC_RESERVED_HEADERS')
        R.saw(b)
        names = [const_str(a[0]) for fn, a, t in calls if t.get('name') == 'from_static' and 'HeaderName' in (fn or '')]
        R.eq(sorted(names), sorted(W['reserved_headers']), 'C08.R1', 'table', site(b), 'reserved header names')
        R.eq(len(names), 6, 'C08.R1', 'count', site(b), 'number of reserved names')
        c = tonic.consts.get('tonic::metadata::map::MetadataMap::GRPC_RESERVED_HEADERS')
        R.check(c is not None and '; 6]' in tonic.tys[c['ty']], 'C08.R1', 'array-type', site(b), 'type = %s' % (tonic.tys[c['ty']] if c else None))
        f = sanitiser_facts(tonic)
        sh = f['body']
        R.saw(sh)
        R.check(len(f['removes']) == 1, 'C08.R1', 'remove-in-loop', site(sh), 'HeaderMap::remove sites: %d' % len(f['removes']))
        if f['removes']:
            fb, bb, t = f['removes'][0]
            R.check(f['key_ok'], 'C08.R1', 'removes-each-reserved', site(fb, bb), 'removed key ranges over GRPC_RESERVED_HEADERS: %s' % f['key'])
            R.check(f['recv_ok'], 'C08.R1', 'removes-from-own-headers', site(fb, bb), 'receiver is self.headers: %r' % f['recv_ok'])
            R.check(f['all_visited'], 'C08.R1', 'loop-over-all', site(fb, bb), 'the remove is applied to every element of the array (loop / for_each)')
        R.check(f['returns_own'], 'C08.R1', 'returns-headers', site(sh), 'returns %s' % f['returns'])

    # ---------------------------------------------------------------- R2 who sanitises
    R.describe('C08.R2', 'who-may-call: into_headers (unsanitised) is called only from Request::into_http on the SanitizeHeaders::No arm; SanitizeHeaders::No is passed only by the interceptor; all other outbound conversions sanitise')
    with R.guard('C08.R2'):
        callers = {}
        for bd, bb, t in call_sites_in_crate(tonic, pat='MetadataMap::into_headers'):
            callers.setdefault(short(bd.path), []).append((bd, bb))
        f2 = sanitiser_facts(tonic)
        own = short(f2['body'].path)
        if own in callers and sorted(bb for bd, bb in callers[own]) == sorted(f2['tail_getter']):
            R.ok('C08.R2', 'into_headers-as-sanitiser-tail', site(f2['body'], f2['tail_getter'][0]), 'the sanitiser returns self.into_headers() after its removal loop has finished')
            callers.pop(own)
        R.eq(sorted(callers), ['tonic::request::Request::into_http'], 'C08.R2', 'into_headers-callers', '', 'bodies calling MetadataMap::into_headers inside tonic')
        rh = tonic.body('request::Request::<T>::into_http')
        R.saw(rh)
        sadt = {v['name']: v['discr'] for v in tonic.adt('request::SanitizeHeaders')['variants']}
        for bd, bb in callers.get('tonic::request::Request::into_http', []):
            g = bd.edge_guards(bb)
            okg = any(show(tm).startswith('discr(') and 'sanitize' in show(tm) and vals == [sadt['No']] for s, vals, tm in g)
            R.check(okg, 'C08.R2', 'into_headers-only-on-No', site(bd, bb), 'guards: %r (No = %d)' % ([(v, show(tm)) for s, v, tm in g], sadt['No']))
        sz = rh.calls(name='into_sanitized_headers')
        R.check(len(sz) == 1 and any(show(tm).startswith('discr(') and vals == [sadt['Yes']] for s, vals, tm in rh.edge_guards(sz[0][0])), 'C08.R2', 'sanitised-on-Yes', site(rh), 'into_sanitized_headers on the Yes arm')
        no_sites, yes_sites = [], []
        for bd, bb, t in call_sites_in_crate(tonic, pat='Request::<T>::into_http'):
            a = strip_refs(bd.origin(t['args'][-1]))
            v = a[1].get('variant') if a[0] == 'agg' else show(a)
            (no_sites if v == 'No' else yes_sites).append((short(bd.path), v))
        R.eq(sorted(set(p for p, v in no_sites)), ['<service::interceptor::InterceptedService<S, I> as tower_service::Service<http::Request<ReqBody>>>::call'], 'C08.R2', 'No-passed-only-by-interceptor', '', 'call sites passing SanitizeHeaders::No')
        R.check(all(v == 'Yes' for p, v in yes_sites) and any('prepare_request' in p for p, v in yes_sites), 'C08.R2', 'client-requests-sanitised', '', 'other into_http call sites: %r' % yes_sites)
        for path in ('response::Response::<T>::into_http', 'status::Status::add_header'):
            bd = tonic.body(path)
            R.check(len(bd.calls(name='into_sanitized_headers')) == 1 and not bd.calls(pat='MetadataMap::into_headers'), 'C08.R2', 'sanitises:%s' % path.split('::')[-1], site(bd), '%s uses into_sanitized_headers' % path)
        # no fn item of the guarded APIs is used as a value (fn pointers would escape the who-may-call rule)
        esc = []
        for bd in tonic.bodies:
            if bd.kind == 'promoted':
                continue
            for bb in bd.live_blocks():
                t = bd.term(bb)
                for a in t.get('args', []) if t['k'] == 'call' else []:
                    if 'k' in a and (a['k'].get('fn') or '').endswith(('MetadataMap::into_headers', 'Request::<T>::into_http')):
                        esc.append(short(bd.path))
        R.check(not esc, 'C08.R2', 'no-fn-pointer-escape', '', 'guarded APIs used as fn values: %r' % esc)
        for nm in ('request::Request::<T>::into_http', 'metadata::map::MetadataMap::into_sanitized_headers'):
            R.check(tonic.sig(nm)['vis'] != 'pub', 'C08.R2', 'crate-private:%s' % nm.split('::')[-1], '', 'visibility of %s = %s' % (nm, tonic.sig(nm)['vis']))

    # ---------------------------------------------------------------- R3 typed categorisation
    R.describe('C08.R3', 'untyped iterators categorise by Ascii::is_valid_key(name) (true -> Ascii variant, false -> Binary); string-keyed accessors first check VE::is_valid_key and miss otherwise; MetadataKey constructors check VE::is_valid_key; Binary = name ends with "-bin", Ascii = its negation')
    with R.guard('C08.R3'):
        n_it = 0
        for itname in ('Iter', 'IterMut', 'Keys', 'Values', 'ValuesMut'):
            nb = tonic.body(re.compile(r"<metadata::map::%s<'a> as std::iter::Iterator>::next$" % itname))
            # by feasible path through next() (or the closure it maps with): the variant built at the end of the path against the
            # outcome of the Ascii::is_valid_key(name) test passed on it — however the test result is carried there
            fam_ = [nb] + [c for c in tonic.children(nb) if c.kind == 'closure']
            # a named private function handed to Option::map in place of the closure (`.map(KeyRef::from_header_name)`)
            for bb_, t_ in nb.calls():
                for a_ in t_['args']:
                    fp_ = (a_.get('k') or {}).get('fn') if isinstance(a_, dict) else None
                    if fp_ and fp_ in tonic.helper_defs and tonic.helper_defs[fp_] not in fam_:
                        fam_.append(tonic.helper_defs[fp_])
                    elif fp_ and fp_.startswith('tonic::metadata::map::') and fp_ in tonic.by_path and tonic.by_path[fp_][0] not in fam_ and tonic.by_path[fp_][0].kind == 'fn':
                        fam_.append(tonic.by_path[fp_][0])
            R.saw(*fam_)
            variants = defaultdict(set)
            tested = []
            ntest = 0
            for c in fam_:
                vk = [(bb_, t_) for bb_, t_ in c.calls(name='is_valid_key')]
                ntest += len(vk)
                for bb_, t_ in vk:
                    who_ = (t_.get('self_ty') or t_.get('fn') or '')
                    # Binary::is_valid_key is the negation of Ascii::is_valid_key (checked below): the outcome is read with the sign flipped
                    R.check('Ascii' in who_ or 'Binary' in who_, 'C08.R3', 'iter:%s:test' % itname, site(c, bb_), 'categorises with %s' % who_)
                    tested.append(c.origin(t_['args'][0]))
                for cons, path in mirlib.path_rows(c, stop=set(writers_of(c, 0))):
                    val = mirlib.simplify(c.ret_on_path(path))
                    built = find_terms(val, lambda x: isinstance(x, tuple) and x and x[0] == 'agg' and isinstance(x[1], dict) and x[1].get('variant') in ('Ascii', 'Binary') and 'metadata::map::' in (x[1].get('adt') or ''))
                    if not built:
                        continue
                    truth = [(c.edge_truth(bb_, vals) if 'Binary' not in (strip_refs(tm)[1] + str((strip_refs(tm)[4] or {}).get('self_ty') if len(strip_refs(tm)) > 4 and isinstance(strip_refs(tm)[4], dict) else '')) else (not c.edge_truth(bb_, vals)))
                             for bb_, tm, vals in c.path_tests(path) if is_call(strip_refs(tm), name='is_valid_key')]
                    for x in built:
                        variants[x[1]['variant']].add(truth[0] if len(truth) == 1 else 'untested' if not truth else 'ambiguous')
            R.check(ntest == 1, 'C08.R3', 'iter:%s:test' % itname, site(nb), 'is_valid_key tests in %s::next: %d' % (itname, ntest))
            if ntest:
                n_it += 1
            R.eq(sorted(map(str, variants.get('Ascii', ()))), ['True'], 'C08.R3', 'iter:%s:true->Ascii' % itname, site(nb), 'outcome of Ascii::is_valid_key on the paths that build the Ascii variant')
            R.eq(sorted(map(str, variants.get('Binary', ()))), ['False'], 'C08.R3', 'iter:%s:false->Binary' % itname, site(nb), 'outcome of Ascii::is_valid_key on the paths that build the Binary variant')
            for key in tested:
                R.check(mentions_call(key, name='as_str'), 'C08.R3', 'iter:%s:tests-the-name' % itname, site(nb), 'tested string = %s' % show(key)[:80])
        R.floor('C08.R3', 'iterators', n_it, 5)
        n_acc = 0
        ACC_TYS = ('&str', 'std::string::String', '&std::string::String')
        acc_body = lambda ty_, m_: tonic.body(re.compile(r'^<%s as metadata::map::as_metadata_key::Sealed<VE>>::%s$' % (re.escape(ty_), m_)))
        direct = {}
        for ty in ACC_TYS:
            for m in KEYED:
                bd = acc_body(ty, m)
                R.saw(bd)
                n_acc += 1
                vk = bd.calls(name='is_valid_key')
                acc = [(bb, t) for bb, t in bd.calls(pat='HeaderMap', name=m)]
                okv = len(vk) == 1 and 'VE' in (vk[0][1].get('self_ty') or '') and len(acc) == 1
                if okv:
                    sw = mirlib.follow_to_switch(bd, vk[0][1]['t'])
                    g = [(s, vals) for s, vals, tm in bd.edge_guards(acc[0][0]) if s == sw]
                    okv = bool(g) and (g[0][1] == ['else'] or 0 not in g[0][1]) and 'arg1' in show(bd.origin(vk[0][1]['args'][0]))
                direct[(ty, m)] = bool(okv)
        # an impl may instead forward to a sibling impl of the same method for the same encoding (`Sealed::<VE>::get(self.as_str(), map)`)
        # whose own guard is established: the forwarded key is the own key, nothing else touches the map, the sibling's answer is returned
        def forwards(ty_, m_):
            bd = acc_body(ty_, m_)
            if bd.calls(pat='HeaderMap'):
                return None
            fw = [(bb, t) for bb, t in bd.calls(name=m_) if re.match(r'^<(.*) as metadata::map::as_metadata_key::Sealed<VE>>::%s$' % m_, t.get('resolved') or '')]
            if len(fw) != 1:
                return None
            bb, t = fw[0]
            tgt = re.match(r'^<(.*) as metadata::map::as_metadata_key::Sealed<VE>>::', t['resolved']).group(1)
            rt = mirlib.returned_terms(bd)
            same = len(rt) == 1 and is_call(strip_refs(rt[0][1]), name=m_) and t['resolved'] in show(rt[0][1])
            if tgt in ACC_TYS and tgt != ty_ and same and arg_root_through(bd.origin(t['args'][0])) == 1 and arg_root(strip_refs(bd.origin(t['args'][1]))) == 2:
                return tgt
            return None
        def arg_root_through(tm_):
            x = strip_refs(tm_)
            for _ in range(4):
                if is_call(x) and x[3] in ('as_str', 'as_ref', 'deref', 'borrow') and x[2]:
                    x = strip_refs(x[2][0])
            return arg_root(x)
        for ty in ACC_TYS:
            for m in KEYED:
                okv, how = direct[(ty, m)], 'map access guarded by VE::is_valid_key(self)'
                if not okv:
                    tgt = forwards(ty, m)
                    if tgt is not None and direct.get((tgt, m)):
                        okv, how = True, 'forwards its key to the guarded <%s as Sealed<VE>>::%s' % (tgt, m)
                R.check(okv, 'C08.R3', 'accessor:%s:%s' % (ty.split('::')[-1], m), site(acc_body(ty, m)), '%s: %r' % (how, okv))
        R.floor('C08.R3', 'string-keyed accessors', n_acc, 15)
        for nm in ('from_bytes', 'from_static'):
            bd = tonic.body('metadata::key::MetadataKey::<VE>::' + nm)
            R.saw(bd)
            vk = bd.calls(name='is_valid_key')
            R.check(len(vk) == 1 and 'VE' in (vk[0][1].get('self_ty') or ''), 'C08.R3', 'key-ctor:%s' % nm, site(bd), 'VE::is_valid_key checked in MetadataKey::%s' % nm)
        ins = tonic.body(re.compile(r"^<&'static str as metadata::map::into_metadata_key::Sealed<VE>>::insert$"))
        R.check(len(ins.calls(pat='MetadataKey::<VE>::from_static')) == 1, 'C08.R3', 'insert-static-key-validated', site(ins), 'insert(&\'static str) goes through MetadataKey::<VE>::from_static')
        bk = tonic.body(re.compile(r'<metadata::encoding::Binary as metadata::encoding::ValueEncoding>::is_valid_key$'))
        R.saw(bk)
        # the "-bin" suffix test; map lookups by &str are case-insensitive (http::HeaderMap normalises), so the test must be too
        bkf = family(tonic, bk)   # the test may sit in a closure (len.checked_sub(4).is_some_and(|start| key[start..].eq_ignore_ascii_case(..)))
        sfx = [const_value(tonic, m_.origin(a)) for m_ in bkf for bb, t in m_.calls() for a in t['args']]
        sfx += [v for m_ in bkf for bb in m_.live_blocks() for st in m_.blocks[bb]['stmts'] if 'rv' in st for v in [const_value(tonic, m_._origin_def(('stmt', bb, 0, st['rv']), 0, set()))]]
        has_sfx = any(x in ('-bin', b'-bin') for x in sfx)
        R.check(has_sfx, 'C08.R3', 'binary=suffix(-bin)', site(bk), 'Binary::is_valid_key tests the "-bin" suffix: constants seen %r' % [x for x in sfx if isinstance(x, (str, bytes))])
        ci = bool(fam_calls(bkf, name='eq_ignore_ascii_case')) or (bool(fam_calls(bkf, name='to_ascii_lowercase') or fam_calls(bkf, name='to_lowercase')) and bool(fam_calls(bkf, name='ends_with')))
        R.check(ci, 'C08.R3', 'binary-suffix-case-insensitive', site(bk),
                'the suffix test ignores ASCII case: %r (accepted: eq_ignore_ascii_case on the last 4 bytes, or lower-casing before ends_with). A case-sensitive test lets map.get("X-FOO-BIN") '
                'pass the Ascii key check while http::HeaderMap finds the binary entry "x-foo-bin", which is then presented as an ASCII value' % ci)
        ak = tonic.body(re.compile(r'<metadata::encoding::Ascii as metadata::encoding::ValueEncoding>::is_valid_key$'))
        rt = mirlib.returned_terms(ak)
        oka = len(rt) == 1 and rt[0][1][0] == 'un' and rt[0][1][1] == 'Not' and is_call(strip_refs(rt[0][1][2]), name='is_valid_key') and 'Binary' in (strip_refs(rt[0][1][2])[4].get('self_ty') or strip_refs(rt[0][1][2])[1])
        R.check(oka, 'C08.R3', 'ascii=!binary', site(ak), 'Ascii::is_valid_key = !Binary::is_valid_key: %s' % show(rt[0][1]))

    # ---------------------------------------------------------------- R4 type-parameter preservation
    R.describe('C08.R4', 'no method of an impl generic over VE: ValueEncoding (Entry, VacantEntry, OccupiedEntry, GetAll, ValueIter*, ValueDrain) mentions a concrete Ascii/Binary in its signature')
    with R.guard('C08.R4'):
        n = 0
        for path, sg in sorted(tonic.sigs.items()):
            if 'metadata::map' not in path:
                continue
            if not re.search(r"(Entry|VacantEntry|OccupiedEntry|GetAll|ValueIter|ValueIterMut|ValueDrain)(::)?<'?\w*,? ?VE>", path):
                continue
            n += 1
            txt = ' '.join(sg['inputs']) + ' -> ' + sg['output']
            bad = re.findall(r'metadata::encoding::(Ascii|Binary)', txt)
            R.check(not bad, 'C08.R4', 'sig:%s' % short(path), 'tonic/src/metadata/map.rs (%s)' % short(path),
                    'signature %s mentions the concrete encoding %r in an impl generic over VE '
                    '(map.entry_bin("k-bin") -> Vacant -> insert_entry(v) would hand out a binary entry typed as Ascii)' % (txt, bad))
        R.floor('C08.R4', 'generic entry-API signatures', n, 30)

    # ---------------------------------------------------------------- R6 merging keeps repeated values
    R.describe('C08.R6', 'MetadataMap::merge extends the header map with the other map as a whole (HeaderMap::extend understands the None-key continuation entries of into_iter); no code in tonic iterates an owned HeaderMap by hand')
    with R.guard('C08.R6'):
        mg = tonic.body('metadata::map::MetadataMap::merge')
        R.saw(mg)
        ex = mg.calls(name='extend')
        okm = len(ex) == 1 and field_names(mg.origin(ex[0][1]['args'][0]))[-1:] == ['headers'] and field_names(mg.origin(ex[0][1]['args'][1]))[-1:] == ['headers'] and 'arg2' in show(mg.origin(ex[0][1]['args'][1]))
        R.check(okm, 'C08.R6', 'merge=extend(headers)', site(mg), 'merge = self.headers.extend(other.headers): %r (a hand-written `for (key, value) in other.headers` loop sees key == None for the 2nd.. value of a repeated name and drops them)' % okm)
        offenders = []
        for bd in tonic.bodies:
            if bd.kind == 'promoted':
                continue
            for bb, t in bd.calls(name='into_iter'):
                st = (t.get('self_ty') or '') + ' ' + (t.get('resolved') or '')
                if re.search(r'(^|[ <])http::HeaderMap', st) and not st.strip().startswith('&'):
                    offenders.append('%s (%s)' % (short(bd.path), bd.loc(bb)))
        R.check(not offenders, 'C08.R6', 'no-owned-headermap-iteration', '', 'owned HeaderMap::into_iter sites in tonic (each would need to handle None keys): %r' % offenders)
        # trailers and header metadata are merged, not replaced (client unary path, server request trailers)
        users = sorted({short(bd.path) for bd, bb, t in call_sites_in_crate(tonic, pat='MetadataMap::merge')})
        R.floor('C08.R6', 'merge call sites', len(users), 2)

    # ---------------------------------------------------------------- R5 base64 for binary values
    R.describe('C08.R5', 'Binary values: written with the no-pad engine, read with the padding-indifferent STANDARD engine (engine definitions checked in C04.R3)')
    with R.guard('C08.R5'):
        fb = tonic.body(re.compile(r'<metadata::encoding::Binary as metadata::encoding::value_encoding::Sealed>::from_bytes$'))
        R.saw(fb)
        enc = fb.calls(name='encode')
        R.check(len(enc) == 1 and mentions_constdef(fb.origin(enc[0][1]['args'][0]), 'STANDARD_NO_PAD'), 'C08.R5', 'from_bytes:no-pad', site(fb), 'Binary::from_bytes encodes with %s' % (show(fb.origin(enc[0][1]['args'][0])) if enc else None))
        nd = 0
        for nm in ('decode', 'equals', 'values_equal'):
            bd = tonic.body(re.compile(r'<metadata::encoding::Binary as metadata::encoding::value_encoding::Sealed>::%s$' % nm))
            R.saw(bd)
            fam = [bd] + [c for c in tonic.children(bd) if c.kind == 'closure']
            for fbd in fam:
                for bb, t in fbd.calls(pat='base64::Engine::decode'):
                    nd += 1
                    e = fbd.origin(t['args'][0])
                    R.check((constdef(e) or '').endswith('base64::STANDARD'), 'C08.R5', '%s:indifferent-engine' % nm, site(fbd, bb), 'decode engine = %s' % show(e))
        R.floor('C08.R5', 'binary decode sites', nd, 2)
        ve = tonic.body(re.compile(r'<metadata::encoding::Binary as metadata::encoding::value_encoding::Sealed>::values_equal$'))
        R.check(len(ve.calls(name='decode')) == 2, 'C08.R5', 'values_equal-decodes-both', site(ve), 'Binary::values_equal compares decoded bytes (decode calls: %d)' % len(ve.calls(name='decode')))

    # ---------------------------------------------------------------- R8 metadata of statuses on their way out
    R.describe('C08.R8', 'the metadata of a status reaches the wire on every path: Status::to_header_map always goes through add_header (which extends the map with the whole metadata); a Status recovered from an error chain keeps its metadata')
    with R.guard('C08.R8'):
        th = tonic.body('status::Status::to_header_map')
        R.saw(th)
        ah = writer_entry_blocks(tonic, th)
        oka = len(ah) == 1 and all(th.must_pass(0, rb_, [ah[0]]) for rb_ in th.return_blocks()) and bool(th.return_blocks())
        R.check(oka, 'C08.R8', 'to_header_map-always-add_header', site(th), 'every path of to_header_map to a return passes through add_header (no fast path that emits grpc-status alone and forgets the trailing metadata): %r' % oka)
        ih = tonic.body('status::Status::into_http')
        ahi = ih.calls(name='add_header')
        R.check(len(ahi) == 1 and all(ih.must_pass(0, rb_, [ahi[0][0]]) for rb_ in ih.return_blocks()), 'C08.R8', 'into_http-always-add_header', site(ih), 'Status::into_http always writes the status with add_header')
        check_recovered_status(R, tonic, 'C08.R8', ('metadata',))

    # ---------------------------------------------------------------- R9 user-agent belongs to the channel
    R.describe('C08.R9', 'the channel overwrites user-agent with its own configured value on every request (one HeaderMap::insert of self.user_agent in front of the inner call): what an interceptor below Grpc put under that reserved name never reaches the wire; no other code of tonic writes user-agent')
    with R.guard('C08.R9'):
        ws = header_writes(tonic, {'user-agent'})
        ua = tonic.body(re.compile(r'<transport::channel::service::user_agent::UserAgent<T> as tower_service::Service<.*>>::call$'))
        R.saw(ua)
        mine = [(b, bb, t) for b, bb, t, k in ws if b is ua]
        others = [(b, bb, t) for b, bb, t, k in ws if b is not ua]
        for b, bb, t in others:
            R.bad('C08.R9', 'other-writer:%s' % short(b.path)[-60:], site(b, bb), '%s(user-agent) outside the UserAgent layer' % t.get('name'))
        R.check(len(mine) == 1 and mine[0][2].get('name') == 'insert', 'C08.R9', 'one-insert', site(ua), 'writes of user-agent in UserAgent::call: %r (wanted: one insert - append / entry keep what the request already carried)' % [t.get('name') for b, bb, t in mine])
        if len(mine) == 1 and mine[0][2].get('name') == 'insert':
            b, bb, t = mine[0]
            v = through_calls(b.origin(t['args'][2]), {'clone', 'deref', 'borrow', 'as_ref'})
            R.check(field_names(v)[-1:] == ['user_agent'] and not mentions_call(v, name='get'), 'C08.R9', 'value=self.user_agent', site(b, bb), 'value inserted = %s' % show(v)[:80])
            ic = [(cb, ct) for cb, ct in ua.calls(name='call') if cb != bb]
            R.check(len(ic) == 1 and ua.dominates(bb, ic[0][0]) and not [g for g in ua.edge_guards(bb)], 'C08.R9', 'insert-before-inner-call-unconditionally', site(b, bb),
                    'the insert dominates the inner call and has no condition in front of it')
        # the configured product goes in front of tonic's own; checked where the value is built
        un = tonic.body('transport::channel::service::user_agent::UserAgent::<T>::new')
        R.saw(un)

    # ---------------------------------------------------------------- R7 type-level witnesses (E4)
    R.describe('C08.R7', 'compile-fail witnesses against the public API: the typed accessors cannot hand a binary entry out as Ascii (or vice versa), '
                         'an Ascii value cannot be stored under insert_bin (or vice versa), the sanitiser bypass is not callable from outside tonic; each with a compiling twin')
    with R.guard('C08.R7', 'witness'):
        import witness
        U = ['use tonic::metadata::*;', 'let mut map = MetadataMap::new();']
        W = [
            dict(id='get_bin_typed', code='E0308', common=U, what='get_bin yields MetadataValue<Binary>',
                 fail=['let _v: Option<&MetadataValue<Ascii>> = map.get_bin("k-bin");'], twin=['let _v: Option<&MetadataValue<Binary>> = map.get_bin("k-bin");']),
            dict(id='get_typed', code='E0308', common=U, what='get yields MetadataValue<Ascii>',
                 fail=['let _v: Option<&MetadataValue<Binary>> = map.get("k");'], twin=['let _v: Option<&MetadataValue<Ascii>> = map.get("k");']),
            dict(id='insert_bin_rejects_ascii_value', code='E0308', common=U, what='insert_bin takes MetadataValue<Binary>',
                 fail=['map.insert_bin("k-bin", MetadataValue::<Ascii>::from_static("v"));'], twin=['map.insert_bin("k-bin", MetadataValue::<Binary>::from_bytes(b"v"));']),
            dict(id='insert_rejects_binary_value', code='E0308', common=U, what='insert takes MetadataValue<Ascii>',
                 fail=['map.insert("k", MetadataValue::<Binary>::from_bytes(b"v"));'], twin=['map.insert("k", MetadataValue::<Ascii>::from_static("v"));']),
            dict(id='append_bin_rejects_ascii_value', code='E0308', common=U, what='append_bin takes MetadataValue<Binary>',
                 fail=['map.append_bin("k-bin", MetadataValue::<Ascii>::from_static("v"));'], twin=['map.append_bin("k-bin", MetadataValue::<Binary>::from_bytes(b"v"));']),
            dict(id='insert_bin_rejects_ascii_key', code='E0277', common=U, what='insert_bin takes a key convertible to MetadataKey<Binary>',
                 fail=['let k: MetadataKey<Ascii> = MetadataKey::from_static("k");', 'map.insert_bin(k, MetadataValue::<Binary>::from_bytes(b"v"));'],
                 twin=['let k: MetadataKey<Binary> = MetadataKey::from_static("k-bin");', 'map.insert_bin(k, MetadataValue::<Binary>::from_bytes(b"v"));']),
            dict(id='iter_ascii_arm_typed', code='E0308', common=U, what='KeyAndValueRef::Ascii carries Ascii key and value',
                 fail=['for kv in map.iter() { if let KeyAndValueRef::Ascii(_k, v) = kv { let _v: &MetadataValue<Binary> = v; } }'],
                 twin=['for kv in map.iter() { if let KeyAndValueRef::Ascii(_k, v) = kv { let _v: &MetadataValue<Ascii> = v; } }']),
            dict(id='iter_binary_arm_typed', code='E0308', common=U, what='KeyAndValueRef::Binary carries Binary key and value',
                 fail=['for kv in map.iter() { if let KeyAndValueRef::Binary(k, _v) = kv { let _k: &MetadataKey<Ascii> = k; } }'],
                 twin=['for kv in map.iter() { if let KeyAndValueRef::Binary(k, _v) = kv { let _k: &MetadataKey<Binary> = k; } }']),
            dict(id='get_all_bin_typed', code='E0308', common=U, what='get_all_bin iterates MetadataValue<Binary>',
                 fail=['for v in map.get_all_bin("k-bin").iter() { let _v: &MetadataValue<Ascii> = v; }'], twin=['for v in map.get_all_bin("k-bin").iter() { let _v: &MetadataValue<Binary> = v; }']),
            dict(id='remove_bin_typed', code='E0308', common=U, what='remove_bin returns MetadataValue<Binary>',
                 fail=['let _v: Option<MetadataValue<Ascii>> = map.remove_bin("k-bin");'], twin=['let _v: Option<MetadataValue<Binary>> = map.remove_bin("k-bin");']),
            dict(id='entry_bin_typed', code='E0308', common=U, what='entry_bin yields Entry<Binary>',
                 fail=['let _e: Entry<\'_, Ascii> = map.entry_bin("k-bin").unwrap();'], twin=['let _e: Entry<\'_, Binary> = map.entry_bin("k-bin").unwrap();']),
            dict(id='vacant_insert_entry_keeps_encoding', code='E0308', common=U, what='VacantEntry<Binary>::insert_entry returns OccupiedEntry<Binary> (defect F9)',
                 fail=['if let Entry::Vacant(v) = map.entry_bin("k-bin").unwrap() { let _o: OccupiedEntry<\'_, Ascii> = v.insert_entry(MetadataValue::from_bytes(b"v")); }'],
                 twin=['if let Entry::Vacant(v) = map.entry_bin("k-bin").unwrap() { let _o: OccupiedEntry<\'_, Binary> = v.insert_entry(MetadataValue::from_bytes(b"v")); }']),
            dict(id='entry_or_insert_typed', code='E0308', common=U, what='Entry<Binary>::or_insert takes and yields MetadataValue<Binary>',
                 fail=['let _v: &mut MetadataValue<Binary> = map.entry_bin("k-bin").unwrap().or_insert(MetadataValue::<Ascii>::from_static("v"));'],
                 twin=['let _v: &mut MetadataValue<Binary> = map.entry_bin("k-bin").unwrap().or_insert(MetadataValue::<Binary>::from_bytes(b"v"));']),
            dict(id='sanitiser_not_public', code='E0624', common=U, what='into_sanitized_headers (and with it the choice not to sanitise) is crate-private',
                 fail=['let _h: http::HeaderMap = map.into_sanitized_headers();'], twin=['let _h: http::HeaderMap = map.into_headers();']),
            dict(id='binary_value_has_no_to_str', code='E0599', common=U, what='a binary value offers no to_str()',
                 fail=['let v = MetadataValue::<Binary>::from_bytes(b"v");', 'let _ = v.to_str();'], twin=['let v = MetadataValue::<Binary>::from_bytes(b"v");', 'let _ = v.to_bytes();']),
        ]
        n = witness.run_witnesses(R, 'C08.R7', W)
        R.floor('C08.R7', 'witness programs type-checked', n, 2 * len(W))
