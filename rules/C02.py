"""C02 — the client observes exactly what the server produced (status-propagation discipline inside tonic)."""
import re
from common import *
import mirlib
from mirlib import unawait

META = {
    'explanation': 'For the four server handlers, every value written to the return slot must originate from map_response or '
                   'Status::into_http, the handler result must flow into map_response and request-mapping errors into the response; '
                   'the encoder outcome table (item Ok/Err x role) and the client end-of-stream gate, trailers accumulation, unary '
                   'collection path, create_response and the request-side constructors are decided by operand origins, decision rows '
                   'and edge guards.',
    'exhaustive': True,
    'assumptions': ['hyper/h2 deliver frames and trailers unchanged'],
}

HANDLERS = ('unary', 'server_streaming', 'client_streaming', 'streaming')


def check_poll_frame_outcomes(R, tonic, rule):
    """the two outcomes of StreamingInner::poll_frame: "more data buffered" for every data frame, "stop reading" only for a trailers
    frame / the end of the body: after the trailers the body is not polled again (a transport error arriving behind the trailers
    would replace the status they carried), and a data frame never ends the stream"""
    pfr = tonic.body('decode::StreamingInner::poll_frame')
    R.saw(pfr)
    # outcome table of poll_frame: Ok(Some(())) = "data arrived, run the decoder again", Ok(None) = "the body is over": a data frame
    # (empty or not) is never reported as the end of the body
    def last_guard(bb_):
        g = pfr.edge_guards(bb_)
        if not g:
            return ('none', None)
        s_, vals, tm = g[-1]
        truth = not (vals == [0])
        c = strip_refs(tm)
        if tm[0] == 'discr':
            inner = strip_refs(tm[1])
            nm = inner[3] if is_call(inner) and len(inner) > 3 and isinstance(inner[3], str) else ('poll' if term_contains(tm, lambda x: is_call(x, name='poll_frame')) else show(tm)[:30])
            return ('discr:%s' % (inner[1].split('::')[-1] if is_call(inner) else nm), vals)
        if is_call(c):
            return (c[1].split('::')[-1], truth)
        return (show(tm)[:30], vals)
    # the two outcomes may be spelled Some(())/None or as the variants of a private two-valued enum: call the one produced for a data
    # frame CONTINUE; every other constant outcome is STOP
    def token(v_):
        v_ = strip_refs(v_)
        if v_[0] == 'agg' and v_[1].get('variant'):
            return v_[1]['variant']
        return None
    oks = [(bb_, i_, pfr.origin(ops_[0])) for bb_, i_, p_, a_, ops_ in mirlib.aggregates(pfr, 'result::Result', 'Ok')]
    data_tokens = {token(v) for bb_, i_, v in oks if last_guard(bb_) in (('is_data', True), ('discr:into_data', [0]))}
    CONT = list(data_tokens)[0] if len(data_tokens) == 1 and None not in data_tokens else None
    nsome = 0
    for bb_, i_, v in oks:
        lg = last_guard(bb_)
        tk_ = token(v)
        if tk_ is None or CONT is None:
            R.bad(rule, 'poll_frame-outcome-unrecognised', site(pfr, bb_, i_), 'Ok(%s): not one of two constant outcomes — a data frame could be reported as the end of the body' % show(v)[:80], kind='UNRECOGNISED')
        elif tk_ == CONT:
            nsome += 1
            R.check(lg in (('is_data', True), ('discr:into_data', [0])), rule, 'data-frame->continue', site(pfr, bb_, i_), 'the "more data buffered" outcome (%s) is produced for every data frame (decided by %r alone)' % (CONT, lg))
        else:
            R.check(lg in (('is_trailers', True), ('has_remaining', False), ('is_empty', True), ('eq', True), ('discr:into_trailers', [0])), rule, 'end-of-body-only-when:%s' % lg[0], site(pfr, bb_, i_),
                    'the "stop reading" outcome (%s) only for a trailers frame, the end of the body with an empty buffer, or a cancelled request: decided by %r' % (tk_, lg))
    R.check(nsome >= 1, rule, 'data-frame->continue:exists', site(pfr), '"more data buffered" outcomes: %d' % nsome)



def run(R):
    tonic = R.crate('tonic')

    # ---------------------------------------------------------------- R1 server error discipline
    R.describe('C02.R1', 'server handlers: every returned http::Response comes from map_response(..) or Status::into_http(status of the request mapper); the handler result flows into map_response argument 1')
    with R.guard('C02.R1'):
        shapes = {}
        for h in HANDLERS:
            co = tonic.body('server::grpc::Grpc::<T>::%s::{closure#0}' % h)
            R.saw(co)
            rets = mirlib.returned_terms(co)
            R.floor('C02.R1', 'return-slot writers in %s' % h, len(rets), 2)
            kinds = []
            for bb, t in rets:
                t = strip_refs(t)
                if is_call(t, pat='Grpc::<T>::map_response'):
                    resp = t[2][1]
                    if term_contains(resp, lambda x: is_call(x, pat='Service::call')):
                        # the awaited result of the service call (possibly mapped)
                        fut = term_contains(resp, lambda x: is_call(x, name='poll'))
                        kinds.append('handler-result')
                        R.check(fut, 'C02.R1', '%s:handler-result-awaited' % h, site(co, bb), 'map_response(response = %s)' % show(resp)[:120])
                    elif term_contains(resp, lambda x: x and x[0] == 'agg' and x[1].get('variant') == 'Err') and term_contains(resp, lambda x: is_call(x, name='map_request_unary') or is_call(x, name='map_request_streaming')):
                        kinds.append('mapper-error')
                        R.ok('C02.R1', '%s:mapper-error->map_response' % h, site(co, bb), 'Err(status of the request mapper) is passed to map_response')
                    else:
                        kinds.append('?')
                        R.bad('C02.R1', '%s:map_response-arg' % h, site(co, bb), 'map_response first argument = %s' % show(resp)[:200])
                elif is_call(t, pat='Status::into_http'):
                    st = t[2][0]
                    okm = term_contains(st, lambda x: x and x[0] == 'variant' and x[2] == 'Err') and term_contains(st, lambda x: is_call(x, name='map_request_unary') or is_call(x, name='map_request_streaming'))
                    kinds.append('mapper-error')
                    R.check(okm, 'C02.R1', '%s:mapper-error->into_http' % h, site(co, bb), 'Status::into_http(%s)' % show(st)[:120])
                else:
                    kinds.append('?')
                    R.bad('C02.R1', '%s:return-origin' % h, site(co, bb), 'response returned from %s does not come from map_response / Status::into_http: %s' % (h, show(t)[:200]))
            R.check('handler-result' in kinds and 'mapper-error' in kinds, 'C02.R1', '%s:both-outcomes' % h, site(co), 'return kinds: %r' % kinds)
            # the mapper is called with the incoming request, the service with the mapped request
            sc = co.calls(pat='Service::call')
            R.check(len(sc) == 1, 'C02.R1', '%s:service-called-once' % h, site(co), 'service call sites: %d' % len(sc))
            for bb, t in sc:
                a = co.origin(t['args'][1])
                R.check(term_contains(a, lambda x: is_call(x, name='map_request_unary') or is_call(x, name='map_request_streaming')), 'C02.R1', '%s:service-gets-mapped-request' % h, site(co, bb), 'request = %s' % show(a)[:120])
                g = co.edge_guards(bb)
                R.check(any(term_contains(tm, lambda x: is_call(x, name='map_request_unary') or is_call(x, name='map_request_streaming')) and vals == [0] for s, vals, tm in g), 'C02.R1', '%s:service-only-on-ok' % h, site(co, bb),
                        'service call guarded by the mapper result being Ok')

    # ---------------------------------------------------------------- R2 map_response
    R.describe('C02.R2', 'map_response: Err(status) -> status.into_http(); Ok(r) -> r.into_http() parts + body handed unchanged to EncodeBody::new_server')
    with R.guard('C02.R2'):
        mr = tonic.body('server::grpc::Grpc::<T>::map_response')
        R.saw(mr)
        rets = mirlib.returned_terms(mr)
        seen = set()
        for bb, t in rets:
            t = strip_refs(t)
            if is_call(t, pat='Status::into_http'):
                seen.add('err')
                okv = term_contains(t[2][0], lambda x: x and x[0] == 'variant' and x[2] == 'Err') and 'arg2' in show(t[2][0])
                R.check(okv, 'C02.R2', 'err->into_http', site(mr, bb), 'Status::into_http(%s)' % show(t[2][0]))
            elif is_call(t, name='from_parts'):
                seen.add('ok')
                parts, body = t[2][0], t[2][1]
                R.check(term_contains(parts, lambda x: is_call(x, pat='Response::<T>::into_http')) and term_contains(parts, lambda x: x and x[0] == 'variant' and x[2] == 'Ok'), 'C02.R2', 'ok->parts', site(mr, bb), 'parts = %s' % show(parts)[:140])
                nb = [x for x in find_terms(body, lambda x: is_call(x, name='new_server'))]
                okb = bool(nb) and term_contains(nb[0][2][1], lambda x: is_call(x, name='into_parts'))
                R.check(okb, 'C02.R2', 'ok->body-encoded', site(mr, bb), 'body = %s' % show(body)[:160])
            else:
                R.bad('C02.R2', 'return-origin', site(mr, bb), 'map_response returns %s' % show(t)[:160])
        R.eq(sorted(seen), ['err', 'ok'], 'C02.R2', 'both-arms', site(mr), 'arms of map_response')

    # ---------------------------------------------------------------- R3 encoder outcome table
    R.describe('C02.R3', 'EncodeBody::poll_frame: Ok(bytes) -> Frame::data(those bytes); (Err, Client) -> Err(same status); (Err, Server) -> trailers(to_header_map(same status)); end of source -> EncodeState::trailers()')
    with R.guard('C02.R3'):
        pf, rows = encode_body_rows(tonic)
        R.saw(pf)
        R.note('EncodeBody::poll_frame outcome table: %r' % [{k: r[k] for k in ('ended', 'poll', 'item', 'res', 'role', 'kind')} for r in rows])
        err_payload = lambda t: term_contains(t, lambda x: x and x[0] == 'variant' and x[2] == 'Err' and term_contains(x, lambda y: is_call(y, name='poll_next')))
        ok_payload = lambda t: term_contains(t, lambda x: x and x[0] == 'variant' and x[2] == 'Ok' and term_contains(x, lambda y: is_call(y, name='poll_next')))
        got = {}
        inline_end = end_of_source_rows(tonic, pf, rows)[0] is None
        if inline_end:
            # EncodeState::trailers() no longer exists as a method: its decision table must then hold on poll_frame's own paths
            check_end_of_source(R, 'C02.R3', tonic, pf, rows)
        for r in rows:
            st = site(pf, r['path'][-1])
            if r['res'] == 'Ok':
                okd = r['kind'] == 'data' and ok_payload(r['value'])
                got['data'] = got.get('data', True) and okd
                R.check(okd, 'C02.R3', 'ok->data', st, 'an Ok(bytes) item becomes Frame::data(those bytes): outcome %s' % r['kind'])
            elif r['res'] == 'Err' and r['role'] == 'Client':
                oke = r['kind'] == 'err' and err_payload(r['value']) and not has_fn(r['value'], 'to_header_map')
                got['client-err'] = got.get('client-err', True) and oke
                R.check(oke, 'C02.R3', 'err-client->err', st, 'client role: Err(status) item -> Err(that status): outcome %s' % r['kind'])
            elif r['res'] == 'Err' and r['role'] == 'Server':
                if r['kind'] == 'trailers':
                    okt = term_contains(r['value'], lambda x: is_call(x, name='to_header_map') and err_payload(x))
                    got['server-err'] = got.get('server-err', True) and okt
                    R.check(okt, 'C02.R3', 'err-server->trailers', st, 'server role: Err(status) item -> trailers(to_header_map(that status)): %r' % okt)
                else:
                    # only the failure of to_header_map itself may surface as an error
                    okx = r['kind'] == 'err' and has_fn(r['value'], 'to_header_map')
                    R.check(okx, 'C02.R3', 'err-server->trailers:encoding-failure', st, 'server role, non-trailers outcome %s is the failure of to_header_map: %r' % (r['kind'], okx))
            elif r['res'] == 'Err':
                R.bad('C02.R3', 'err-role-undecided', st, 'an Err item is turned into %s without looking at the role' % r['kind'])
            elif r['item'] == 'None':
                oks = r['kind'] == 'state-trailers' or (inline_end and r['kind'] in ('trailers', 'none'))
                got['end'] = got.get('end', True) and oks
                R.check(oks, 'C02.R3', 'none->state.trailers()', st, 'end of the source -> EncodeState::trailers() (or its decision table inline): outcome %s' % r['kind'])
        for k in ('data', 'client-err', 'server-err', 'end'):
            R.check(got.get(k) is not None, 'C02.R3', 'row-present:%s' % k, site(pf), 'outcome row %s recognised: %r' % (k, got.get(k)))

        # the message source is fused: poll_next polls it again after it ended (to flush buffered frames)
        eb = tonic.body('codec::encode::EncodedBytes::<T, U>::new')
        R.saw(eb)
        for bb, i, p, a, ops in mirlib.aggregates(eb, 'encode::EncodedBytes'):
            srcv = eb.origin(ops[a['fields'].index('source')])
            okf = is_call(strip_refs(srcv), name='fuse') and show(strip_refs(srcv)[2][0]).startswith('arg2')
            R.check(okf, 'C02.R3', 'source-fused', site(eb, bb, i),
                    'EncodedBytes.source = source.fuse(): %r — EncodedBytes::poll_next re-polls the source after Ready(None) when it first flushes buffered frames; an unfused user stream may then panic or misbehave (outcome lost)' % okf)
        sadt = tonic.adt('codec::encode::EncodedBytes')
        sty = [f['ty'] for f in sadt['variants'][0]['fields'] if f['n'] == 'source']
        R.check(bool(sty) and 'Fuse<' in sty[0], 'C02.R3', 'source-field-type', 'tonic/src/codec/encode.rs (struct EncodedBytes)', 'field source: %s' % (sty[0] if sty else None))

        # the stream ends at its first error: a parked status is replayed before the source is polled again
        check_stash_replay_first(R, tonic, 'C02.R3')

    # ---------------------------------------------------------------- R8 status metadata written whole
    R.describe('C02.R8', 'an error status is written with all of its metadata: add_header extends the header map with the whole (sanitised) metadata map, never entry-by-entry insert (which keeps only the last of repeated values)')
    with R.guard('C02.R8'):
        ah = tonic.body('status::Status::add_header')
        R.saw(ah)
        ext = ah.calls(name='extend')
        okx = len(ext) == 1 and is_call(ah.origin(ext[0][1]['args'][1]), name='into_sanitized_headers') and mentions_field(ah.origin(ext[0][1]['args'][1]), 'metadata')
        R.check(okx, 'C02.R8', 'metadata-extended-whole', site(ah), 'header_map.extend(self.metadata.clone().into_sanitized_headers()): %r' % okx)
        ins = ah.calls(pat='HeaderMap', name='insert')
        inloop = [bb for bb, t in ins if bb in ah.reachable(ah.succs(bb)[0])] if ins else []
        R.check(not inloop, 'C02.R8', 'no-per-entry-insert-loop', site(ah, inloop[0]) if inloop else site(ah), 'HeaderMap::insert inside a loop: %d site(s)' % len(inloop))

    # ---------------------------------------------------------------- R4 client end-of-stream gate
    R.describe('C02.R4', 'client: the stream ends cleanly only if StreamingInner::response() is Ok; response() consults infer_grpc_status(self.trailers, http status) for responses; trailers frames accumulate')
    with R.guard('C02.R4'):
        pn = tonic.body(re.compile(r'codec::decode::Streaming<T> as .*Stream>::poll_next$'))
        R.saw(pn)
        # the end-of-stream status function, by role: the StreamingInner method that consults infer_grpc_status (today: response())
        role = [bd for bd in tonic.bodies if bd.kind != 'promoted' and 'decode::StreamingInner' in bd.path and bd.calls(name='infer_grpc_status')]
        R.check(len(role) == 1, 'C02.R4', 'one-final-status-fn', '', 'StreamingInner methods calling infer_grpc_status: %r' % [b_.path for b_ in role])
        rs = role[0]
        R.saw(rs)
        rname = rs.path.split('::')[-1]
        # its failing outcome = the returned variant whose payload comes from infer_grpc_status (Err(e) today); every other outcome is "fine"
        rets = [(bb, i, a, ops) for bb, i, p, a, ops in mirlib.aggregates(rs) if p['l'] == 0 and not p.get('pr') and a.get('variant')]
        errs = [(bb, i, a, ops) for bb, i, a, ops in rets if ops and term_contains(rs.origin(ops[0]), lambda x: is_call(x, name='infer_grpc_status'))]
        R.check(len(errs) == 1, 'C02.R4', 'infer-error-returned', site(rs), 'the error of infer_grpc_status (Err(Some(e))) is returned as the failing outcome: %r' % [a.get('variant') for bb, i, a, ops in errs])
        err_idx = errs[0][2].get('vi')
        R.check(err_idx is not None, 'C02.R4', 'infer-error-returned:variant', site(rs), 'failing outcome variant index %r' % err_idx)
        def fine_guard(gs):
            for s_, vals, tm in gs:
                if not (tm and tm[0] == 'discr' and term_contains(tm, lambda x: is_call(x, name=rname))):
                    continue
                if vals == ['else']:
                    explicit = [v for vs_ in pn.switch_edges(s_).values() for v in vs_ if v != 'else']
                    if err_idx in explicit:
                        return True
                elif err_idx not in vals:
                    return True
            return False
        n = 0
        for bb in writers_of(pn, 0):
            for w in block_writes(pn, bb, 0):
                if w[0] == 'variant' and w[2] == 'Ready' and strip_refs(w[3][0])[0] == 'agg' and strip_refs(w[3][0])[1].get('variant') == 'None':
                    n += 1
                    okg = fine_guard(pn.edge_guards(bb))
                    R.check(okg, 'C02.R4', 'clean-end-gated', site(pn, bb), 'Ready(None) only where %s() did not report a status: %r' % (rname, okg))
        R.floor('C02.R4', 'clean-end sites', n, 1)
        # the error of response() is reported (stored then replayed)
        st = [(bb, i) for bb, i, s in mirlib.assignments(pn, lambda s: mirlib.place_fields(s['p'])[-1:] == ['state'])]
        okr = False
        for bb, i in st:
            v = pn._origin_def(('stmt', bb, i, pn.blocks[bb]['stmts'][i]['rv']), 0, set())
            if term_contains(v, lambda x: is_call(x, name=rname)) and term_contains(v, lambda x: x and x[0] == 'agg' and x[1].get('variant') == 'Some'):
                okr = True
        R.check(okr, 'C02.R4', 'response-error-stored', site(pn), 'the status reported by %s() is stored as State::Error(Some(e)) for the next iteration' % rname)
        ib, it = rs.call1(name='infer_grpc_status')
        # for a response, the "fine" outcome is only ever what infer_grpc_status said: every path of a Direction::Response call to a
        # return passes through the consultation (a shortcut such as `trailers.is_none() && http.is_success() => Ok` turns a 204
        # without grpc-status into a clean end)
        meta_r = {}
        byp = []
        for cons_, path_ in mirlib.path_rows(rs, meta=meta_r, relevant=lambda sub_: sub_.startswith('discr(') and sub_.rstrip(')').endswith('.direction')):
            vw_ = cons_view(cons_, meta_r)
            is_resp = any(v_ == 'Response' for k_, v_ in vw_.items())
            if is_resp and ib not in path_:
                byp.append(path_[-1])
        R.check(not byp, 'C02.R4', 'response-always-consults-infer', site(rs, byp[0]) if byp else site(rs, ib), 'every Direction::Response path of %s() goes through infer_grpc_status: %d path(s) bypass it' % (rname, len(byp)))
        a0, a1 = rs.origin(it['args'][0]), rs.origin(it['args'][1])
        R.check(mentions_field(a0, 'trailers') and is_call(strip_refs(a0), name='as_ref'), 'C02.R4', 'infer-from-trailers', site(rs, ib), 'trailers argument = %s' % show(a0))
        R.check(term_contains(a1, lambda x: x and x[0] == 'variant' and x[2] == 'Response') and mentions_field(a1, 'direction'), 'C02.R4', 'infer-with-http-status', site(rs, ib), 'status argument = %s' % show(a1))
        pfr = tonic.body('decode::StreamingInner::poll_frame')
        R.saw(pfr)
        # whatever poll_frame reports comes from polling the body in this very call: `is_end_stream()` of a wrapping body (the grpc-web
        # client adapter) may be true while it still holds trailers it has not handed out
        bp = [(bb_, t_) for bb_, t_ in pfr.calls(name='poll_frame') if 'Body' in (t_.get('fn') or '') and mentions_field(pfr.origin(t_['args'][0]), 'body')]
        readyw = [bb_ for bb_ in writers_of(pfr, 0) if any(w_[0] == 'variant' and w_[2] == 'Ready' for w_ in block_writes(pfr, bb_, 0))]
        okbp = len(bp) == 1 and bool(readyw) and all(pfr.dominates(bp[0][0], bb_) for bb_ in readyw)
        R.check(okbp, 'C02.R4', 'body-polled-before-any-outcome', site(pfr, bp[0][0]) if bp else site(pfr), 'the body is polled before any Ready(..) outcome is produced: %r (%d outcome sites)' % (okbp, len(readyw)))
        R.check(not pfr.calls(name='is_end_stream'), 'C02.R4', 'no-is_end_stream-shortcut', site(pfr), 'poll_frame does not decide the end of the body from Body::is_end_stream()')
        ex = pfr.calls(name='extend')
        R.check(len(ex) == 1 and mentions_call(pfr.origin(ex[0][1]['args'][1]), name='into_trailers'), 'C02.R4', 'trailers-accumulate', site(pfr), 'a second trailers frame extends the first (extend sites: %d)' % len(ex))
        wr = [(bb, i) for bb, i, s in mirlib.assignments(pfr, lambda s: mirlib.place_fields(s['p'])[-1:] == ['trailers'])]
        for bb, i in wr:
            g = pfr.edge_guards(bb)
            R.check(any('trailers' in show(tm) and show(tm).startswith('discr(') and vals in ([0], ['else']) for s, vals, tm in g), 'C02.R4', 'trailers-set-only-when-none', site(pfr, bb, i), 'self.trailers assigned only when it was None')
        pt = pfr.calls(name='put')
        R.check(len(pt) == 1 and mentions_field(pfr.origin(pt[0][1]['args'][0]), decode_buf_fields(tonic)[0]) and mentions_call(pfr.origin(pt[0][1]['args'][1]), name='into_data'), 'C02.R4', 'data-appended', site(pfr), 'data frames are appended to buf')

        check_poll_frame_outcomes(R, tonic, 'C02.R4')

    with R.guard('C02.R4', 'status-writer'):
        import C04
        C04.check_status_writer(R, tonic, 'C02.R4')

    # ---------------------------------------------------------------- R5 client unary path
    R.describe('C02.R5', 'client_streaming (unary collection): a stream error is returned with the header metadata merged; no message -> INTERNAL; trailers merged into the metadata before the response is built')
    with R.guard('C02.R5'):
        cs = tonic.body('client::grpc::Grpc::<T>::client_streaming::{closure#0}')
        R.saw(cs)
        tn = cs.calls(name='try_next')
        R.check(len(tn) == 1, 'C02.R5', 'try_next', site(cs), 'try_next sites: %d' % len(tn))
        me = cs.calls(name='map_err')
        okm = False
        for bb, t in me:
            clo = strip_refs(cs.origin(t['args'][1]))
            if clo[0] == 'agg' and 'def' in clo[1]:
                cb = tonic.body(clo[1]['def'])
                R.saw(cb)
                mg = cb.calls(name='merge')
                rets = mirlib.returned_terms(cb)
                okm = len(mg) == 1 and mentions_call(cb.origin(mg[0][1]['args'][0]), name='metadata_mut') and all(t_[0] == 'arg' for _, t_ in rets)
                R.check(okm, 'C02.R5', 'stream-error-keeps-status+merges-headers', site(cb), 'map_err closure merges header metadata into the status and returns that status')
        if not okm:
            # spelled as a match: Err(mut status) => { status.metadata_mut().merge(parts); return Err(status) }
            from_try_next_err = lambda t_: term_contains(t_, lambda x: x and x[0] == 'variant' and x[2] == 'Err' and term_contains(x, lambda y: is_call(y, name='try_next') or y == ('yield',) or (y and y[0] == 'yield')))
            for mb_, mt_ in cs.calls(name='merge'):
                recv = cs.origin(mt_['args'][0])
                if not (mentions_call(recv, name='metadata_mut') and from_try_next_err(recv)):
                    continue
                rets = [(bb_, i_) for bb_, i_, p_, a_, ops_ in mirlib.aggregates(cs, 'result::Result', 'Err') if from_try_next_err(cs.origin(ops_[0])) and cs.dominates(mb_, bb_)]
                okm = bool(rets)
                R.check(okm, 'C02.R5', 'stream-error-keeps-status+merges-headers', site(cs, mb_), 'the Err arm of try_next merges the header metadata into the status and returns that status: %r' % okm)
        R.check(okm, 'C02.R5', 'stream-error-path', site(cs), 'error of try_next is returned with the header metadata merged')
        ok_or = cs.calls(name='ok_or_else')
        okn = False
        for bb, t in ok_or:
            clo = strip_refs(cs.origin(t['args'][1]))
            if clo[0] == 'agg' and 'def' in clo[1]:
                cb = tonic.body(clo[1]['def'])
                okn = len(cb.calls(pat='Status::internal')) == 1
        if not okn:
            for bb_, i_, p_, a_, ops_ in mirlib.aggregates(cs, 'result::Result', 'Err'):
                if is_call(strip_refs(cs.origin(ops_[0])), pat='Status::internal'):
                    g_ = cs.edge_guards(bb_)
                    if any(tm[0] == 'discr' and term_contains(tm, lambda x: x and x[0] == 'variant' and x[2] == 'Ok') and vals == [0] for s_, vals, tm in g_):
                        okn = True
        R.check(okn, 'C02.R5', 'no-message->internal', site(cs), 'None from try_next -> Status::internal')
        tr = cs.calls(name='trailers')
        mg = cs.calls(name='merge')
        mg = [(bb_, t_) for bb_, t_ in mg if term_contains(cs.origin(t_['args'][1]), lambda x: is_call(x, name='trailers') or (x and x[0] == 'yield')) and not mentions_call(cs.origin(t_['args'][0]), name='metadata_mut')]
        R.check(len(tr) == 1 and len(mg) == 1, 'C02.R5', 'trailers-merged', site(cs), 'trailers() sites %d, merges of the trailers into the header metadata %d' % (len(tr), len(mg)))
        fp = cs.calls(name='from_parts')
        R.check(len(fp) == 1 and mg and cs.dominates(tr[0][0], fp[0][0]), 'C02.R5', 'trailers-before-response', site(cs), 'trailers are awaited before Response::from_parts')
        un = tonic.body('client::grpc::Grpc::<T>::unary::{closure#0}')
        R.check(len(un.calls(name='client_streaming')) == 1, 'C02.R5', 'unary-via-client_streaming', site(un), 'unary delegates to client_streaming')
        ss = tonic.body('client::grpc::Grpc::<T>::server_streaming::{closure#0}')
        R.check(len(ss.calls(name='streaming')) == 1, 'C02.R5', 'server_streaming-via-streaming', site(ss), 'server_streaming delegates to streaming')

    # ---------------------------------------------------------------- R6 create_response
    R.describe('C02.R6', 'create_response: a non-OK grpc-status in the headers is returned as Err(that status); OK -> Streaming::new_empty; absent -> Streaming::new_response(http status, encoding, limit)')
    with R.guard('C02.R6'):
        cr = tonic.body('client::grpc::Grpc::<T>::create_response')
        R.saw(cr)
        fm = cr.calls(pat='Status::from_header_map')
        R.check(len(fm) == 1 and mentions_call(cr.origin(fm[0][1]['args'][0]), name='headers'), 'C02.R6', 'trailers-only-status-read', site(cr), 'Status::from_header_map(response.headers())')
        check_trailers_only_read(R, tonic, 'C02.R6')
        # Err(..) written to the return place, or built by a (spliced) classifying helper and handed on with `?`
        def reaches_return(l_, depth=0):
            if l_ == 0 or any(t_.get('name') == 'branch' and any((a_.get('mv') or a_.get('cp') or {}).get('l') == l_ for a_ in t_['args']) for bb_, t_ in cr.calls(name='branch')):
                return True
            if depth > 3:
                return False
            # moved on (the return slot of a spliced helper is moved into the caller's local)
            for bb_ in cr.live_blocks():
                for st_ in cr.blocks[bb_]['stmts']:
                    u_ = (st_.get('rv') or {}).get('use') if isinstance(st_.get('rv'), dict) else None
                    src_ = (u_.get('mv') or u_.get('cp')) if isinstance(u_, dict) else None
                    if src_ and src_.get('l') == l_ and not src_.get('pr') and st_.get('p') and not st_['p'].get('pr') and reaches_return(st_['p']['l'], depth + 1):
                        return True
            return False
        errs = [(bb, i, ops) for bb, i, p, a, ops in mirlib.aggregates(cr, 'result::Result', 'Err') if reaches_return(p['l'])]
        oke = [x for x in errs if term_contains(cr.origin(x[2][0]), lambda y: is_call(y, pat='Status::from_header_map'))]
        R.check(len(oke) == 1, 'C02.R6', 'non-ok-status-returned', site(cr), 'Err(status from headers) returns: %d' % len(oke))
        for bb, i, ops in oke:
            g = cr.edge_guards(bb)
            okg = any(is_call(strip_refs(tm), name='ne') and term_contains(tm, lambda y: is_call(y, name='code')) and (vals == ['else'] or 0 not in vals) for s, vals, tm in g)
            R.check(okg, 'C02.R6', 'returned-iff-code!=Ok', site(cr, bb, i), 'guards: %r' % [(v, show(tm)[:60]) for s, v, tm in g])
        clos = [c for c in tonic.children(cr) if c.kind == 'closure']
        ne, nr = [], []
        def ctor_direction(name, depth=0):
            """which Direction the Streaming constructor `name` finally hands to Streaming::new"""
            cands = [x for x in tonic.bodies if x.kind == 'fn' and x.path.endswith('codec::decode::Streaming::<T>::' + name)]
            if not cands or depth > 4:
                return None
            for bb_, t_ in cands[0].calls(pat='codec::decode::Streaming'):
                nm_ = t_.get('name') or ''
                if nm_ == 'new':
                    d_ = strip_refs(cands[0].origin(t_['args'][2]))
                    return d_[1].get('variant') if d_[0] == 'agg' else None
                if nm_.startswith('new'):
                    return ctor_direction(nm_, depth + 1)
            return None
        for c in clos:
            R.saw(c)
            for bb, t in c.calls(pat='codec::decode::Streaming'):
                if not (t.get('name') or '').startswith('new'):
                    continue
                dirn = ctor_direction(t['name'])
                if dirn == 'EmptyResponse':
                    ne.append((c, bb, t))
                elif dirn == 'Response':
                    nr.append((c, bb, t))
                else:
                    R.bad('C02.R6', 'stream-kind-unrecognised:%s' % t['name'], site(c, bb), 'Streaming::%s builds a decoder with direction %r' % (t['name'], dirn), kind='UNRECOGNISED')
        R.check(len(ne) == 1 and len(nr) == 1, 'C02.R6', 'two-stream-kinds', site(cr), 'decoders built with Direction::EmptyResponse: %d, with Direction::Response: %d' % (len(ne), len(nr)))
        for c, bb, t in nr:
            sc = resolve_env(tonic, c, c.origin(t['args'][2]))
            R.check('status_code' in show(sc) or term_contains(sc, lambda x: is_call(x, name='status') and 'Response' in x[1]), 'C02.R6', 'new_response-gets-http-status', site(c, bb), 'status argument = %s' % show(sc)[:100])
            # the full decoder (which expects trailers) only when the headers carried no grpc-status:
            #  (a) inside the closure, on the true edge of a captured flag that is `true` exactly when from_header_map(..) is None, or
            #  (b) the closure is built (and used) only on the None arm of from_header_map(..)
            okn = False
            fhm = lambda tm: tm[0] == 'discr' and term_contains(tm, lambda x: is_call(x, pat='Status::from_header_map'))
            for s_, vals, tm in c.edge_guards(bb):
                if vals == ['else'] or 0 not in vals:
                    flag = strip_refs(resolve_env(tonic, c, tm))
                    alts = flag[1] if flag and flag[0] == 'phi' else None
                    if alts and sorted(str(const_val(x)) for x in alts) == ['False', 'True'] and len(flag) > 2:
                        # which arm of the parent writes true?
                        fl = flag[2]
                        for wb in writers_of(cr, fl):
                            wv = [const_val(w[1]) for w in block_writes(cr, wb, fl) if w[0] == 'term']
                            gpar = cr.edge_guards(wb)
                            none_arm = any(fhm(t2) and v2 in ([0], ['else']) for s2, v2, t2 in gpar)
                            if wv == [True]:
                                okn = none_arm
            if not okn:
                for ab_, ai_, ap_, aa_, aops_ in mirlib.aggregates(cr):
                    if aa_.get('kind') == 'closure' and aa_.get('def') == c.path:
                        okn = any(fhm(t2) and v2 in ([0], ['else']) for s2, v2, t2 in cr.edge_guards(ab_))
            R.check(okn, 'C02.R6', 'new_response-iff-no-status-header', site(c, bb), 'Streaming::new_response (waits for trailers) is used exactly when Status::from_header_map(headers) is None: %r' % okn)
        sc = cr.calls(name='status')
        R.check(len(sc) == 1, 'C02.R6', 'http-status-captured', site(cr), 'response.status() sites: %d' % len(sc))

    # ---------------------------------------------------------------- R7 request side
    R.describe('C02.R7', 'request side: Request::from_http_parts keeps headers and extensions whole; map_request_unary merges request trailers; missing message -> INTERNAL')
    with R.guard('C02.R7'):
        fp = tonic.body('request::Request::<T>::from_http_parts')
        R.saw(fp)
        ag = mirlib.aggregates(fp, 'request::Request')
        okf = False
        for bb, i, p, a, ops in ag:
            f = a['fields']
            md = fp.origin(ops[f.index('metadata')])
            ex = fp.origin(ops[f.index('extensions')])
            msg = fp.origin(ops[f.index('message')])
            okf = is_call(md, name='from_headers') and field_names(md[2][0])[-1:] == ['headers'] and field_names(ex)[-1:] == ['extensions'] and msg[0] == 'arg'
            R.check(okf, 'C02.R7', 'from_http_parts', site(fp, bb, i), 'metadata = %s, extensions = %s, message = %s' % (show(md), show(ex), show(msg)))
        R.floor('C02.R7', 'Request aggregates', len(ag), 1)
        mu = tonic.body('server::grpc::Grpc::<T>::map_request_unary::{closure#0}')
        R.saw(mu)
        R.check(len(mu.calls(name='trailers')) == 1 and len(mu.calls(name='merge')) == 1, 'C02.R7', 'request-trailers-merged', site(mu), 'trailers() %d, merge %d' % (len(mu.calls(name='trailers')), len(mu.calls(name='merge'))))
        okn = False
        for bb, t in mu.calls(name='ok_or_else'):
            clo = strip_refs(mu.origin(t['args'][1]))
            if clo[0] == 'agg' and 'def' in clo[1]:
                okn = len(tonic.body(clo[1]['def']).calls(pat='Status::internal')) == 1
        R.check(okn, 'C02.R7', 'missing-request-message->internal', site(mu), 'no request message -> Status::internal')
        fh = mu.calls(name='from_http_parts')
        R.check(len(fh) == 1 and term_contains(mu.origin(fh[0][1]['args'][0]), lambda x: is_call(x, name='into_parts')), 'C02.R7', 'request-built-from-parts', site(mu), 'Request::from_http_parts(parts of the incoming request, message)')

    # ---------------------------------------------------------------- R8 a compressed message is one the peer can inflate
    with R.guard('C02.R8'):
        import C01
        C01.run_codec_tables(R, tonic, tag='@C02', rule='C02.R8')

    # ---------------------------------------------------------------- R9 trailing metadata through the grpc-web translation
    R.describe('C02.R9', 'a status (with its metadata) that travels in a grpc-web trailers frame is written entry by entry: every value of every name on a line of its own (C16.R4 instances re-evaluated under this id)')
    with R.guard('C02.R9'):
        import C16
        C16.check_trailer_writer(R, R.crate('tonic_web'), 'C02.R9')
