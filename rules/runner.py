"""Runner: loads facts, runs one property's rule module, applies known findings, writes evidence."""
import os, sys, json, time, importlib, traceback, contextlib
import extract, mirlib
from mirlib import CheckError


class Runner:
    def __init__(self, prop, tier, repo, verif, replay=None, write_evidence=True):
        self.prop = prop
        self.tier = tier
        self.repo = repo
        self.verif = verif
        self.replay = replay
        self.write_evidence = write_evidence
        self.t0 = time.time()
        self.obls = []          # every obligation evaluated: dict(rule,key,site,ok,detail)
        self.rules_desc = {}    # rule id -> one-line description
        self._facts = {}
        self._dirs = {}
        self.digest = None
        self.extract_s = 0.0
        self.configs_used = []
        self.bodies_inspected = set()
        self.notes = []
        self.cur_cfg = 'full'

    # ------------------------------------------------------------------ facts
    def facts_dir(self, cfg='full', cfgdef=None):
        if cfg not in self._dirs:
            d, dig, secs = extract.ensure(self.repo, self.verif, cfg, cfgdef)
            self._dirs[cfg] = d
            self.digest = dig
            self.extract_s += secs
            if cfg not in self.configs_used:
                self.configs_used.append(cfg)
        return self._dirs[cfg]

    def crates(self, name, cfg='full', cfgdef=None):
        key = (cfg, name)
        if key not in self._facts:
            d = self.facts_dir(cfg, cfgdef)
            got = mirlib.load_dir(d, {name})
            self._facts[key] = got.get(name, [])
        return self._facts[key]

    def crate(self, name, cfg='full', cfgdef=None):
        cs = self.crates(name, cfg, cfgdef)
        if not cs:
            raise CheckError('ANCHOR-MISSING: no facts for crate %s in config %s' % (name, cfg))
        return cs[0]

    def matrix(self):
        """thorough tier: yield (config name, config dict, tonic Crate) for every matrix configuration"""
        for name, cfg in extract.matrix_configs().items():
            try:
                cr = self.crate('tonic', name, cfg)
            except Exception as e:  # extraction failure in one configuration is itself a finding for the rules using it
                self.bad('%s.R0' % self.prop, 'matrix:%s:extraction' % name, '', str(e)[:600], kind='ANCHOR-MISSING')
                continue
            yield name, cfg, cr

    def selftest(self):
        """thorough tier: run this property's seeded mutants (selftest/mutants.py and seeded/*/patch.diff) on scratch copies and
        record killed / weak in the evidence.  Informational: never changes the verdict on /repo."""
        import subprocess
        if os.environ.get('VERIF_NO_SELFTEST') or self.repo != '/repo':
            return
        try:
            r = subprocess.run([sys.executable, os.path.join(self.verif, 'tools', 'selftest.py'), '--props', self.prop, '--json', os.path.join(self.verif, '.cache', 'selftest_%s.json' % self.prop), '--seeded'],
                               cwd=self.verif, stdout=subprocess.PIPE, stderr=subprocess.STDOUT, text=True, timeout=3600, env=dict(os.environ, VERIF_NO_SELFTEST='1'))
            with open(os.path.join(self.verif, '.cache', 'selftest_%s.json' % self.prop)) as fh:
                res = json.load(fh)
            self.selftest_result = res
            for x in res:
                line = 'selftest %s: %s — %s' % (x['id'], x['status'], x.get('what', x.get('why', '')))
                self.note(line)
                if x['status'] == 'WEAK':
                    print('SELFTEST-WEAK rule=%s mutant=%s' % (self.prop, x['id']))
        except Exception as e:
            self.note('selftest could not run: %s' % e)

    def all_crates(self, cfg='full'):
        """every crate of a config (loads everything: ~50 MB for full)"""
        key = (cfg, '*')
        if key not in self._facts:
            d = self.facts_dir(cfg)
            self._facts[key] = mirlib.load_dir(d)
        return self._facts[key]

    # ------------------------------------------------------------------ recording
    def describe(self, rule, text):
        self.rules_desc[rule] = text

    def _rec(self, ok, rule, key, site, detail, kind=None):
        fullkey = '%s|%s' % (rule, key)
        if self.cur_cfg != 'full' and self.cur_cfg is not None and self.tier == 'thorough' and self.cur_cfg.startswith('m_'):
            fullkey_cfg = self.cur_cfg
        else:
            fullkey_cfg = self.cur_cfg
        self.obls.append({'rule': rule, 'key': fullkey, 'site': site or '', 'ok': bool(ok),
                          'detail': detail if detail is not None else '', 'kind': kind or ('held' if ok else 'violated'),
                          'cfg': fullkey_cfg})
        return bool(ok)

    def ok(self, rule, key, site='', detail=None):
        return self._rec(True, rule, key, site, detail)

    def bad(self, rule, key, site='', detail=None, kind=None):
        return self._rec(False, rule, key, site, detail, kind)

    def check(self, cond, rule, key, site='', detail=None):
        return self._rec(bool(cond), rule, key, site, detail)

    def eq(self, got, want, rule, key, site='', what=''):
        return self._rec(got == want, rule, key, site, '%s: extracted %r, required %r' % (what or 'value', got, want))

    def floor(self, rule, what, count, minimum):
        return self._rec(count >= minimum, rule, 'floor:%s' % what, '',
                         'instances matched: %d, floor (counted by hand on the pinned tree): %d' % (count, minimum),
                         kind=None if count >= minimum else 'BELOW-FLOOR')

    @contextlib.contextmanager
    def guard(self, rule, key='anchors'):
        """fail closed: a CheckError (missing anchor / unrecognised idiom) or any crash inside a rule is a violation"""
        try:
            yield
        except CheckError as e:
            msg = str(e)
            kind = 'ANCHOR-MISSING' if 'ANCHOR' in msg else 'UNRECOGNISED'
            self.bad(rule, '%s:%s' % (key, kind), '', msg, kind=kind)
        except Exception as e:  # analysis bug: fail closed, never silently pass
            tb = traceback.format_exc(limit=6)
            self.bad(rule, '%s:CHECKER-ERROR' % key, '', '%s: %s\n%s' % (type(e).__name__, e, tb), kind='UNRECOGNISED')

    def saw(self, *bodies):
        for b in bodies:
            self.bodies_inspected.add(b.path)

    def note(self, s):
        self.notes.append(s)

    # ------------------------------------------------------------------ main
    def load_known(self):
        p = os.path.join(self.verif, 'known_findings.json')
        if not os.path.exists(p):
            return []
        with open(p) as fh:
            return json.load(fh).get('findings', [])

    def main(self):
        mod = None
        try:
            mod = importlib.import_module(self.prop)
        except ModuleNotFoundError:
            print('no rule module for %s' % self.prop)
            return 2
        try:
            mod.run(self)
        except Exception as e:
            tb = traceback.format_exc(limit=8)
            self.bad('%s.R0' % self.prop, 'checker-crash', '', '%s: %s\n%s' % (type(e).__name__, e, tb), kind='UNRECOGNISED')
        if not self.obls:
            self.bad('%s.R0' % self.prop, 'vacuous', '', 'no rule instance was evaluated', kind='BELOW-FLOOR')

        known = [k for k in self.load_known() if k.get('property') == self.prop and k.get('state') == 'known']
        known_keys = {k['key']: k for k in known}
        violations, known_hits = [], []
        seen_keys = set()
        for o in self.obls:
            if o['ok']:
                continue
            if o['key'] in known_keys:
                if o['key'] not in seen_keys:
                    known_hits.append((o, known_keys[o['key']]))
            else:
                violations.append(o)
            seen_keys.add(o['key'])

        for o, k in known_hits:
            print('KNOWN-FINDING: property=%s %s [%s] %s' % (self.prop, k.get('what', ''), o['key'], o['site']))

        replay_dir = os.path.join(self.verif, 'evidence', 'replay')
        printed = set()
        n = 0
        for o in violations:
            if o['key'] in printed:
                continue
            printed.add(o['key'])
            n += 1
            os.makedirs(replay_dir, exist_ok=True)
            rp = os.path.join(replay_dir, '%s-%d.json' % (self.prop, n))
            with open(rp, 'w') as fh:
                json.dump({'property': self.prop, 'rule': o['rule'], 'key': o['key'], 'site': o['site'],
                           'kind': o['kind'], 'detail': o['detail'], 'cfg': o['cfg'], 'tree_digest': self.digest,
                           'how_to_replay': './check %s --tier %s   (re-evaluates every instance on the current tree; this key is %s)' % (self.prop, self.tier, o['key'])},
                          fh, indent=1)
            print('VIOLATION property=%s replay=%s' % (self.prop, rp))
            print('  %s  %s  [%s]  %s' % (o['site'] or '-', o['rule'], o['kind'], o['key']))
            for line in str(o['detail']).splitlines()[:12]:
                print('      ' + line)

        if self.write_evidence:
            self.evidence(violations, known_hits, getattr(mod, 'META', {}) if mod else {})
        total = len(self.obls)
        held = sum(1 for o in self.obls if o['ok'])
        print('%s %s: %d rule instances evaluated, %d held, %d known findings, %d violations; %d bodies inspected; facts %s (%s) in %.1fs' % (
            self.prop, self.tier, total, held, len(known_hits), len(printed), len(self.bodies_inspected),
            self.digest, ','.join(self.configs_used), time.time() - self.t0))
        return 1 if violations else 0

    def evidence(self, violations, known_hits, meta):
        distinct = {}
        for o in self.obls:
            if o['site']:  # matched a real site in the tree, not just an anchor or floor
                distinct[(o['key'], o['cfg'])] = 1
        samples = []
        per_rule = {}
        for o in self.obls:
            per_rule.setdefault(o['rule'], []).append(o)
        for rule, os_ in sorted(per_rule.items()):
            for o in os_[:3]:
                samples.append({'rule': rule, 'instance': o['key'], 'site': o['site'], 'verdict': o['kind'],
                                'facts': str(o['detail'])[:400], 'config': o['cfg']})
        ev = {
            'property_id': self.prop,
            'tier': self.tier,
            'seed': int(os.environ.get('VERIF_SEED', '0') or 0),
            'level': 'other',
            'coverage': {
                'explanation': meta.get('explanation', 'static analysis of MIR facts extracted from the working tree'),
                'evaluations': len(self.obls),
                'distinct_nontrivial': len(distinct),
                'rule': 'one evaluation = one rule instance (a table row, call site, CFG path obligation or anchor) '
                        'decided on the MIR of the current tree; distinct_nontrivial counts distinct (instance key, config) '
                        'pairs that matched a concrete source site (floors and anchors excluded)',
                'samples': samples[:60],
                'obligations': len(self.obls),
                'discharged': sum(1 for o in self.obls if o['ok']),
                'rules': {r: {'what': self.rules_desc.get(r, ''), 'instances': len(v), 'held': sum(1 for o in v if o['ok'])}
                          for r, v in sorted(per_rule.items())},
                'bodies_inspected': len(self.bodies_inspected),
                'bodies': sorted(self.bodies_inspected)[:80],
                'configs': self.configs_used,
                'tree_digest': self.digest,
                'exhaustive': bool(meta.get('exhaustive', False)),
                'known_findings_hit': [o['key'] for o, _ in known_hits],
                'violating_instances': [o['key'] for o in violations][:40],
                'notes': self.notes[:80],
                'selftest': getattr(self, 'selftest_result', None),
                'checker_cmd': './check %s --tier %s' % (self.prop, self.tier),
                'trusted_base': ['rustc nightly MIR construction and trait resolution', 'engine/factgen serialisation', 'rules/mirlib.py'],
            },
            'assumptions': meta.get('assumptions', []) + [
                'decides necessary structural conditions only; the behavioural property itself (all inputs/schedules) is not established',
                'third-party crates behave as documented',
            ],
            'wall_s': round(time.time() - self.t0, 2),
            'violations': len({o['key'] for o in violations}),
        }
        d = os.path.join(self.verif, 'evidence')
        os.makedirs(d, exist_ok=True)
        tmp = os.path.join(d, '.%s.json.tmp%d' % (self.prop, os.getpid()))
        with open(tmp, 'w') as fh:
            json.dump(ev, fh, indent=1)
        os.replace(tmp, os.path.join(d, '%s.json' % self.prop))
