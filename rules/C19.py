"""C19 — reflection resolves every registered symbol and file, and nothing else (structural clauses)."""
import re
from collections import Counter
from common import *
import mirlib
from C01 import arm_regions

META = {
    'explanation': 'The indexer (ReflectionServiceState::process_*) is reduced to a coverage table: which repeated descriptor fields each '
                   'function iterates and what each iteration registers (symbols.insert(extract_name(parent-qualified prefix, ..)) or a '
                   'recursive process_* call with the parent name as prefix); the table is compared with spec/reflection_kinds.json. '
                   'Name joining, duplicate-file skipping, NOT_FOUND answers, the service-list source and the request dispatch tables of '
                   'the v1 and v1alpha services (which must be isomorphic) are decided by call identity, origins and guards.',
    'exhaustive': True,
    'assumptions': ['prost encodes/decodes FileDescriptorProto faithfully'],
}


def iterated_fields(b):
    """[(field name, into_iter block)] for `for x in &something.field` loops"""
    out = []
    for bb, t in b.calls(name='into_iter'):
        o = b.origin(t['args'][0])
        fn = field_names(o)
        if fn:
            out.append((fn[-1], bb, o))
    return out


def loop_region(b, iter_bb):
    """blocks of the loop body fed by the iterator created at iter_bb: blocks dominated by the `next()` call on it that can reach it again"""
    it_local = b.term(iter_bb)['dest']['l']
    nxt = None
    for bb, t in b.calls(name='next'):
        if term_contains(b.origin(t['args'][0]), lambda x: is_call(x, name='into_iter') and x[4] is b.term(iter_bb)):
            nxt = bb
    if nxt is None:
        return set(), None
    reg = {x for x in b.live_blocks() if b.dominates(nxt, x) and nxt in b.reachable(x) and x != nxt}
    return reg, nxt


def run(R):
    refl = R.crate('tonic_reflection')
    kinds = {k: v for k, v in spec('reflection_kinds').items() if not k.startswith('_')}

    # ---------------------------------------------------------------- R1 coverage table
    R.describe('C19.R1', 'the indexer iterates exactly the repeated descriptor fields of spec/reflection_kinds.json and registers each declaration under its parent-qualified name')
    with R.guard('C19.R1'):
        fns = {
            'FileDescriptorProto': refl.body('server::ReflectionServiceState::process_file'),
            'DescriptorProto': refl.body('server::ReflectionServiceState::process_message'),
            'EnumDescriptorProto': refl.body('server::ReflectionServiceState::process_enum'),
        }
        pfs = refl.find('server::ReflectionServiceState::process_field')
        pf = pfs[0] if len(pfs) == 1 else None   # the field handler may be written inline in process_message's loop
        R.saw(*([pf] if pf else []), *fns.values())
        handlers = {'message_type': 'process_message', 'nested_type': 'process_message', 'enum_type': 'process_enum'}
        if pf is not None:
            handlers['field'] = 'process_field'
        own_name = {'FileDescriptorProto': None, 'DescriptorProto': 'message', 'EnumDescriptorProto': 'enum'}
        # parameters by role, not by position or name: the name-joining helper's (prefix, kind, optional name), each indexer's
        # prefix (&str) and declaring-file (Arc<FileDescriptorProto>) parameters
        exb = refl.body('server::extract_name')
        ie_ = exb.calls(name='is_empty')
        PRE_N = arg_root(strip_refs(exb.origin(ie_[0][1]['args'][0]))) if len(ie_) == 1 else None
        NAME_N = param_of_type(exb, r'^(std::option::|core::option::)?Option<')
        if PRE_N is None:
            raise CheckError('UNRECOGNISED: extract_name does not test one parameter with is_empty()')
        STR = r"^&('\w+ )?str$"
        FD = r'Arc<.*FileDescriptorProto>'

        def is_param(b_, t_, n_):
            x_ = strip_refs(t_)
            for _ in range(4):
                if is_call(x_) and x_[3] in ('clone', 'deref', 'as_ref', 'borrow', 'as_str') and x_[2]:
                    x_ = strip_refs(x_[2][0])
            return x_[:2] == ('arg', n_)
        for ty, b in fns.items():
            its = iterated_fields(b)
            got = sorted(f for f, bb, o in its if f in sum(kinds.values(), []) if isinstance(f, str))
            want = list(kinds[ty]) + (['method'] if ty == 'FileDescriptorProto' else [])
            R.eq(sorted(got), sorted(want), 'C19.R1', 'fields:%s' % ty, site(b), 'repeated fields iterated by %s' % short(b.path))
            # the function's own symbol (message / enum) is registered under extract_name(prefix, ..)
            ins = [(bb, t) for bb, t in b.calls(pat='HashMap', name='insert') if mentions_field(b.origin(t['args'][0]), 'symbols')]
            if own_name[ty]:
                own = [(bb, t) for bb, t in ins if not any(bb in loop_region(b, ib)[0] for f, ib, o in its)]
                okown = len(own) == 1 and term_contains(b.origin(own[0][1]['args'][1]), lambda x: is_call(x, name='extract_name') and is_param(b, x[2][PRE_N - 1], param_of_type(b, STR)))
                R.check(okown, 'C19.R1', 'own-symbol:%s' % ty, site(b), '%s registers its own name as extract_name(prefix, ..): %r' % (short(b.path), okown))
            for f, ib, o in its:
                if f not in sum(kinds.values(), []) and f != 'method':
                    continue
                reg, nxt = loop_region(b, ib)
                calls_in = [(bb, b.term(bb)) for bb in sorted(reg) if b.term(bb)['k'] == 'call']
                names = [t.get('name') for bb, t in calls_in]
                if f in handlers:
                    hc = [(bb, t) for bb, t in calls_in if t.get('name') == handlers[f]]
                    R.check(len(hc) == 1, 'C19.R1', 'loop:%s.%s->%s' % (ty, f, handlers[f]), site(b, ib), 'loop over %s calls %s: %d site(s)' % (f, handlers[f], len(hc)))
                    for bb, t in hc:
                        hb_ = refl.body('server::ReflectionServiceState::' + handlers[f])
                        pre = b.origin(t['args'][param_of_type(hb_, STR) - 1])
                        if ty == 'FileDescriptorProto':
                            okp = mentions_field(pre, 'package')
                            R.check(okp, 'C19.R1', 'prefix:%s.%s=package' % (ty, f), site(b, bb), 'prefix = %s' % show(pre)[:100])
                        else:
                            okp = term_contains(pre, lambda x: is_call(x, name='extract_name'))
                            R.check(okp, 'C19.R1', 'prefix:%s.%s=parent-name' % (ty, f), site(b, bb),
                                    'prefix handed to %s = %s; required: the qualified name of the enclosing declaration (else a.B.C registers as a.C)' % (handlers[f], show(pre)[:100]))
                        el = b.origin(t['args'][param_of_type(hb_, r'DescriptorProto$') - 1])
                        R.check(term_contains(el, lambda x: is_call(x, name='next')), 'C19.R1', 'element:%s.%s' % (ty, f), site(b, bb), 'the loop element is what is processed')
                else:
                    ic = [(bb, t) for bb, t in calls_in if t.get('name') == 'insert' and 'HashMap' in (t.get('fn') or '')]
                    R.check(len(ic) >= 1, 'C19.R1', 'loop:%s.%s->insert' % (ty, f), site(b, ib), 'loop over %s registers symbols: %d insert site(s)' % (f, len(ic)))
                    for bb, t in ic:
                        key = b.origin(t['args'][1])
                        exs = find_terms(key, lambda x: is_call(x, name='extract_name'))
                        if not exs:
                            R.bad('C19.R1', 'name:%s.%s' % (ty, f), site(b, bb), 'registered key is not built by extract_name: %s' % show(key)[:100])
                            continue
                        pre = exs[0][2][PRE_N - 1]
                        if ty == 'FileDescriptorProto' and f == 'service':
                            okp = mentions_field(pre, 'package')
                        else:
                            okp = term_contains(pre, lambda x: is_call(x, name='extract_name'))
                        R.check(okp, 'C19.R1', 'name:%s.%s:qualified' % (ty, f), site(b, bb), 'key = extract_name(%s, ..)' % show(pre)[:80])
                        nm = exs[0][2][NAME_N - 1]
                        R.check(mentions_field(nm, 'name') and term_contains(nm, lambda x: is_call(x, name='next')), 'C19.R1', 'name:%s.%s:element-name' % (ty, f), site(b, bb), 'name part = %s' % show(nm)[:80])
                        val = b.origin(t['args'][2])
                        R.check(term_contains(val, lambda x: x and x[0] == 'arg' and x[1] == param_of_type(b, FD)), 'C19.R1', 'value:%s.%s=declaring-file' % (ty, f), site(b, bb), 'value = %s' % show(val)[:80])
        if pf is not None:
            ins = [(bb, t) for bb, t in pf.calls(pat='HashMap', name='insert')]
            okf = len(ins) == 1 and term_contains(pf.origin(ins[0][1]['args'][1]), lambda x: is_call(x, name='extract_name') and is_param(pf, x[2][PRE_N - 1], param_of_type(pf, STR))) and mentions_field(pf.origin(ins[0][1]['args'][0]), 'symbols')
            R.check(okf, 'C19.R1', 'field-registered', site(pf), 'process_field: symbols.insert(extract_name(prefix, field.name), fd): %r' % okf)
        else:
            R.ok('C19.R1', 'field-registered', site(fns['DescriptorProto']), 'fields are registered inline in process_message (checked as loop:DescriptorProto.field->insert)')
        # recursion for nested messages exists
        pm = fns['DescriptorProto']
        R.check(any((t.get('fn') or '').endswith('process_message') for bb, t in pm.calls(name='process_message')), 'C19.R1', 'nested-recursion', site(pm), 'process_message recurses for nested_type')

    # ---------------------------------------------------------------- R2 name joining
    R.describe('C19.R2', 'extract_name joins prefix and name with "." unless the prefix is empty; a missing name is an error')
    with R.guard('C19.R2'):
        ex = refl.body('server::extract_name')
        R.saw(ex)
        ie = ex.calls(name='is_empty')
        P_N = arg_root(strip_refs(ex.origin(ie[0][1]['args'][0]))) if len(ie) == 1 else None
        N_N = param_of_type(ex, r'^(std::option::|core::option::)?Option<')
        R.check(len(ie) == 1 and P_N is not None and re.search(r"^&('\w+ )?str$", ex.ty(P_N)) is not None, 'C19.R2', 'empty-prefix-test', site(ex), 'prefix.is_empty() on a &str parameter')
        has_arg = lambda t_, n_: term_contains(t_, lambda x: isinstance(x, tuple) and x and x[0] == 'arg' and x[1] == n_)
        fm = ex.calls(pat='fmt::Arguments', name='new')
        dot = False
        for bb, t in fm:
            lit = const_val(ex.origin(t['args'][0]))
            g = ex.edge_guards(bb)
            if isinstance(lit, bytes) and b'.' in lit and any(is_call(strip_refs(tm), name='is_empty') and vals == [0] for s, vals, tm in g):
                args = ex.origin(t['args'][1])
                dot = has_arg(args, P_N) and has_arg(args, N_N)
        R.check(dot, 'C19.R2', 'join-with-dot', site(ex), 'format!("{}.{}", prefix, name) on the non-empty edge: %r' % dot)
        ts = ex.calls(name='to_string') + ex.calls(name='clone') + ex.calls(name='to_owned')
        ts = [(bb, t) for bb, t in ts if has_arg(ex.origin(t['args'][0]), N_N)]
        okt = any(any(is_call(strip_refs(tm), name='is_empty') and (vals == ['else'] or 0 not in vals) for s, vals, tm in ex.edge_guards(bb)) for bb, t in ts)
        R.check(okt, 'C19.R2', 'bare-name-when-no-prefix', site(ex), 'name.to_string() on the empty-prefix edge')
        errs = [bb for bb, i, p, a, ops in mirlib.aggregates(ex, 'result::Result', 'Err') if p['l'] == 0]
        R.check(len(errs) == 1 and any(tm[0] == 'discr' and has_arg(tm, N_N) and vals in ([0], ['else']) for s, vals, tm in ex.edge_guards(errs[0])), 'C19.R2', 'missing-name-error', site(ex), 'None name -> Err(InvalidFileDescriptorSet)')

    # ---------------------------------------------------------------- R3 files / lookups
    R.describe('C19.R3', 'files are registered once by name (duplicates skipped, missing name = error); file_by_filename / symbol_by_name answer NOT_FOUND on a miss and the encoded descriptor otherwise')
    with R.guard('C19.R3'):
        nw = refl.body('server::ReflectionServiceState::new')
        R.saw(nw)
        is_files = lambda op_: recv_place_fields(nw, op_)[-1:] == ['files'] or mentions_field(nw.origin(op_), 'files')
        # "register unless present", spelled contains_key + insert or entry() + VacantEntry::insert
        ck = [(bb, t) for bb, t in nw.calls(pat='HashMap', name='contains_key') if is_files(t['args'][0])]
        en = [(bb, t) for bb, t in nw.calls(pat='HashMap', name='entry') if is_files(t['args'][0])]
        ins = [(bb, t, t['args'][1]) for bb, t in nw.calls(pat='HashMap', name='insert') if is_files(t['args'][0])]
        vins = [(bb, t) for bb, t in nw.calls(name='insert') if 'VacantEntry' in (t.get('fn') or '') and term_contains(nw.origin(t['args'][0]), lambda x: is_call(x, name='entry') and 'HashMap' in x[1])]
        form = 'contains' if (len(ck) == 1 and len(ins) == 1 and not en) else ('entry' if (len(en) == 1 and len(vins) == 1 and not ck and not ins) else None)
        R.check(form is not None, 'C19.R3', 'files:contains+insert', site(nw), 'contains_key %d + insert %d, or entry %d + VacantEntry::insert %d' % (len(ck), len(ins), len(en), len(vins)))
        if form:
            test_bb, test_t = (ck[0] if form == 'contains' else en[0])
            reg_bb = ins[0][0] if form == 'contains' else vins[0][0]
            key = nw.origin(ins[0][2]) if form == 'contains' else nw.origin(en[0][1]['args'][1])

            def absent(g_):
                # the guard says the name is not registered yet
                for s_, vals_, tm_ in g_:
                    c_ = strip_refs(tm_)
                    if form == 'contains' and is_call(c_, name='contains_key') and vals_ == [0]:
                        return True
                    if form == 'entry' and tm_[0] == 'discr' and is_call(strip_refs(tm_[1]), name='entry') and len(tm_) > 2 and tm_[2]:
                        names_ = dict(tm_[2])
                        if len(vals_) == 1 and names_.get(vals_[0]) == 'Vacant':
                            return True
                        if vals_ == ['else'] and [names_.get(v_) for v_, _ in nw.term(s_)['arms']] == ['Occupied']:
                            return True
                return False
            R.check(absent(nw.edge_guards(reg_bb)), 'C19.R3', 'files:skip-duplicate', site(nw, reg_bb), 'insert only when the file name is not present yet')
            # a duplicate is skipped with `continue`: the file iterator is advanced next, the remaining files are not dropped
            nexts = [bb for bb, t in nw.calls(name='next') if nw.dominates(bb, test_bb)]
            if len(nexts) >= 1:
                inner = max(nexts, key=lambda x: len(nw.dominators()[x]))
                outer = [x for x in nexts if x != inner]
                if form == 'contains':
                    sw = mirlib.follow_to_switch(nw, test_t['t'])
                    dup_t = [t_ for t_, vals in nw.switch_edges(sw).items() if vals == ['else'] or (0 not in vals and 'else' not in vals)]
                else:
                    sws = [x for x in sorted(nw.live_blocks()) if nw.term(x)['k'] == 'switch' and (lambda o_: o_[0] == 'discr' and is_call(strip_refs(o_[1]), name='entry'))(nw.origin(nw.term(x)['on']))]
                    dup_t = []
                    for sw in sws[:1]:
                        o_ = nw.origin(nw.term(sw)['on'])
                        names_ = dict(o_[2]) if len(o_) > 2 and o_[2] else {}
                        for t_, vals in nw.switch_edges(sw).items():
                            if (len(vals) == 1 and names_.get(vals[0]) == 'Occupied') or (vals == ['else'] and [names_.get(v_) for v_, _ in nw.term(sw)['arms']] == ['Vacant']):
                                dup_t.append(t_)
                okc = bool(dup_t) and inner in nw.reachable(dup_t[0], removed=set(outer) | {reg_bb})
                R.check(okc, 'C19.R3', 'files:duplicate-continues-with-next-file', site(nw, test_bb),
                        'after a duplicate file the loop advances the same file iterator (continue): %r; a `break` drops every later file of that descriptor set' % okc)
            else:
                R.bad('C19.R3', 'files:duplicate-continues-with-next-file', site(nw, test_bb), 'the duplicate check is not inside a loop over the files (%d dominating next() calls)' % len(nexts), kind='UNRECOGNISED')
            pfc = nw.calls(name='process_file')
            R.check(len(pfc) == 1 and absent(nw.edge_guards(pfc[0][0])), 'C19.R3', 'files:index-once', site(nw), 'process_file only for newly inserted files')
            R.check(mentions_field(key, 'name'), 'C19.R3', 'files:keyed-by-name', site(nw, reg_bb), 'key = %s' % show(key)[:80])
        # the encoded descriptor sets are decoded (errors propagated) on the way into the state, by the constructor or by what feeds it
        dsites = []
        for bn in ('build_v1', 'build_v1alpha'):
            bld = refl.body("server::Builder::<'b>::" + bn)
            fam_b = family(refl, bld) + [x for x in family(refl, nw) if x not in family(refl, bld)]
            d_ = [(b2, bb, t) for b2, bb, t in fam_calls(fam_b, name='decode') if 'FileDescriptorSet' in ((t.get('self_ty') or '') + (t.get('fn') or '') + ' '.join(t.get('ga') or []))]
            dsites.append(len(d_) == 1 and len(d_[0][0].calls(name='from_residual')) >= 1 and (d_[0][0] is nw or mentions_field(resolve_env(refl, d_[0][0], d_[0][0].origin(d_[0][2]['args'][0])), 'encoded_file_descriptor_sets')
                                                                                          or bool(find_terms(d_[0][0].origin(d_[0][2]['args'][0]), lambda x: is_call(x, name='next')))))
        R.check(all(dsites), 'C19.R3', 'encoded-sets-decoded', site(nw), 'encoded sets are decoded, errors propagated (per builder: %r)' % dsites)
        for fn, fld in (('file_by_filename', 'files'), ('symbol_by_name', 'symbols')):
            b = refl.body('server::ReflectionServiceState::' + fn)
            R.saw(b)
            g = b.calls(pat='HashMap', name='get')
            R.check(len(g) == 1 and mentions_field(b.origin(g[0][1]['args'][0]), fld) and show(strip_refs(b.origin(g[0][1]['args'][1]))).startswith('arg2'), 'C19.R3', '%s:lookup' % fn, site(b), '%s.get(arg)' % fld)
            fb_ = family(refl, b)
            nf = fam_calls(fb_, pat='Status::not_found')
            oknf = False
            if len(nf) == 1 and nf[0][0] is b:
                oknf = any(tm[0] == 'discr' and 'get(' in show(tm) and vals in ([0], ['else']) for s, vals, tm in b.edge_guards(nf[0][1]))
            elif len(nf) == 1:
                # get(..).ok_or_else(|| Status::not_found(..))?
                oknf = any(t2.get('name') in ('ok_or_else', 'ok_or') and is_call(strip_refs(b.origin(t2['args'][0])), name='get') and strip_refs(b.origin(t2['args'][1]))[0] == 'agg' and strip_refs(b.origin(t2['args'][1]))[1].get('def') == nf[0][0].path for bb2, t2 in b.calls())
            R.check(oknf, 'C19.R3', '%s:not_found' % fn, site(b), 'NOT_FOUND on a miss')
            en = b.calls(name='encode')
            R.check(len(en) == 1 and term_contains(b.origin(en[0][1]['args'][0]), lambda x: is_call(x, name='get')), 'C19.R3', '%s:encodes-found' % fn, site(b), 'the found descriptor is encoded')
            # .. on every path that answers Ok: an Ok that does not come out of the encoder (an empty list for a file "already sent on this
            # stream", a cached placeholder) is a name that does not resolve
            if len(en) == 1:
                oks = [(bb_, i_) for bb_, i_, p_, a_, ops_ in mirlib.aggregates(b, 'result::Result', 'Ok') if flows_to_return(b, p_['l'])]
                if not oks:
                    # the Ok is built by a (spliced) helper and handed on through map_err / `?`: every Ok built here counts
                    oks = [(bb_, i_) for bb_, i_, p_, a_, ops_ in mirlib.aggregates(b, 'result::Result', 'Ok')]
                bad_ok = [(bb_, i_) for bb_, i_ in oks if not b.dominates(en[0][0], bb_)]
                R.check(bool(oks) and not bad_ok, 'C19.R3', '%s:every-Ok-is-the-encoding' % fn, site(b, *(bad_ok[0] if bad_ok else oks[0] if oks else (None,))),
                        'Ok(..) answers of %s: %d, of which %d are not behind the encoder' % (fn, len(oks), len(bad_ok)))

    # ---------------------------------------------------------------- R4 service list
    R.describe('C19.R4', 'service list = declared services when use_all_service_names, else exactly the explicitly chosen names')
    with R.guard('C19.R4'):
        b = refl.body('server::ReflectionServiceState::process_file')
        ps = [(bb, t) for bb, t in b.calls(name='push') if mentions_field(b.origin(t['args'][0]), 'service_names')]
        R.check(len(ps) == 1, 'C19.R4', 'push-site', site(b), 'service_names.push sites: %d' % len(ps))
        for bb, t in ps:
            g = b.edge_guards(bb)
            R.check(any(show(tm).startswith('arg3') and (vals == ['else'] or 0 not in vals) for s, vals, tm in g), 'C19.R4', 'push-iff-use-all', site(b, bb), 'guards: %r' % [(v, show(tm)[:40]) for s, v, tm in g])
            R.check(term_contains(b.origin(t['args'][1]), lambda x: is_call(x, name='extract_name')), 'C19.R4', 'push-qualified-name', site(b, bb), 'pushed = %s' % show(b.origin(t['args'][1]))[:80])
        ws = refl.body("server::Builder::<'b>::with_service_name")
        R.saw(ws)
        wr = [(bb, i, st) for bb, i, st in mirlib.assignments(ws, lambda st: mirlib.place_fields(st['p'])[-1:] == ['use_all_service_names'])]
        R.check(len(wr) == 1 and const_val(ws._origin_def(('stmt', wr[0][0], wr[0][1], wr[0][2]['rv']), 0, set())) is False, 'C19.R4', 'explicit-name-clears-flag', site(ws), 'with_service_name sets use_all_service_names = false')
        R.check(len(ws.calls(name='push')) == 1, 'C19.R4', 'explicit-name-pushed', site(ws), 'with_service_name pushes the name')
        cf = refl.body("server::Builder::<'b>::configure")
        ag = mirlib.aggregates(cf, 'server::Builder')
        R.check(len(ag) == 1 and const_val(cf.origin(ag[0][4][ag[0][3]['fields'].index('use_all_service_names')])) is True, 'C19.R4', 'default-use-all', site(cf), 'Builder::configure: use_all_service_names = true')
        ls = refl.body('server::ReflectionServiceState::list_services')
        rt = mirlib.returned_terms(ls)
        R.check(len(rt) == 1 and mentions_field(rt[0][1], 'service_names'), 'C19.R4', 'list=service_names', site(ls), 'list_services returns service_names')
        for bn in ('build_v1', 'build_v1alpha'):
            bb_ = refl.body("server::Builder::<'b>::" + bn)
            R.saw(bb_)
            c = bb_.calls(pat='ReflectionServiceState::new')
            okc = False
            if len(c) == 1:
                # which Builder field feeds which parameter of the constructor, and what the constructor does with that parameter
                fmap = callsite_field_map(refl, bb_, c[0][1])
                nwb = refl.body('server::ReflectionServiceState::new')
                by_field = {v_: k_ for k_, v_ in fmap.items() if not k_[1]}
                ag_ = mirlib.aggregates(nwb, 'server::ReflectionServiceState')
                sn_ok = 'service_names' in by_field and len(ag_) == 1 and strip_refs(nwb.origin(ag_[0][4][ag_[0][3]['fields'].index('service_names')]))[:2] == ('arg', by_field['service_names'][0])
                pfc_ = nwb.calls(name='process_file')
                pfb_ = refl.body('server::ReflectionServiceState::process_file')
                fl_ok = 'use_all_service_names' in by_field and len(pfc_) == 1 and strip_refs(nwb.origin(pfc_[0][1]['args'][param_of_type(pfb_, r'^bool$') - 1]))[:2] == ('arg', by_field['use_all_service_names'][0])
                # both kinds of registered sets reach the constructor (as arguments, or consumed while its argument is built)
                used = set(fmap.values())
                for b2 in family(refl, bb_):
                    for bb2, t2 in b2.calls():
                        for a2 in t2['args']:
                            fn2 = field_names(resolve_env(refl, b2, b2.origin(a2)))
                            used.update(x for x in fn2 if x in ('file_descriptor_sets', 'encoded_file_descriptor_sets'))
                okc = sn_ok and fl_ok and {'file_descriptor_sets', 'encoded_file_descriptor_sets'} <= used
            R.check(okc, 'C19.R4', '%s:state-args' % bn, site(bb_), 'the constructor receives service_names (stored), use_all_service_names (handed to process_file) and both kinds of descriptor sets: %r' % okc)

    # ---------------------------------------------------------------- R5 v1 ≅ v1alpha
    R.describe('C19.R5', 'server::v1 and server::v1alpha are isomorphic: same bodies, same calls, and the same request dispatch table (FileByFilename -> file_by_filename, FileContainingSymbol -> symbol_by_name, ListServices -> list_services, ...)')
    with R.guard('C19.R5'):
        def norm(s):
            return re.sub(r'v1alpha', 'v1', s or '')
        per = {}
        for ver in ('v1', 'v1alpha'):
            bodies = {}
            for bd in refl.bodies:
                if bd.kind == 'promoted' or ('server::%s::' % ver) not in bd.path or '__CALLSITE' in bd.path:
                    continue
                key = norm(bd.path)
                calls = Counter(norm(short(t.get('resolved') or t.get('fn') or '?')) for bb, t in bd.calls())
                aggs = Counter((norm(a.get('adt', '')), a.get('variant')) for bb, i, p, a, ops in mirlib.aggregates(bd) if a.get('kind') == 'adt')
                bodies[key] = (calls, aggs, len(bd.blocks), bd)
            per[ver] = bodies
        R.eq(sorted(per['v1']), sorted(per['v1alpha']), 'C19.R5', 'same-bodies', '', 'bodies of server::v1 vs server::v1alpha (version-normalised paths)')
        n = 0
        for k in sorted(set(per['v1']) & set(per['v1alpha'])):
            a, b_ = per['v1'][k], per['v1alpha'][k]
            n += 1
            R.check(a[0] == b_[0] and a[1] == b_[1], 'C19.R5', 'iso:%s' % short(k)[-70:], site(b_[3]),
                    'call multiset / aggregate multiset equal: %r / %r; differing calls: %r' % (a[0] == b_[0], a[1] == b_[1], sorted(((a[0] - b_[0]) + (b_[0] - a[0])).items())[:6]))
        R.floor('C19.R5', 'paired bodies', n, 8)
        # dispatch tables
        want = {'FileByFilename': 'file_by_filename', 'FileContainingSymbol': 'symbol_by_name', 'ListServices': 'list_services',
                'FileContainingExtension': 'not_found', 'AllExtensionNumbersOfType': None}
        for ver in ('v1', 'v1alpha'):
            cands = [bd for bd in refl.bodies if ('server::%s::' % ver) in bd.path and bd.kind in ('coroutine', 'closure') and bd.calls(name='file_by_filename')]
            if len(cands) != 1:
                raise CheckError('ANCHOR-MISSING: dispatch body of %s (%d candidates)' % (ver, len(cands)))
            d = cands[0]
            R.saw(d)
            sws = [bb for bb in sorted(d.live_blocks()) if d.term(bb)['k'] == 'switch' and (lambda o: o[0] == 'discr' and (o[3] or '').endswith('MessageRequest'))(d.origin(d.term(bb)['on']))]
            if len(sws) != 1:
                raise CheckError('UNRECOGNISED: %d switches on MessageRequest in %s' % (len(sws), d.path))
            o = d.origin(d.term(sws[0])['on'])
            names = {v: nme for v, nme in o[2]}
            regs = arm_regions(d, sws[0])
            table = {}
            for v, blocks in regs.items():
                if v == 'else':
                    continue
                cs = {d.term(x).get('name') for x in blocks if d.term(x)['k'] == 'call'}
                hit = [c for c in ('file_by_filename', 'symbol_by_name', 'list_services', 'not_found') if c in cs]
                table[names.get(v, v)] = hit
            for var, callee in want.items():
                got = table.get(var)
                ok = got is not None and (got == [callee] if callee else got == [])
                R.check(ok, 'C19.R5', 'dispatch:%s:%s' % (ver, var), site(d, sws[0]), '%s %s -> %r (required %r)' % (ver, var, got, callee))
            R.eq(sorted(table), sorted(want), 'C19.R5', 'dispatch:%s:variants' % ver, site(d, sws[0]), 'request kinds handled by %s' % ver)

    # ---------------------------------------------------------------- R6 every question of a stream gets its answer
    R.describe('C19.R6', 'the task behind server_reflection_info (v1 and v1alpha) hands every answer to the response channel with Sender::send(..).await (which waits for room; try_send on the one-slot channel drops the answer of a pipelined question and ends the stream), and after an Ok answer goes back to read the next question')
    with R.guard('C19.R6'):
        for ver in ('v1', 'v1alpha'):
            cands = [bd for bd in refl.bodies if ('server::%s::' % ver) in bd.path and bd.kind in ('coroutine', 'closure') and bd.calls(name='file_by_filename')]
            if len(cands) != 1:
                raise CheckError('ANCHOR-MISSING: dispatch body of %s (%d candidates)' % (ver, len(cands)))
            d = cands[0]
            R.saw(d)
            is_resp_tx = lambda t_: 'mpsc' in (t_.get('fn') or '') and 'Sender' in (t_.get('fn') or '')
            lossy = [(bb, t) for bb, t in d.calls() if is_resp_tx(t) and t.get('name') in ('try_send', 'send_timeout', 'try_reserve', 'try_reserve_owned', 'blocking_send')]
            sends = [(bb, t) for bb, t in d.calls() if is_resp_tx(t) and t.get('name') == 'send']
            for bb, t in lossy:
                R.bad('C19.R6', '%s:answer-sent-with-%s' % (ver, t.get('name')), site(d, bb), 'an answer is offered with %s: when the previous answer has not been taken yet it is dropped' % t.get('name'))
            R.check(len(sends) >= 1 and not lossy, 'C19.R6', '%s:answers-sent-with-send' % ver, site(d), 'Sender::send sites %d, lossy sends %d' % (len(sends), len(lossy)))
            nx = [bb for bb, t in d.calls(name='next')]
            def top_variant(t_):
                o_ = strip_refs(d.origin(t_['args'][1]))
                return o_[1].get('variant') if isinstance(o_, tuple) and o_[:1] == ('agg',) else None
            oks = [(bb, t) for bb, t in sends if top_variant(t) != 'Err']
            okl = bool(oks) and bool(nx) and all(any(n_ in d.reachable(bb) for n_ in nx) for bb, t in oks)
            R.check(okl, 'C19.R6', '%s:next-question-read-after-an-Ok-answer' % ver, site(d, oks[0][0]) if oks else site(d), 'send(Ok(..)) sites %d; each can reach the read of the next question: %r' % (len(oks), okl))
            # every outcome of the dispatch is sent: the Ok answer and the error status
            errs = [(bb, t) for bb, t in sends if top_variant(t) != 'Ok']
            R.check(bool(errs), 'C19.R6', '%s:error-status-sent' % ver, site(d), 'a send whose value can be the Err(status) of the dispatch: %d' % len(errs))
