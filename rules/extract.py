"""Fact extraction: run engine/factgen over the repository's current working tree.

Facts are cached under .cache/facts/<digest>/<config>/ where digest is a content hash of every
source file of the tree, so they are always those of the tree under test; any edit forces a fresh
extraction.  The cargo target dir is shared (dependencies stay compiled), and the workspace
members' fingerprints are removed before every extraction so cargo cannot skip the driver.
"""
import os, sys, hashlib, subprocess, json, shutil, time, fcntl, glob

SRC_EXT = ('.rs', '.toml', '.proto', '.lock', '.bin', '.pem', '.json')
SKIP_DIRS = {'target', '.git', 'node_modules'}

FEATURES_FULL = 'tonic/tls-ring,tonic/gzip,tonic/deflate,tonic/zstd'

CONFIGS = {
    # whole workspace, tonic with every compression + TLS (ring); feature-unified with what the
    # workspace members ask for
    'full': {'args': ['--workspace', '--features', FEATURES_FULL], 'only': None},
    # tonic alone with default features: the cfg(not(feature=..)) twins of gated items
    'plain': {'args': ['-p', 'tonic'], 'only': 'tonic'},
    # tonic-build as the `codegen` crate (which writes the checked-in generated sources) builds it: without `transport`
    'build_notransport': {'args': ['-p', 'tonic-build', '--no-default-features', '--features', 'prost,cleanup-markdown'], 'only': 'tonic_build'},
}


def matrix_configs():
    """thorough tier: tonic alone under (a) every subset of {gzip,deflate,zstd} with default features and
    (b) {no tls, tls-ring} x {default, server-only, channel-only} with all three compressions"""
    out = {}
    comps = ['gzip', 'deflate', 'zstd']
    for mask in range(8):
        cs = [c for i, c in enumerate(comps) if mask >> i & 1]
        name = 'm_comp_%s' % ('+'.join(cs) or 'none')
        args = ['-p', 'tonic']
        if cs:
            args += ['--features', ','.join(cs)]
        out[name] = {'args': args, 'only': 'tonic', 'comps': cs, 'tls': False, 'role': 'default'}
    for tls in (False, True):
        for role, base in (('default', None), ('server', 'server,codegen,prost'), ('channel', 'channel,codegen,prost')):
            feats = list(comps) + (['tls-ring'] if tls else [])
            name = 'm_role_%s_%s' % (role, 'tls' if tls else 'notls')
            args = ['-p', 'tonic']
            if base is not None:
                args += ['--no-default-features']
                feats = base.split(',') + feats
            args += ['--features', ','.join(feats)]
            out[name] = {'args': args, 'only': 'tonic', 'comps': comps, 'tls': tls, 'role': role}
    return out


def tree_digest(repo):
    h = hashlib.sha256()
    n = 0
    # the extractor itself is part of the key: a changed driver must not reuse old facts
    try:
        with open(os.path.join(os.path.dirname(os.path.abspath(__file__)), '..', 'engine', 'factgen', 'src', 'main.rs'), 'rb') as fh:
            h.update(hashlib.sha256(fh.read()).digest())
    except OSError:
        pass
    for root, dirs, files in os.walk(repo):
        dirs[:] = sorted(d for d in dirs if d not in SKIP_DIRS)
        rel = os.path.relpath(root, repo)
        if rel.startswith('interop/bin'):
            continue
        for f in sorted(files):
            if not f.endswith(SRC_EXT):
                continue
            p = os.path.join(root, f)
            try:
                with open(p, 'rb') as fh:
                    data = fh.read()
            except OSError:
                continue
            h.update(os.path.relpath(p, repo).encode())
            h.update(b'\0')
            h.update(hashlib.sha256(data).digest())
            n += 1
    return h.hexdigest()[:20], n


def sysroot():
    return subprocess.check_output(['rustc', '+nightly', '--print', 'sysroot'], text=True).strip()


def driver_path(verif):
    return os.path.join(verif, 'engine', 'factgen', 'target', 'release', 'factgen')


def build_driver(verif):
    d = os.path.join(verif, 'engine', 'factgen')
    env = dict(os.environ, CARGO_NET_OFFLINE='true')
    r = subprocess.run(['cargo', 'build', '--release', '--offline'], cwd=d, env=env,
                       stdout=subprocess.PIPE, stderr=subprocess.STDOUT, text=True)
    if r.returncode != 0 or not os.path.exists(driver_path(verif)):
        sys.stderr.write(r.stdout)
        raise RuntimeError('cannot build factgen driver')


def workspace_members(repo):
    env = dict(os.environ, CARGO_NET_OFFLINE='true')
    out = subprocess.check_output(['cargo', 'metadata', '--offline', '--no-deps', '--format-version', '1'],
                                  cwd=repo, env=env, text=True, stderr=subprocess.DEVNULL)
    return [p['name'] for p in json.loads(out)['packages']]


class Lock:
    def __init__(self, path):
        self.path = path

    def __enter__(self):
        os.makedirs(os.path.dirname(self.path), exist_ok=True)
        self.fh = open(self.path, 'w')
        fcntl.flock(self.fh, fcntl.LOCK_EX)
        return self

    def __exit__(self, *a):
        fcntl.flock(self.fh, fcntl.LOCK_UN)
        self.fh.close()


def ensure(repo, verif, cfgname, cfg=None, log=None):
    """returns (facts_dir, digest, seconds_spent_extracting)"""
    cfg = cfg or CONFIGS[cfgname]
    cache = os.path.join(verif, '.cache')
    digest, nfiles = tree_digest(repo)
    out = os.path.join(cache, 'facts', digest, cfgname)
    stamp = os.path.join(out, 'DONE')
    if os.path.exists(stamp):
        return out, digest, 0.0
    t0 = time.time()
    with Lock(os.path.join(cache, 'lock')):
        if os.path.exists(stamp):
            return out, digest, 0.0
        if not os.path.exists(driver_path(verif)):
            build_driver(verif)
        if os.path.isdir(out):
            shutil.rmtree(out)
        os.makedirs(out)
        target = os.path.join(cache, 'target')
        os.makedirs(target, exist_ok=True)
        # cargo must not replay cached results for workspace members
        fp = os.path.join(target, 'debug', '.fingerprint')
        if os.path.isdir(fp):
            members = workspace_members(repo)
            for m in members:
                for d in glob.glob(os.path.join(fp, m + '-*')):
                    # only exact package-name matches: <name>-<16 hex>
                    base = os.path.basename(d)
                    if base[:-17] == m:
                        shutil.rmtree(d, ignore_errors=True)
        env = dict(os.environ)
        sr = sysroot()
        env['LD_LIBRARY_PATH'] = sr + '/lib' + (':' + env['LD_LIBRARY_PATH'] if env.get('LD_LIBRARY_PATH') else '')
        env['RUSTFLAGS'] = '-Zmir-opt-level=0 -Awarnings'
        env['RUSTC_WORKSPACE_WRAPPER'] = driver_path(verif)
        env['FACTGEN_OUT'] = out
        env['CARGO_TARGET_DIR'] = target
        env['CARGO_NET_OFFLINE'] = 'true'
        env['RUSTC_ICE'] = '0'
        env.pop('RUSTC_WRAPPER', None)
        if cfg.get('only'):
            env['FACTGEN_ONLY'] = cfg['only']
        else:
            env.pop('FACTGEN_ONLY', None)
        cmd = ['cargo', '+nightly', 'check', '--offline'] + cfg['args']
        r = subprocess.run(cmd, cwd=repo, env=env, stdout=subprocess.PIPE, stderr=subprocess.STDOUT, text=True)
        if r.returncode != 0:
            tail = '\n'.join(l[:300] for l in r.stdout.splitlines() if 'process didn' not in l)[-6000:]
            shutil.rmtree(out, ignore_errors=True)
            raise RuntimeError('fact extraction failed (config %s): cargo exit %d\n%s' % (cfgname, r.returncode, tail))
        files = glob.glob(os.path.join(out, '*.json'))
        if not files:
            shutil.rmtree(out, ignore_errors=True)
            raise RuntimeError('fact extraction produced no fact files (config %s)' % cfgname)
        with open(stamp, 'w') as fh:
            fh.write(json.dumps({'digest': digest, 'files': len(files), 'source_files': nfiles, 'cmd': cmd, 'repo': os.path.abspath(repo)}))
        prune(os.path.join(cache, "facts"), keep=48, protect=digest)
    return out, digest, time.time() - t0


def prune(root, keep, protect):
    """drop old fact dirs; scratch-copy digests go first, the newest digest of /repo itself is never dropped"""
    try:
        ds = [(os.path.getmtime(os.path.join(root, d)), d) for d in os.listdir(root)]
    except OSError:
        return
    ds.sort(reverse=True)

    def is_repo(d):
        for cfg in ('full', 'plain'):
            try:
                with open(os.path.join(root, d, cfg, 'DONE')) as fh:
                    if json.load(fh).get('repo') == '/repo':
                        return True
            except (OSError, ValueError):
                pass
        return False
    newest_repo = next((d for _, d in ds if is_repo(d)), None)
    import time as _time
    now = _time.time()
    for mt, d in ds[keep:]:
        # never drop what was written in the last hour: another check running at the same time may still be reading it
        if d != protect and d != newest_repo and now - mt > 3600:
            shutil.rmtree(os.path.join(root, d), ignore_errors=True)
