"""C06 — message size limits are enforced exactly and without collateral loss."""
import re
from common import *
import mirlib

META = {
    'explanation': 'The limit tests of the decoder and encoder are located by operand origin (length read from the prefix / slice '
                   'length minus HEADER_SIZE vs. unwrap_or(max, DEFAULT)); operator, operand order, status constructor, default '
                   'constants and dominance over reserve / the prefix write are checked. In EncodedBytes::poll_next every error '
                   'return must be guarded by an empty output buffer or stash the error and flush complete frames first. The limit '
                   'fields are traced from the configuration setters to the decoder/encoder constructors on both roles.',
    'exhaustive': True,
}


LIMIT_TY = r'^(std::option::)?Option<usize>$'


def limit_pos(tonic, fn_suffix):
    """0-based position, among the call arguments, of the (unique) Option<usize> parameter of a tonic function"""
    cb = tonic.body(fn_suffix)
    return param_of_type(cb, LIMIT_TY) - 1


def limit_at_call(tonic, caller, call_term, fn_suffix):
    """the caller-side value that reaches the callee's message-size limit (a parameter, or the field of a settings struct)"""
    cb = tonic.body(fn_suffix)
    via = loc_through_call(caller, call_term, loc_of_type(tonic, cb, LIMIT_TY))
    if via is None:
        return ('unknown',)
    if via[0] == 'loc':
        t = ('arg', via[1][0], None)
        for f in via[1][1]:
            t = ('field', t, f)
        return t
    return via[1]


def is_limit_param(body, term, tonic=None):
    t = strip_refs(term)
    if bool(t) and t[0] == 'arg' and re.search(LIMIT_TY, body.ty(t[1])) is not None:
        return True
    lo = loc_of(t)
    return tonic is not None and lo is not None and lo in locs_of_type(tonic, body, LIMIT_TY)


def _direct_use(t, is_limit, depth=0):
    """the term IS the limit, or simple arithmetic / a conversion / min / max over it - as opposed to a value that merely depends
    on a path on which the limit was looked at (the result of a helper that also builds the error message)"""
    t = strip_casts(strip_refs(t))
    if not isinstance(t, tuple) or not t or depth > 6:
        return False
    if t[0] == 'const':
        return False
    if is_limit(t):
        return True
    if t[0] == 'bin':
        return _direct_use(t[2], is_limit, depth + 1) or _direct_use(t[3], is_limit, depth + 1)
    if t[0] == 'un':
        return _direct_use(t[2], is_limit, depth + 1)
    if is_call(t) and t[3] in ('min', 'max', 'from', 'into', 'try_from', 'try_into', 'unwrap', 'unwrap_or', 'expect', 'saturating_mul', 'saturating_add', 'saturating_sub', 'checked_mul', 'checked_add', 'clone'):
        return any(_direct_use(a, is_limit, depth + 1) for a in t[2])
    return False


def run(R):
    tonic = R.crate('tonic')
    W = spec('wire')

    # ---------------------------------------------------------------- R1 decode side
    R.describe('C06.R1', 'decode_chunk: limit = max.unwrap_or(4 MiB); `len > limit` (strict) -> OUT_OF_RANGE; the false edge dominates reserve(len) and the ReadBody state; nothing len-sized is reserved before the test')
    with R.guard('C06.R1'):
        b = tonic.body('decode::StreamingInner::decode_chunk')
        R.saw(b)
        R.eq(tonic.const('codec::DEFAULT_MAX_RECV_MESSAGE_SIZE').get('v'), W['default_max_recv'], 'C06.R1', 'default-recv-const', 'tonic/src/codec/mod.rs', 'DEFAULT_MAX_RECV_MESSAGE_SIZE')
        test = None
        has_prefix = lambda x: term_contains(x, lambda y: is_call(y, name='get_u32'))
        for bb in sorted(b.live_blocks()):
            lt = limit_test(b, bb, has_prefix)
            # `buf.remaining() < len` asks whether the payload has arrived; the limit test compares the length with something else
            if lt is not None and not (is_call(strip_refs(lt['limit'])) and strip_refs(lt['limit'])[3] in ('remaining', 'len')):
                test = (bb, lt)
        if test is None:
            raise CheckError('UNRECOGNISED: no comparison of the prefix length with a limit in decode_chunk')
        tb, lt = test
        R.check(lt['exact'], 'C06.R1', 'operator', site(b, tb), 'limit test %s(%s, %s): a length equal to the limit is accepted, one byte more is rejected: %r' % (lt['op'], show(lt['len'])[:60], show(lt['limit'])[:60], lt['exact']))
        lim = strip_refs(lt['limit'])
        oklim = option_or_default(lim, 'max_message_size', W['default_max_recv'])
        if not oklim and lim[0] == 'field' and arg_root(lim) == 1:
            # the default was resolved once, in the constructor: StreamingInner{<field>: max_message_size.unwrap_or(DEFAULT)}
            snb = tonic.body('codec::decode::Streaming::<T>::new')
            for bb_, i_, p_, a_, ops_ in mirlib.aggregates(snb, 'decode::StreamingInner'):
                fo_ = agg_field_operand(snb, a_, ops_, lim[2])   # the field itself, or a field of a limits struct stored in it
                if fo_ is not None:
                    iv = strip_refs(snb.origin(fo_[0]))
                    oklim = (is_call(iv, name='unwrap_or') and is_limit_param(snb, iv[2][0]) and const_val(iv[2][1]) == W['default_max_recv'])
        R.check(oklim, 'C06.R1', 'limit-source', site(b, tb), 'limit = %s (configured limit or the 4 MiB default)' % show(lim))
        # everything that can follow the reject edge (path-sensitively: a helper's Err is followed through `?`)
        rej = b.reach_ps(lt['reject'], removed={tb}) if lt['reject'] else set()
        over = [(bb, i, ops) for bb, i, p, a, ops in mirlib.aggregates(b, 'result::Result', 'Err') if bb in rej]
        R.check(len(over) == 1, 'C06.R1', 'oversize-err', site(b, tb), 'Err values built after the reject edge: %d' % len(over))
        for bb, i, ops in over:
            R.check(is_call(strip_refs(b.origin(ops[0])), pat='Status::out_of_range'), 'C06.R1', 'oversize-out_of_range', site(b, bb, i), 'status = %s' % show(b.origin(ops[0]))[:100])
        oks = [bb for bb, i, p, a, ops in mirlib.aggregates(b, 'result::Result', 'Ok') if p['l'] == 0 and bb in rej]
        R.check(not oks, 'C06.R1', 'oversize-never-ok', site(b, oks[0]) if oks else site(b, tb), 'no Ok(..) return is reachable from the reject edge: %r' % (not oks))
        # reserve and ReadBody unreachable from the reject edge, and not reachable around the test
        around = b.reach_ps(0, removed={tb})
        for rb_, rt in b.calls(name='reserve'):
            R.check(rb_ not in rej and rb_ not in around, 'C06.R1', 'reserve-after-test', site(b, rb_), 'reserve(%s) is reached only through the accept edge of the limit test' % show(b.origin(rt['args'][1]))[:60])
        for nm in ('with_capacity', 'resize', 'reserve_exact'):
            for cb_, ct in b.calls(name=nm):
                R.check(cb_ not in rej and cb_ not in around, 'C06.R1', '%s-after-test' % nm, site(b, cb_), '%s guarded by the limit test' % nm)
        rbs = mirlib.aggregates(b, 'decode::State', 'ReadBody')
        for bb, i, p, a, ops in rbs:
            R.check(bb not in rej and bb not in around, 'C06.R1', 'readbody-after-test', site(b, bb, i), 'State::ReadBody is entered only through the accept edge of the limit test')
            ln = b.origin(ops[a['fields'].index('len')])
            R.check(term_contains(ln, lambda x: is_call(x, name='get_u32')), 'C06.R1', 'readbody-len-from-prefix', site(b, bb, i), 'ReadBody.len = %s' % show(ln)[:80])
        R.floor('C06.R1', 'ReadBody sites', len(rbs), 1)
        # "if and only if": the announced length against the limit is the only thing that refuses a message for its size — a second
        # comparison with the limit (e.g. of the decompressed length) refuses messages whose announced length is within the limit
        lim_field = strip_refs(lt['limit'])
        same_limit = lambda x: strip_refs(x) == lim_field or (show(strip_refs(x)) == show(lim_field))
        others = []
        for bb2 in sorted(b.live_blocks()):
            t2 = b.term(bb2)
            if t2['k'] != 'switch' or bb2 == tb:
                continue
            o2 = mirlib.norm_cmp(b.origin(t2['on']))
            while o2 and o2[0] == 'un' and o2[1] == 'Not':
                o2 = mirlib.norm_cmp(o2[2])
            if o2 and o2[0] == 'bin' and o2[1] in ('Gt', 'Ge', 'Lt', 'Le') and (same_limit(o2[2]) or same_limit(o2[3])):
                others.append(bb2)
        oor = [(bb2, t2) for bb2, t2 in b.calls(pat='Status::out_of_range')]
        R.check(not others and len(oor) == 1, 'C06.R1', 'single-limit-test', site(b, others[0]) if others else site(b, tb),
                'the limit is compared once, with the announced length: other comparisons with the limit %d, Status::out_of_range sites %d' % (len(others), len(oor)))
        # .. and the limit goes nowhere else: handed to the decompressor (Read::take(limit), a capped output buffer) it silently becomes a
        # limit on the decompressed size - a message within the limit on the wire is cut off and fails to decode
        leaks = []
        for bb2, t2 in b.calls():
            if t2.get('name') in ('out_of_range',) or 'fmt::' in (t2.get('fn') or '') or t2.get('mac') or bb2 in rej:
                continue
            for a2 in t2['args']:
                o2 = b.origin(a2)
                if _direct_use(o2, same_limit):
                    leaks.append((bb2, t2))
                    break
        # the comparison itself and the resolution of the default are not "uses"
        leaks = [(bb2, t2) for bb2, t2 in leaks if t2.get('name') not in ('unwrap_or', 'unwrap_or_else', 'unwrap_or_default', 'gt', 'lt', 'ge', 'le', 'cmp', 'partial_cmp', 'min', 'max')]
        R.check(not leaks, 'C06.R1', 'limit-used-for-the-wire-length-only', site(b, leaks[0][0]) if leaks else site(b, tb),
                'calls that receive the size limit besides the test and its error message: %r' % [short(t2.get('fn') or '?')[-50:] for bb2, t2 in leaks])
        R.floor('C06.R1', 'reserve sites', len(b.calls(name='reserve')), 1)
        # the test happens as soon as the prefix is read: get_u32 -> test with no body poll / yield in between (same function, straight line)
        gb, gt = b.call1(name='get_u32')
        R.check(b.dominates(gb, tb) and not any(b.term(x)['k'] == 'call' and b.term(x).get('name') in ('reserve', 'poll_frame') for x in b.reachable(gb, removed={tb}) - {gb} if b.dominates(x, tb)), 'C06.R1', 'test-right-after-prefix', site(b, tb), 'get_u32 dominates the limit test with no reserve in between')

    # ---------------------------------------------------------------- R2 encode side
    R.describe('C06.R2', 'finish_encoding: `len > limit` -> OUT_OF_RANGE, `len > u32::MAX` -> RESOURCE_EXHAUSTED, both before the prefix is written; default usize::MAX')
    with R.guard('C06.R2'):
        b = tonic.body('codec::encode::finish_encoding')
        R.saw(b)
        R.eq(tonic.const('codec::DEFAULT_MAX_SEND_MESSAGE_SIZE').get('v'), W['default_max_send'], 'C06.R2', 'default-send-const', 'tonic/src/codec/mod.rs', 'DEFAULT_MAX_SEND_MESSAGE_SIZE')
        slice_n = param_of_type(b, r'^&mut \[u8\]$')
        lim_loc = loc_of_type(tonic, b, LIMIT_TY)
        is_paylen = lambda x: is_payload_len(x, slice_n, W['header_size'])
        writes = prefix_layout(b)
        R.floor('C06.R2', 'prefix writes', len(writes), 2)
        # (a) the configured limit: payload_len <= limit accepted, else OUT_OF_RANGE
        # (b) the 4 GiB bound: `len > u32::MAX as usize` or `u32::try_from(len)` failing (possibly .map_err(..)?)
        def as_try_from(o):
            tf = strip_refs(o[1]) if o and o[0] == 'discr' else None
            for _ in range(3):
                if is_call(tf) and tf[3] in ('branch', 'map_err') and tf[2]:
                    tf = strip_refs(tf[2][0])
            if is_call(tf, name='try_from') and 'u32' in str(tf[4].get('resolved') or tf[4].get('ga')) and is_paylen(tf[2][0]):
                return tf
            return None
        prow = mirlib.path_rows(b)
        R.floor('C06.R2', 'feasible paths', len(prow), 3)
        lim_blocks, u32_blocks = {}, {}
        for bb in sorted(b.live_blocks()):
            lt = limit_test(b, bb, is_paylen)
            if lt is not None and is_call(strip_refs(lt['limit']), name='unwrap_or'):
                lim_blocks[bb] = lt
            elif lt is not None and const_val(strip_casts(lt['limit'])) == W['u32_max']:
                u32_blocks[bb] = dict(lt, how='compare')
        for cons, path in prow:
            for k, bb in enumerate(path[:-1]):
                t = b.term(bb)
                if t['k'] == 'switch' and bb not in u32_blocks and bb not in lim_blocks:
                    tf = as_try_from(mirlib.simplify(b.origin_on_path(t['on'], path)))
                    if tf is not None:
                        edges = b.switch_edges(bb)
                        okv = [tg for tg, vals in edges.items() if vals == [0]]
                        errv = [tg for tg, vals in edges.items() if vals != [0]]
                        u32_blocks[bb] = dict(accept=okv, reject=errv, exact=True, op='u32::try_from', len=tf[2][0], limit=('const', W['u32_max'], {}), how='try_from')
        lim_t = sorted(lim_blocks.items())[-1] if lim_blocks else None
        u32_t = sorted(u32_blocks.items())[-1] if u32_blocks else None
        R.check(lim_t is not None and u32_t is not None, 'C06.R2', 'two-tests', site(b), 'limit test: %r, u32-range test: %r' % (lim_t is not None, u32_t is not None))
        for tt, nm in ((lim_t, 'limit'), (u32_t, 'u32')):
            if tt is None:
                continue
            tb, lt = tt
            R.check(lt['exact'], 'C06.R2', '%s:operator' % nm, site(b, tb), 'test %s(%s, %s): exactly the lengths above the bound are refused: %r' % (lt['op'], show(lt['len'])[:60], show(lt['limit'])[:40], lt['exact']))
            if nm == 'limit':
                lim = strip_refs(lt['limit'])
                R.check(is_call(lim, name='unwrap_or') and is_loc(lim[2][0], lim_loc) and const_val(lim[2][1]) == W['default_max_send'], 'C06.R2', 'limit-source', site(b, tb), 'limit = %s' % show(lim))
        # outcome table by feasible path: limit refused -> Err(out_of_range), nothing written; limit accepted and u32 refused ->
        # Err(resource_exhausted), nothing written; both accepted -> Ok(()) with both prefix writes
        seen_out = set()
        for cons, path in prow:
            verdict = {}
            for k, bb in enumerate(path[:-1]):
                for nm, blocks in (('limit', lim_blocks), ('u32', u32_blocks)):
                    if bb in blocks:
                        verdict[nm] = 'acc' if path[k + 1] in blocks[bb]['accept'] else ('rej' if path[k + 1] in blocks[bb]['reject'] else '?')
            val = mirlib.simplify(b.ret_on_path(path))
            is_ok = val and val[0] == 'agg' and val[1].get('variant') == 'Ok'
            cts = set() if is_ok else status_ctors_in(tonic, val)
            wr = [d for d in writes if d['bb'] in path]
            st = site(b, path[-1])
            lim_v, u32_v = verdict.get('limit'), verdict.get('u32')
            seen_out.add((lim_v, u32_v, 'ok' if is_ok else tuple(sorted(cts))))
            if lim_v != 'acc':
                R.check(lim_v == 'rej' and not is_ok, 'C06.R2', 'limit:err', st, 'a path that did not pass the limit test as accepted (%r) ends in an error: %r' % (lim_v, not is_ok))
                R.check(cts == {'out_of_range'}, 'C06.R2', 'limit:out_of_range', st, 'status built by %r: %s' % (sorted(cts), show(val)[:100]))
                for k, d in enumerate(wr):
                    R.bad('C06.R2', 'limit:before-prefix-write-%d' % k, site(b, d['bb']), 'prefix write (%s at offset %s) on a path where the limit test did not accept' % (d['how'], d['off']))
            elif u32_v != 'acc':
                R.check(u32_v == 'rej' and not is_ok, 'C06.R2', 'u32:err', st, 'a path accepted by the limit but not by the 4 GiB test (%r) ends in an error: %r' % (u32_v, not is_ok))
                R.check(cts == {'resource_exhausted'}, 'C06.R2', 'u32:resource_exhausted', st, 'status built by %r: %s' % (sorted(cts), show(val)[:100]))
                for k, d in enumerate(wr):
                    R.bad('C06.R2', 'u32:before-prefix-write-%d' % k, site(b, d['bb']), 'prefix write (%s at offset %s) on a path where the 4 GiB test did not accept' % (d['how'], d['off']))
            else:
                R.check(is_ok and len(wr) == len(writes), 'C06.R2', 'accepted:ok-with-prefix', st, 'both tests accepted: Ok(()) %r with %d of %d prefix writes' % (is_ok, len(wr), len(writes)))
        R.check(('acc', 'acc', 'ok') in seen_out and any(o[0] == 'rej' for o in seen_out) and any(o[:2] == ('acc', 'rej') for o in seen_out), 'C06.R2', 'outcome-rows', site(b), 'outcome rows: %r' % sorted(map(str, seen_out)))
        R.check(lim_t is not None and is_paylen(lim_t[1]['len']), 'C06.R2', 'len=slice-minus-header', site(b), 'payload length = slice length - HEADER_SIZE')

    # ---------------------------------------------------------------- R3 no collateral loss
    R.describe('C06.R3', 'EncodedBytes::poll_next: an error item is returned only with an empty output buffer (otherwise it is stashed and the buffered frames are flushed first); after a failed encode_item the partial frame is cut off before flushing')
    with R.guard('C06.R3'):
        b = tonic.body(re.compile(r'codec::encode::EncodedBytes<T, U> as .*Stream>::poll_next$'))
        R.saw(b)
        # every place an Err item is built (where it is built decides under which guards it can be returned)
        err_rets = [(bb, b.origin(ops[0])) for bb, i, p, a, ops in returned_aggs(b, 'result::Result', 'Err')]
        for bb in writers_of(b, 0):
            for w in block_writes(b, bb, 0):
                if w[0] == 'call' and w[3] == 'from_residual':
                    err_rets.append((bb, ('call', 'from_residual', [], 'from_residual', None)))
        R.floor('C06.R3', 'error returns', len(err_rets), 2)
        for bb, payload in err_rets:
            src = 'stash' if term_contains(payload, lambda x: is_call(x, name='take')) else ('encode_item' if term_contains(payload, lambda x: is_call(x, name='encode_item')) else ('source' if term_contains(payload, lambda x: is_call(x, name='poll_next')) else '?'))
            gs = b.edge_guards(bb)
            empt = any(is_call(strip_refs(tm), name='is_empty') and mentions_local_named(b, tm, encode_buf_field(tonic)) and (vals == ['else'] or 0 not in vals) for s, vals, tm in gs)
            if src == 'stash':
                # replay of a stashed error happens before anything is polled or encoded
                sp = b.calls(pat='Stream::poll_next')
                R.check(all(not b.dominates(x, bb) for x, _ in sp), 'C06.R3', 'err-return:stash', site(b, bb), 'the stashed error is returned before the source is polled')
            else:
                R.check(empt, 'C06.R3', 'err-return:%s' % src, site(b, bb),
                        'error from %s returned with buffered frames possibly pending: guards %r. Required: buf.is_empty(). '
                        '(messages m1 (small) and m2 (over the limit) ready together: the client gets OUT_OF_RANGE and never m1)' % (src, [(v, show(tm)[:60]) for s, v, tm in gs]))
        # stash path: error stored, then whole buffer yielded
        stores = [(bb, i) for bb, i, st in mirlib.assignments(b, lambda st: st['p'].get('pr') == ['*'] and 'error' in show(b.origin(st['p']['l'])))]
        R.floor('C06.R3', 'stash stores', len(stores), 1)
        for bb, i in stores:
            nxt = [x for x, t, w_ in whole_buffer_takes(b) if b.dominates(bb, x)]
            R.check(bool(nxt), 'C06.R3', 'stash-then-flush', site(b, bb, i), 'a stored error is followed by flushing the buffer (split_to sites dominated: %d)' % len(nxt))
        # failure arm of encode_item: truncate to the offset saved before the call
        check_partial_frame_cut(R, tonic, 'C06.R3')
        # every split_to yields the whole buffer
        for x, t, w_ in whole_buffer_takes(b):
            a = strip_refs(b.origin(t['args'][1])) if len(t['args']) > 1 else ('whole',)
            R.check(w_ and mentions_local_named(b, b.origin(t['args'][0]), encode_buf_field(tonic)), 'C06.R3', 'whole-buffer-yield', site(b, x), 'split_to(%s)' % show(a)[:60])

        # the stashed OUT_OF_RANGE is only delivered if the body is polled again after the flushed frames: is_end_stream() must not say
        # "done" from the source's end alone (hyper then ends the request after the last DATA frame and the oversized message is
        # dropped silently) - it reports the flag that is set when the final outcome has been produced
        ie = tonic.body(re.compile(r'codec::encode::EncodeBody<T, U> as http_body::Body>::is_end_stream$'))
        R.saw(ie)
        rt = mirlib.returned_terms(ie)
        R.check(len(rt) == 1 and field_names(rt[0][1])[-1:] == ['is_end_stream'], 'C06.R3', 'is_end_stream()=final-outcome-flag', site(ie), 'returns %s' % (show(rt[0][1])[:80] if rt else None))

    # ---------------------------------------------------------------- R4 plumbing
    R.describe('C06.R4', 'limit plumbing: server/client configuration fields reach Streaming::new_request/new_response (decode) and map_response/EncodeBody (encode); encode and decode limits are not swapped')
    with R.guard('C06.R4'):
        # the encode limit of every server response: map_response hands EncodeBody::new_server either its own parameter (then every call
        # site passes self.max_encoding_message_size) or the field itself
        mr = tonic.body('server::grpc::Grpc::<T>::map_response')
        nb, nt = mr.call1(name='new_server')
        a = strip_refs(mr.origin(nt['args'][limit_pos(tonic, 'codec::encode::EncodeBody::<T, U>::new_server')]))
        la = loc_of(a)
        n = 0
        if la is not None and not la[1]:
            R.check(is_limit_param(mr, a), 'C06.R4', 'srv:map_response->encoder', site(mr, nb), 'EncodeBody::new_server limit = %s' % show(a))
            for h in ('unary', 'server_streaming', 'client_streaming', 'streaming'):
                co = tonic.body('server::grpc::Grpc::<T>::%s::{closure#0}' % h)
                R.saw(co)
                for mb, mt in co.calls(pat='Grpc::<T>::map_response'):
                    n += 1
                    names = field_names(co.origin(mt['args'][la[0] - 1]))
                    R.check(names[-1:] == ['max_encoding_message_size'], 'C06.R4', 'srv:%s:encode-limit' % h, site(co, mb), 'max_message_size argument = %s' % show(co.origin(mt['args'][la[0] - 1])))
        else:
            R.check(field_names(a)[-1:] == ['max_encoding_message_size'] and arg_root(a) == 1, 'C06.R4', 'srv:map_response->encoder', site(mr, nb), 'EncodeBody::new_server limit = %s (self.max_encoding_message_size)' % show(a))
            for h in ('unary', 'server_streaming', 'client_streaming', 'streaming'):
                co = tonic.body('server::grpc::Grpc::<T>::%s::{closure#0}' % h)
                R.saw(co)
                for mb, mt in co.calls(pat='Grpc::<T>::map_response'):
                    n += 1
                    R.ok('C06.R4', 'srv:%s:encode-limit' % h, site(co, mb), 'map_response reads self.max_encoding_message_size itself')
        R.floor('C06.R4', 'map_response sites', n, 4)
        for nm in ('map_request_unary::{closure#0}', 'map_request_streaming'):
            mb_ = tonic.body('server::grpc::Grpc::<T>::' + nm)
            fam = [mb_] + [c for c in tonic.children(mb_) if c.kind == 'closure']
            for fb in fam:
                for bb, t in fb.calls(name='new_request'):
                    nrp = limit_pos(tonic, 'codec::decode::Streaming::<T>::new_request')
                    names = field_names(fb.origin(t['args'][nrp]))
                    R.check(names[-1:] == ['max_decoding_message_size'], 'C06.R4', 'srv:%s:decode-limit' % nm.split(':')[0], site(fb, bb), 'limit = %s' % show(fb.origin(t['args'][nrp])))
        for ctor, idx in (('new_server', 4), ('new_client', 3)):
            cb = tonic.body('codec::encode::EncodeBody::<T, U>::' + ctor)
            R.saw(cb)
            bb, t = cb.call1(pat='EncodedBytes', name='new')
            a = cb.origin(t['args'][limit_pos(tonic, 'codec::encode::EncodedBytes::<T, U>::new')])
            R.check(is_limit_param(cb, a), 'C06.R4', 'EncodeBody::%s->EncodedBytes' % ctor, site(cb, bb), 'limit = %s' % show(a))
        eb = tonic.body('codec::encode::EncodedBytes::<T, U>::new')
        for bb, i, p, a, ops in mirlib.aggregates(eb, 'encode::EncodedBytes'):
            fo = agg_field_operand(eb, a, ops, 'max_message_size')
            if fo is None:
                raise CheckError('UNRECOGNISED: EncodedBytes::new stores no max_message_size field (directly or in a sub-struct)')
            v = eb.origin(fo[0])
            R.check(is_limit_param(eb, v), 'C06.R4', 'EncodedBytes.max_message_size', site(eb, bb, i), 'field = %s' % show(v))
        pn = tonic.body(re.compile(r'codec::encode::EncodedBytes<T, U> as .*Stream>::poll_next$'))
        bb, t = pn.call1(name='encode_item')
        lv = limit_at_call(tonic, pn, t, 'codec::encode::encode_item')
        R.check(field_names(lv)[-1:] == ['max_message_size'], 'C06.R4', 'poll_next->encode_item', site(pn, bb), 'limit = %s' % show(lv))
        ei = tonic.body('codec::encode::encode_item')
        bb, t = ei.call1(name='finish_encoding')
        a = limit_at_call(tonic, ei, t, 'codec::encode::finish_encoding')
        R.check(is_limit_param(ei, a, tonic), 'C06.R4', 'encode_item->finish_encoding', site(ei, bb), 'limit = %s' % show(a))
        # decoder constructors
        for ctor, idx in (('new_request', 3), ('new_response', 4)):
            cb = tonic.body('codec::decode::Streaming::<T>::' + ctor)
            bb, t = cb.call1(pat='Streaming::<T>::new')
            a = cb.origin(t['args'][limit_pos(tonic, 'codec::decode::Streaming::<T>::new')])
            R.check(is_limit_param(cb, a), 'C06.R4', 'Streaming::%s->new' % ctor, site(cb, bb), 'limit = %s' % show(a))
        sn = tonic.body('codec::decode::Streaming::<T>::new')
        for bb, i, p, a, ops in mirlib.aggregates(sn, 'decode::StreamingInner'):
            lf = [f_ for f_ in a['fields'] if f_ == 'max_message_size'] or [f_ for f_, o_ in zip(a['fields'], ops) if term_contains(sn.origin(o_), lambda x: isinstance(x, tuple) and x and x[0] == 'arg' and re.search(LIMIT_TY, sn.ty(x[1])) is not None)]
            v = strip_refs(sn.origin(ops[a['fields'].index(lf[0])])) if lf else ('x',)
            if v and v[0] == 'agg' and v[1].get('kind') == 'adt' and v[2]:
                # bundled in a limits struct built here: the member that carries the configured limit
                mem_ = [strip_refs(x_) for x_ in v[2] if term_contains(x_, lambda y: isinstance(y, tuple) and y and y[0] == 'arg' and re.search(LIMIT_TY, sn.ty(y[1])) is not None)]
                v = mem_[0] if len(mem_) == 1 else v
            R.check(is_limit_param(sn, v) or (is_call(v, name='unwrap_or') and is_limit_param(sn, v[2][0])), 'C06.R4', 'StreamingInner.max_message_size', site(sn, bb, i), 'field %s = %s' % (lf[0] if lf else None, show(v)))
        # client
        st = tonic.body('client::grpc::Grpc::<T>::streaming::{closure#0}')
        fam = [st] + [c for c in tonic.bodies if c.path.startswith(st.path + '::') and c.kind == 'closure']
        for fb in fam:
            for bb, t in fb.calls(name='new_client'):
                ncp = limit_pos(tonic, 'codec::encode::EncodeBody::<T, U>::new_client')
                names = field_names(fb.origin(t['args'][ncp]))
                R.check(names[-1:] == ['max_encoding_message_size'], 'C06.R4', 'cli:encode-limit', site(fb, bb), 'limit = %s' % show(fb.origin(t['args'][ncp])))
        cr = tonic.body('client::grpc::Grpc::<T>::create_response')
        fam = [cr] + [c for c in tonic.children(cr) if c.kind == 'closure']
        k = 0
        for fb in fam:
            for bb, t in fb.calls(name='new_response'):
                k += 1
                nrp2 = limit_pos(tonic, 'codec::decode::Streaming::<T>::new_response')
                names = field_names(resolve_env(tonic, fb, fb.origin(t['args'][nrp2])))
                R.check(names[-1:] == ['max_decoding_message_size'], 'C06.R4', 'cli:decode-limit', site(fb, bb), 'limit = %s' % show(fb.origin(t['args'][nrp2])))
        R.floor('C06.R4', 'client new_response sites', k, 1)
        # every decoder the client builds for a response — also for a response whose headers already carry grpc-status —
        # gets the configured limit: follow each Streaming constructor called here down to Streaming::new
        def limit_source(cb_, depth=0):
            """index of the argument of constructor body cb_ that reaches Streaming::new's max_message_size, or None"""
            if cb_.path.endswith('Streaming::<T>::new'):
                return param_of_type(cb_, LIMIT_TY)
            for bb_, t_ in cb_.calls(pat='codec::decode::Streaming'):
                if not (t_.get('name') or '').startswith('new') or depth > 4:
                    continue
                callee = [x for x in tonic.bodies if x.kind == 'fn' and x.path.endswith('Streaming::<T>::' + t_['name'])]
                if not callee:
                    continue
                idx = limit_source(callee[0], depth + 1)
                if idx is None or idx - 1 >= len(t_['args']):
                    return None
                a_ = cb_.origin(t_['args'][idx - 1])
                return a_[1] if a_[0] == 'arg' else None
            return None
        kk = 0
        for fb in fam:
            for bb, t in fb.calls(pat='codec::decode::Streaming'):
                if not (t.get('name') or '').startswith('new'):
                    continue
                kk += 1
                callee = [x for x in tonic.bodies if x.kind == 'fn' and x.path.endswith('Streaming::<T>::' + t['name'])]
                idx = limit_source(callee[0]) if callee else None
                lim = resolve_env(tonic, fb, fb.origin(t['args'][idx - 1])) if idx and idx - 1 < len(t['args']) else None
                ok = lim is not None and field_names(lim)[-1:] == ['max_decoding_message_size']
                R.check(ok, 'C06.R4', 'cli:every-decoder-gets-limit:%s' % t['name'], site(fb, bb),
                        'Streaming::%s: the value reaching Streaming::new(max_message_size) is %s' % (t['name'], show(lim) if lim is not None else 'a constant inside the constructor (the 4 MiB default replaces the configured limit)'))
        R.floor('C06.R4', 'client decoder constructor sites', kk, 2)
        # Clone of the client keeps every configuration field (hand-written impl)
        cc = tonic.body(re.compile(r'<client::grpc::Grpc<T> as std::clone::Clone>::clone$'))
        R.saw(cc)
        nf = 0
        for ag in mirlib.aggregates(cc, 'client::grpc::GrpcConfig'):
            nf += copy_field_agreement(R, 'C06.R4', 'cli:clone', cc, ag)
        if nf == 0:
            # .. or the configuration is cloned as a whole: self.config.clone() with Clone derived (or written) for GrpcConfig
            whole = [(bb, t) for bb, t in cc.calls(name='clone') if field_names(cc.origin(t['args'][0]))[-1:] == ['config']]
            gcl = [b_ for b_ in tonic.bodies if b_.kind == 'fn' and re.search(r'<client::grpc::GrpcConfig as std::clone::Clone>::clone$', b_.path)]
            if len(whole) == 1 and len(gcl) == 1:
                R.saw(gcl[0])
                for ag in mirlib.aggregates(gcl[0], 'client::grpc::GrpcConfig'):
                    nf += copy_field_agreement(R, 'C06.R4', 'cli:clone', gcl[0], ag)
        R.floor('C06.R4', 'client Clone fields', nf, 5)
        # generated servers: Clone and the per-call Grpc configuration use the same-named fields
        import gen
        ng = 0
        for key, sv in sorted(gen.collect(R).items()):
            srv = sv.get('server')
            if not srv:
                continue
            crate = sv['crate']
            modpath = srv['body'].path[1:srv['body'].path.index(' as ')]
            cb = [x for x in crate.bodies if x.kind == 'fn' and x.path == '<' + modpath + ' as std::clone::Clone>::clone']
            for cbd in cb:
                for ag in mirlib.aggregates(cbd):
                    if (ag[3].get('adt') or '').endswith('Server') and ag[2]['l'] == 0 or (ag[3].get('fields') and 'max_decoding_message_size' in ag[3]['fields']):
                        ng += copy_field_agreement(R, 'C06.R4', 'gen-clone:%s' % sv['tag'], cbd, ag)
            for path, arm in sorted(srv['arms'].items()):
                eb_ = arm.get('entry_body')
                if not eb_:
                    continue
                for bb_, t_ in eb_.calls(name='apply_max_message_size_config'):
                    a1, a2 = show(eb_.origin(t_['args'][1])), show(eb_.origin(t_['args'][2]))
                    ng += 1
                    R.check('max_decoding_message_size' in a1 and 'max_encoding_message_size' in a2, 'C06.R4', 'gen-limits:%s:%s' % (sv['tag'], path), site(eb_, bb_), 'apply_max_message_size_config(%s, %s)' % (a1[-40:], a2[-40:]))
        R.floor('C06.R4', 'generated-server limit plumbing instances', ng, 100)
        # setters write the same-named field
        for crate_path, fields in (('server::grpc::Grpc::<T>', ('max_decoding_message_size', 'max_encoding_message_size')),
                                   ('client::grpc::Grpc::<T>', ('max_decoding_message_size', 'max_encoding_message_size'))):
            for f in fields:
                sb = tonic.body('%s::%s' % (crate_path, f))
                R.saw(sb)
                wr = [(bb, i, st) for bb, i, st in mirlib.assignments(sb, lambda st: mirlib.place_fields(st['p'])[-1:] == [f])]
                okw = len(wr) == 1 and term_contains(sb._origin_def(('stmt', wr[0][0], wr[0][1], wr[0][2]['rv']), 0, set()), lambda x: x and x[0] == 'arg' and x[1] == 2)
                R.check(okw, 'C06.R4', 'setter:%s:%s' % (crate_path.split('::')[0], f), site(sb), 'setter writes field %s from its argument: %r' % (f, okw))


