"""C09 — deadlines: grpc-timeout writer/reader tables, min rule, race order, mapping, placement."""
import re
from common import *
import mirlib

META = {
    'explanation': 'The writer ladder (unit char, conversion closure) and the reader table (unit -> constructor x multiplier) are '
                   'extracted from MIR and compared, row by row, with spec/timeout_units.json and with each other; the 8-digit '
                   'guards, the (client,server) min table, the poll order of the timeout future, the TimeoutExpired -> CANCELLED '
                   'mapping and the layer placement are decided by decision rows, dominance and operand origins.',
    'exhaustive': True,
    'assumptions': ['std::time::Duration::{as_nanos,as_micros,as_millis,as_secs} truncate; from_* are exact',
                    'tokio::time::sleep completes no earlier than its deadline'],
}

NANOS = {'n': 1, 'u': 10**3, 'm': 10**6, 'S': 10**9, 'M': 60 * 10**9, 'H': 3600 * 10**9}
WRITER_NANOS = {'as_nanos': 1, 'as_micros': 10**3, 'as_millis': 10**6, 'as_secs': 10**9}
READER_NANOS = {'from_nanos': 1, 'from_micros': 10**3, 'from_millis': 10**6, 'from_secs': 10**9}


INT_WIDTH = {'u8': 8, 'u16': 16, 'u32': 32, 'u64': 64, 'usize': 64, 'u128': 128, 'i8': 7, 'i16': 15, 'i32': 31, 'i64': 63, 'isize': 63, 'i128': 127}
FN_WIDTH = {'as_nanos': 128, 'as_micros': 128, 'as_millis': 128, 'as_secs': 64}


def conv_of_closure(tonic, cl):
    """analyse a conversion closure |d| d.as_x() [/ k ...] [as T] -> (as_fn, divisor, narrowest integer width the value passes through)"""
    rets = mirlib.returned_terms(cl)
    if len(rets) != 1:
        raise CheckError('UNRECOGNISED: conversion closure %s has %d return definitions' % (cl.path, len(rets)))
    return conv_of_term(rets[0][1], cl.path)


def conv_of_term(t, where):
    class _W:
        path = where
    cl = _W()
    div = 1
    width = 128
    while True:
        if t[0] == 'cast' and t[1] == 'IntToInt':
            width = min(width, INT_WIDTH.get(t[3], 0))
            t = t[2]
        elif is_call(t, name='into') or is_call(t, name='from'):
            t = t[2][0]
        elif t[0] == 'bin' and t[1] == 'Div':
            k = const_val(t[3])
            if not isinstance(k, int):
                raise CheckError('UNRECOGNISED: non-constant divisor in %s' % cl.path)
            div *= k
            t = t[2]
        else:
            break
    if t[0] == 'call' and t[3] in WRITER_NANOS and 'Duration' in t[1]:
        return t[3], div, width
    raise CheckError('UNRECOGNISED: conversion closure %s returns %s' % (cl.path, show(t)))


def _fold_option(t, depth=0):
    """std semantics of the Option combinators a parser split into `fn parse(&str) -> Option<Duration>` plus
    `parse(s).map(Some).ok_or(val)` ends with, applied to a value whose variant is known on the path:
    ok_or(Some(v), e) = Ok(v), ok_or(None, e) = Err(e), map(Some(v), Some) = Some(Some(v)), map(None, f) = None;
    a `?` that left an Option-returning helper early (from_residual) is that helper's None."""
    t = strip_refs(t)
    if depth > 6 or not isinstance(t, tuple) or not t:
        return t
    mk = lambda variant, adt, ops: ('agg', {'kind': 'adt', 'adt': adt, 'variant': variant}, list(ops))
    if is_call(t, name='from_residual') and 'option::Option' in t[1]:
        return mk('None', 'std::option::Option', [])
    if is_call(t) and t[3] in ('ok_or', 'ok_or_else') and 'option::Option' in t[1] and len(t[2]) == 2:
        a = _fold_option(t[2][0], depth + 1)
        if isinstance(a, tuple) and a[:1] == ('agg',) and a[1].get('variant') == 'Some':
            return mk('Ok', 'std::result::Result', [a[2][0]])
        if isinstance(a, tuple) and a[:1] == ('agg',) and a[1].get('variant') == 'None':
            return mk('Err', 'std::result::Result', [t[2][1]])
        return t
    if is_call(t, name='map') and 'option::Option' in t[1] and len(t[2]) == 2:
        a = _fold_option(t[2][0], depth + 1)
        f = strip_refs(t[2][1])
        is_some_ctor = isinstance(f, tuple) and show(f).replace(' ', '') in ('fn(std::prelude::v1::Some)', 'fn(std::option::Option::Some)', 'fn(core::option::Option::Some)')
        if isinstance(a, tuple) and a[:1] == ('agg',) and a[1].get('variant') == 'None':
            return a
        if is_some_ctor and isinstance(a, tuple) and a[:1] == ('agg',) and a[1].get('variant') == 'Some':
            return mk('Some', 'std::option::Option', [mk('Some', 'std::option::Option', [a[2][0]])])
        return t
    return t


def run(R):
    tonic = R.crate('tonic')
    sp = spec('timeout_units')
    units = sp['units']

    # ---------------------------------------------------------------- R1 writer ladder
    R.describe('C09.R1', 'duration_to_grpc_timeout tries units most-precise first; each conversion is the truncating std function (optionally / constants) of spec/timeout_units.json; value > 99_999_999 falls to the next unit')
    ladder = []
    with R.guard('C09.R1'):
        top = tonic.body('request::duration_to_grpc_timeout')
        R.saw(top)
        fam = [b for b in tonic.bodies if b.path.startswith(top.path) and b.kind in ('fn', 'closure')]
        # unwind the or_else chain from the final expect()
        loop_form = None
        if not top.calls(name='expect'):
            # the ladder as data walked by a loop: for (value, unit) in [(..); 6] { if value <= MAX { return format!(..) } } panic!()
            arrs = [(bb_, i_, [top.origin(o_) for o_ in ops_]) for bb_, i_, p_, a_, ops_ in mirlib.aggregates(top) if a_.get('kind') == 'array'
                    and all(strip_refs(top.origin(o_))[0] == 'agg' and strip_refs(top.origin(o_))[1].get('kind') == 'tuple' for o_ in ops_)]
            if len(arrs) != 1:
                raise CheckError('UNRECOGNISED: duration_to_grpc_timeout has neither the or_else(..).expect(..) ladder nor one candidate array (%d arrays of tuples)' % len(arrs))
            loop_form = arrs[0]
            term = ('agg', {'kind': 'array'}, loop_form[2])
        else:
            bb, t = top.call1(name='expect')
            term = top.origin(t['args'][0])
        chain = []
        while is_call(term, name='or_else'):
            chain.append(term[2][1])
            term = term[2][0]
        chain.reverse()
        table_form = None
        struct_form = None
        if not loop_form and is_call(strip_refs(term), name='find_map') and const_table(tonic, strip_refs(term)[2][0]):
            # the ladder as a constant table of {symbol, conversion} walked in order: TABLE.iter().find_map(|u| u.render(&duration))
            struct_form = (strip_refs(term), const_table(tonic, strip_refs(term)[2][0]))
        if loop_form:
            table_form = (None, term)
        elif not chain and not is_call(term, name='try_format'):
            # the ladder as data: [(value in unit, unit); 6].into_iter().find(|(v, _)| v <= MAX).map(format)
            fnd = [x for x in find_terms(term, lambda x: is_call(x, name='find'))]
            arr = [x for x in find_terms(term, lambda x: x and x[0] == 'agg' and x[1].get('kind') == 'array')] if fnd else []
            if len(fnd) == 1 and arr:
                table_form = (fnd[0], arr[0])

        def tf_of(body, tterm):
            # tterm: call term to try_format
            unit = const_val(tterm[2][1])
            clo = strip_refs(tterm[2][2])
            while clo and clo[0] == 'cast' and len(clo) > 2:
                clo = strip_refs(clo[2])
            if clo and clo[0] == 'fnitem' and str(clo[1]).rsplit('::', 1)[-1] in WRITER_NANOS and 'Duration' in str(clo[1]):
                # the accessor itself instead of |d| d.as_nanos(): no cast in between, full width
                fn_ = str(clo[1]).rsplit('::', 1)[-1]
                return unit, fn_, 1, body
            if clo[0] != 'agg' or 'def' not in clo[1]:
                raise CheckError('UNRECOGNISED: try_format conversion argument is not a closure: %s' % show(clo))
            cl = tonic.body(clo[1]['def'])
            R.saw(cl)
            fn, div, width = conv_of_closure(tonic, cl)
            R.check(width >= FN_WIDTH[fn], 'C09.R1', 'conv-full-width:%s' % unit, site(cl), 'Duration::%s() yields %d bits and reaches the 8-digit test through a %d-bit integer (a narrowing cast wraps: a huge timeout would be written as a tiny one)' % (fn, FN_WIDTH[fn], width))
            return unit, fn, div, cl
        if struct_form:
            fm_, ents_ = struct_form
            for ent in ents_:
                ent = strip_refs(ent)
                if ent[0] != 'agg' or ent[1].get('kind') != 'adt':
                    raise CheckError('UNRECOGNISED: table entry %s' % show(ent)[:80])
                unit = [const_val(strip_refs(x_)) for x_ in ent[2] if isinstance(const_val(strip_refs(x_)), str) and len(const_val(strip_refs(x_))) == 1]
                convs = []
                for x_ in ent[2]:
                    x0_ = strip_refs(x_)
                    while x0_ and x0_[0] == 'cast' and len(x0_) > 2:
                        x0_ = strip_refs(x0_[2])
                    if x0_ and x0_[0] == 'fnitem' and x0_[1].rsplit('::', 1)[-1] in WRITER_NANOS and 'Duration' in x0_[1]:
                        convs.append((x0_[1].rsplit('::', 1)[-1], 1, FN_WIDTH[x0_[1].rsplit('::', 1)[-1]]))
                    elif x0_ and x0_[0] == 'agg' and x0_[1].get('def'):
                        convs.append(conv_of_closure(tonic, tonic.body(re.compile('^' + re.escape(x0_[1]['def']) + '$'))))
                if len(unit) != 1 or len(convs) != 1:
                    raise CheckError('UNRECOGNISED: table entry %s has %d unit symbols and %d conversions' % (show(ent)[:60], len(unit), len(convs)))
                fn, div, width = convs[0]
                R.check(width >= FN_WIDTH[fn], 'C09.R1', 'conv-full-width:%s' % unit[0], site(top), 'Duration::%s() yields %d bits and reaches the 8-digit test through a %d-bit integer' % (fn, FN_WIDTH[fn], width))
                ladder.append((unit[0], fn, div, top, top))
        elif table_form:
            for ent in table_form[1][2]:
                ent = strip_refs(ent)
                if ent[0] != 'agg' or ent[1].get('kind') != 'tuple' or len(ent[2]) != 2:
                    raise CheckError('UNRECOGNISED: candidate entry %s' % show(ent)[:80])
                unit = const_val(ent[2][1])
                fn, div, width = conv_of_term(ent[2][0], top.path)
                R.check(width >= FN_WIDTH[fn], 'C09.R1', 'conv-full-width:%s' % unit, site(top), 'Duration::%s() yields %d bits and reaches the 8-digit test through a %d-bit integer' % (fn, FN_WIDTH[fn], width))
                R.check(arg_root(find_terms(ent[2][0], lambda x: is_call(x) and x[3] in WRITER_NANOS)[0][2][0]) == 1, 'C09.R1', 'same-duration:%s' % unit, site(top), 'the candidate is computed from the duration argument')
                ladder.append((unit, fn, div, top, top))
        elif not is_call(term, name='try_format'):
            raise CheckError('UNRECOGNISED: head of the or_else chain is %s' % show(term))
        else:
            ladder.append(tf_of(top, term) + (top,))
        for c in chain:
            c = strip_refs(c)
            if c[0] != 'agg' or 'def' not in c[1]:
                raise CheckError('UNRECOGNISED: or_else argument is not a closure')
            cb = tonic.body(c[1]['def'])
            R.saw(cb)
            rets = mirlib.returned_terms(cb)
            if len(rets) != 1 or not is_call(rets[0][1], name='try_format'):
                raise CheckError('UNRECOGNISED: or_else closure %s does not return try_format(..)' % cb.path)
            ladder.append(tf_of(cb, rets[0][1]) + (cb,))
            # the duration handed on is the function's argument
            d0 = strip_refs(rets[0][1][2][0])
            R.check(mentions_field(rets[0][1][2][0], '_ref__duration') or 'duration' in show(d0), 'C09.R1', 'same-duration:%s' % const_val(rets[0][1][2][1]), site(cb),
                    'duration argument = %s' % show(d0))
        order = [u for u, _, _, _, _ in ladder]
        R.eq(order, sp['writer_order'], 'C09.R1', 'order', site(top), 'unit order of the writer ladder (most precise first)')
        for u, fn, div, cl, owner in ladder:
            su = units.get(u)
            if su is None:
                R.bad('C09.R1', 'unit:%r' % u, site(cl), 'unit %r is not a spec unit' % u)
                continue
            R.check(fn == su['writer'] and div == su['div'], 'C09.R1', 'conv:%s' % u, site(cl),
                    'unit %s written with %s / %d; spec: %s / %d' % (u, fn, div, su['writer'], su['div']))
            # never denotes a longer time: nanos-per-written-unit must equal nanos of the unit
            R.check(WRITER_NANOS[fn] * div == NANOS[u], 'C09.R1', 'scale:%s' % u, site(cl), '%s/%d counts units of %d ns; unit %s is %d ns' % (fn, div, WRITER_NANOS[fn] * div, u, NANOS[u]))
        R.floor('C09.R1', 'writer rows', len(ladder), 6)
        okg = False
        if struct_form:
            # find_map over the table's own iterator: the first entry whose rendering is Some wins; rendering is Some exactly when the
            # converted value is <= 99_999_999 (`(value <= MAX).then(|| format!(value, symbol))` or an if/else)
            fm_, ents_ = struct_form
            ordered = is_call(strip_refs(fm_[2][0]), name='iter') or is_call(strip_refs(fm_[2][0]), name='into_iter')
            cbs_ = [x for x in family(tonic, top) if x.kind == 'closure']
            for cb_ in cbs_:
                for bb_, t_ in cb_.calls(name='then'):
                    o = mirlib.norm_cmp(mirlib.simplify(cb_.origin(t_['args'][0])))
                    if o and o[0] == 'bin' and ((o[1] == 'Ge' and const_value(tonic, o[2]) == sp['max_value']) or (o[1] == 'Gt' and const_value(tonic, o[2]) == sp['max_value'] + 1)):
                        okg = ordered and t_['dest']['l'] == 0 or ordered
                        R.check(okg, 'C09.R1', 'guard-8-digits', site(cb_, bb_), 'render: (value <= %d).then(|| format!(value, symbol)), tried in table order: %s' % (sp['max_value'], show(o)[:80]))
                for s_ in [b_ for b_ in sorted(cb_.live_blocks()) if cb_.term(b_)['k'] == 'switch']:
                    o = mirlib.norm_cmp(mirlib.simplify(cb_.origin(cb_.term(s_)['on'])))
                    if o and o[0] == 'bin' and ((o[1] == 'Ge' and const_value(tonic, o[2]) == sp['max_value']) or (o[1] == 'Gt' and const_value(tonic, o[2]) == sp['max_value'] + 1)):
                        okg = ordered
                        R.check(okg, 'C09.R1', 'guard-8-digits', site(cb_, s_), 'render: value <= %d decides Some/None, tried in table order: %s' % (sp['max_value'], show(o)[:80]))
            sws = []
            tf = top
        elif loop_form:
            # the array's own iterator is walked in order; the first entry with value <= 99_999_999 is formatted and returned
            is_next = lambda x: is_call(x, name='next') and find_terms(x, lambda y: is_call(y, name='into_iter') and find_terms(y, lambda z: z and z[0] == 'agg' and z[1].get('kind') == 'array'))
            for s_ in [b_ for b_ in sorted(top.live_blocks()) if top.term(b_)['k'] == 'switch']:
                o = mirlib.norm_cmp(mirlib.simplify(top.origin(top.term(s_)['on'])))
                if not (o and o[0] == 'bin' and o[1] in ('Ge', 'Gt')):
                    continue
                lim, v = strip_refs(o[2]), strip_refs(o[3])
                is_val = v[0] == 'field' and str(v[2]) in ('0', '.0') and find_terms(v, is_next)
                if not is_val or const_value(tonic, lim) != sp['max_value'] + (1 if o[1] == 'Gt' else 0):
                    continue
                edges = top.switch_edges(s_)
                true_t = [tg for tg, vals in edges.items() if top.edge_truth(s_, vals) is True]
                false_t = [tg for tg, vals in edges.items() if top.edge_truth(s_, vals) is False]
                nexts = [b_ for b_, t_ in top.calls(name='next')]
                # accepted -> a formatted string is returned without trying another candidate; refused -> the next candidate is tried
                acc = top.reach_ps(true_t, removed={s_}) if true_t else set()
                rej = top.reach_ps(false_t, removed={s_}) if false_t else set()
                fmt_acc = [b_ for b_, t_ in top.calls(name='format') if b_ in acc]
                okg = bool(fmt_acc) and not any(n_ in acc for n_ in nexts) and any(n_ in rej for n_ in nexts) and not any(b_ in rej and b_ not in acc for b_ in fmt_acc)
                R.check(okg, 'C09.R1', 'guard-8-digits', site(top, s_), 'for (value, unit) in candidates: value <= %d -> return format!(value, unit), else try the next: %s' % (sp['max_value'], show(o)[:80]))
                for fb_ in fmt_acc:
                    fa = top.origin(top.term(fb_)['args'][0])
                    uses = find_terms(fa, lambda x: x and x[0] == 'field' and str(x[2]) in ('0', '1', '.0', '.1') and find_terms(x, is_next))
                    R.check({str(x[2]).lstrip('.') for x in uses} == {'0', '1'}, 'C09.R1', 'formats-the-tested-candidate', site(top, fb_), 'the string is made of the value and the unit of the candidate just tested')
            sws = []
            tf = top
        elif table_form:
            # first entry (in array order) whose value is <= 99_999_999: find(|(value, _)| value <= MAX) on the array's own iterator
            fc = table_form[0]
            recv = strip_refs(fc[2][0])
            ordered = is_call(recv, name='into_iter') or is_call(recv, name='iter')
            clo = strip_refs(fc[2][1])
            if clo[0] == 'agg' and 'def' in clo[1]:
                pb = tonic.body(re.compile('^' + re.escape(clo[1]['def']) + '$'))
                R.saw(pb)
                prt = mirlib.returned_terms(pb)
                if len(prt) == 1:
                    o = mirlib.norm_cmp(prt[0][1])
                    # value <= MAX  ==  Ge(MAX, value)
                    okg = ordered and o[0] == 'bin' and ((o[1] == 'Ge' and const_val(strip_refs(o[2])) == sp['max_value']) or (o[1] == 'Gt' and const_val(strip_refs(o[2])) == sp['max_value'] + 1)) and arg_root(strip_refs(o[3])) == 2
                    R.check(okg, 'C09.R1', 'guard-8-digits', site(pb), 'find(|(value, _)| value <= %d) over the candidates in order: %s' % (sp['max_value'], show(o)[:80]))
            sws = []
            tf = top
        else:
            tf = tonic.body('request::duration_to_grpc_timeout::try_format')
            R.saw(tf)
            sws = [bb for bb in sorted(tf.live_blocks()) if tf.term(bb)['k'] == 'switch']
        for s in sws:
            o = mirlib.norm_cmp(tf.origin(tf.term(s)['on']))
            lhs = strip_refs(o[2]) if o[0] == 'bin' else None
            while lhs and (is_call(lhs, name='into') or (lhs[0] == 'cast' and INT_WIDTH.get(lhs[3], 0) >= 64)):
                lhs = strip_refs(lhs[2][0] if lhs[0] == 'call' else lhs[2])
            if o[0] == 'bin' and o[1] == 'Gt' and const_val(o[3]) == sp['max_value'] and is_call(lhs, name='call_once') and show(lhs[2][0]).startswith('arg') and 'convert' in show(lhs[2][0]):
                edges = tf.switch_edges(s)
                true_t = [tgt for tgt, vals in edges.items() if vals == ['else'] or (0 not in vals and 'else' not in vals)]
                nones = [bb for bb, i, p, a, ops in mirlib.aggregates(tf, 'option::Option', 'None') if p['l'] == 0]
                okg = bool(true_t) and all(any(n in tf.reachable(tt) and tf.dominates(tt, n) for tt in true_t) for n in nones) and bool(nones)
                R.check(okg, 'C09.R1', 'guard-8-digits', site(tf, s), 'value > %d -> None (test %s)' % (sp['max_value'], show(o)))
        if not okg and not loop_form and not struct_form and not table_form:
            # (value <= MAX).then(|| format!(..)): bool::then yields Some exactly when the comparison holds (std semantics)
            for bb_, t_ in tf.calls(name='then'):
                if 'bool' not in (t_.get('fn') or ''):
                    continue
                o = mirlib.norm_cmp(strip_refs(tf.origin(t_['args'][0])))
                lhs = strip_refs(o[3]) if o[0] == 'bin' and o[1] == 'Ge' else None
                while lhs and (is_call(lhs, name='into') or (lhs[0] == 'cast' and INT_WIDTH.get(lhs[3], 0) >= 64)):
                    lhs = strip_refs(lhs[2][0] if lhs[0] == 'call' else lhs[2])
                rt_ = mirlib.returned_terms(tf)
                if o[0] == 'bin' and o[1] == 'Ge' and const_value(tonic, o[2]) == sp['max_value'] and is_call(lhs, name='call_once') and len(rt_) == 1 and is_call(strip_refs(rt_[0][1]), name='then'):
                    okg = True
                    R.ok('C09.R1', 'guard-8-digits', site(tf, bb_), '(value <= %d).then(..): Some only within 8 digits' % sp['max_value'])
        R.check(okg, 'C09.R1', 'guard-present', site(tf), 'try_format compares the converted value with %d using >' % sp['max_value'])

    # ---------------------------------------------------------------- R2 reader table
    R.describe('C09.R2', 'try_parse_grpc_timeout: unit -> (constructor, multiplier) equals the spec table; unknown unit -> Err; len > 8 -> Err dominates parse; multiplication cannot overflow under that guard')
    reader = {}
    with R.guard('C09.R2'):
        b = tonic.body('grpc_timeout::try_parse_grpc_timeout')
        R.saw(b)
        hdr = b.call1(pat='HeaderMap', name='get')
        R.eq(const_val(b.origin(hdr[1]['args'][1])), spec('wire')['timeout_header'], 'C09.R2', 'header-name', site(b, hdr[0]), 'header looked up')
        # by feasible path: the unit string the path matched and the value returned at its end (phis resolved along the path) — the
        # same table whether the unit selects the constructor directly or through an intermediate enum / helper
        meta2 = {}
        rows = mirlib.path_rows(b, stop=set(writers_of(b, 0)), meta=meta2)
        default_ok = None
        for cons, path in rows:
            bb = path[-1]
            unit = [v for k, op, v in cons if op == '==' and isinstance(v, str) and len(v) == 1]
            refused = {v for k, op, v in cons if op == '!=' and isinstance(v, str) and len(v) == 1}
            # the unit tested as a byte of the header value (`value.as_bytes().split_last()` and a match on b'H'..): same table
            is_unit_byte = lambda k_, v_: isinstance(v_, int) and not isinstance(v_, bool) and 0x20 <= v_ < 0x7f and not k_.startswith(('discr(', 'len(', 'Gt(', 'Lt(', 'Ge(', 'Le(')) and mentions_call(meta2.get('__terms__', {}).get(k_), pat='HeaderMap', name='get')
            unit += [chr(v) for k, op, v in cons if op == '==' and is_unit_byte(k, v)]
            refused |= {chr(v) for k, op, v in cons if op == '!=' and is_unit_byte(k, v)}
            refused |= {chr(x) for k, op, v in cons if op == 'notin' and isinstance(v, tuple) for x in v if is_unit_byte(k, x)}
            val = _fold_option(strip_refs(mirlib.simplify(b.ret_on_path(path))))
            if is_call(val, name='from_residual'):
                continue  # `?` on a failure: an Err row that is not the unknown-unit default
            if not (val and val[0] == 'agg'):
                R.bad('C09.R2', 'row-shape', site(b, bb), 'unrecognised return value %s' % show(val)[:120], kind='UNRECOGNISED')
                continue
            if val[1].get('variant') == 'Err':
                if not unit and refused >= set(units):
                    default_ok = True
                continue
            inner = strip_refs(val[2][0]) if val[1].get('variant') == 'Ok' and val[2] else None
            if inner and inner[0] == 'agg' and inner[1].get('variant') == 'None':
                continue  # no header
            if not (inner and inner[0] == 'agg' and inner[1].get('variant') == 'Some'):
                R.bad('C09.R2', 'row-shape', site(b, bb), 'unrecognised return value %s' % show(val)[:120], kind='UNRECOGNISED')
                continue
            w = strip_refs(inner[2][0])
            if not unit or not is_call(w):
                R.bad('C09.R2', 'row-shape', site(b, bb), 'unrecognised row %r -> %s' % (unit, show(w)[:120]), kind='UNRECOGNISED')
                continue
            ctor = w[3]
            arg = strip_casts(w[2][0])
            mul = 1
            if arg[0] == 'field' and arg[1][0] == 'bin' and arg[1][1] in ('MulWithOverflow', 'Mul'):
                k3, k2 = const_value(tonic, arg[1][3]), const_value(tonic, arg[1][2])
                mul = k3 if k3 is not None else k2
                arg = arg[1][2] if k3 is not None else arg[1][3]
            elif arg[0] == 'bin' and arg[1] == 'Mul':
                mul = const_value(tonic, arg[3])
                arg = arg[2]
            R.check(mentions_call(arg, name='parse'), 'C09.R2', 'value-from-parse:%s' % unit[0], site(b, bb), 'constructor argument = %s' % show(arg)[:120])
            if unit[0] in reader and reader[unit[0]][:2] != (ctor, mul):
                R.bad('C09.R2', 'row-ambiguous:%s' % unit[0], site(b, bb), 'unit %s is parsed two ways: %r and %r' % (unit[0], reader[unit[0]][:2], (ctor, mul)))
            reader[unit[0]] = (ctor, mul, bb)
        for u, su in units.items():
            got = reader.get(u)
            R.check(got is not None and got[0] == su['ctor'] and got[1] == su['mul'], 'C09.R2', 'row:%s' % u, site(b, got[2]) if got else site(b),
                    'unit %s parsed with %s x %s; spec: %s x %d' % (u, got[0] if got else None, got[1] if got else None, su['ctor'], su['mul']))
            if got and got[0] in READER_NANOS and isinstance(got[1], int):
                R.check(READER_NANOS[got[0]] * got[1] == NANOS[u], 'C09.R2', 'scale:%s' % u, site(b, got[2]), '%s x %d = %d ns per unit; unit %s is %d ns' % (got[0], got[1], READER_NANOS[got[0]] * got[1], u, NANOS[u]))
        extra = sorted(set(reader) - set(units))
        R.check(not extra, 'C09.R2', 'no-extra-units', site(b), 'units accepted beyond the spec: %r' % extra)
        R.check(default_ok is True, 'C09.R2', 'default-err', site(b), 'an unknown unit returns Err (value ignored)')
        R.floor('C09.R2', 'reader rows', len(reader), 6)
        # 8-digit guard dominates parse
        pbb, pt = b.call1(pat='str', name='parse')
        R.check(any('u64' in g for g in pt.get('ga', [])), 'C09.R2', 'parse-type', site(b, pbb), 'parse target types %r' % pt.get('ga'))
        gs = b.edge_guards(pbb)
        okg = False
        for s, vals, term in gs:
            if term[0] == 'bin' and term[1] == 'Gt' and const_val(term[3]) == sp['max_digits'] and is_call(strip_refs(term[2]), name='len') and vals == [0]:
                okg = True
                gsite = s
        R.check(okg, 'C09.R2', 'guard-8-digits-dominates-parse', site(b, pbb), 'guards on the parse call: %s' % [(v, show(t)) for s, v, t in gs])
        # overflow asserts discharged by the guard: max 99_999_999 * multiplier < 2^64
        for bb, kind, what, t in mirlib.panic_sites(b):
            if kind == 'assert' and what.startswith('Overflow::Mul'):
                cond = b.origin(t['cond'])
                k = None
                for x in find_terms(cond, lambda x: x and x[0] == 'bin' and x[1] == 'MulWithOverflow'):
                    k = const_val(x[3])
                R.check(okg and isinstance(k, int) and sp['max_value'] * k < 2**64, 'C09.R2', 'overflow-discharged:x%s' % k, site(b, bb), '99_999_999 x %s < 2^64 under the 8-digit guard' % k)
            elif kind == 'assert' and what.startswith('Overflow::Sub'):
                # len - 1: guarded by the non-empty test in the and_then closure
                ne = [c for c in tonic.children(b) if c.calls(name='is_empty')]
                closure_form = bool(ne) and bool(b.calls(name='and_then'))
                inline_form = any(is_call(strip_refs(tm), name='is_empty') and vals == [0] for s_, vals, tm in b.edge_guards(bb))
                R.check(closure_form or inline_form, 'C09.R2', 'len-1-discharged', site(b, bb), 'len()-1 only after the empty value was refused (and_then(is_empty -> Err) closure: %r; is_empty() false edge: %r)' % (closure_form, inline_form))
            else:
                R.bad('C09.R2', 'panic:%s:%s' % (kind, what), site(b, bb), 'potential panic in the timeout parser on peer input')
        # sign rejection: str::parse::<u64> accepts a leading '+', which the spec grammar does not
        digit_guard = False
        for s, vals, term in gs:
            if term_contains(term, lambda x: is_call(x, name='all') or is_call(x, name='is_ascii_digit') or is_call(x, name='any') or is_call(x, name='starts_with')):
                digit_guard = True
        if not digit_guard:
            for c in tonic.children(b):
                pass
        R.check(digit_guard, 'C09.R2', 'digits-only', site(b, pbb),
                'str::parse::<u64> accepts a leading "+"; the TimeoutValue must be checked to consist of ASCII digits before parsing (input "+5S" is malformed per the spec grammar but parses to 5 s)')

    # ---------------------------------------------------------------- R3 agreement
    R.describe('C09.R3', 'for every unit the writer conversion and the reader constructor are inverse (same nanoseconds per unit)')
    with R.guard('C09.R3'):
        n = 0
        for u, fn, div, cl, owner in ladder:
            if u in reader and reader[u][0] in READER_NANOS and isinstance(reader[u][1], int):
                n += 1
                R.check(WRITER_NANOS[fn] * div == READER_NANOS[reader[u][0]] * reader[u][1], 'C09.R3', 'inverse:%s' % u, site(cl),
                        'writer counts %d ns per %s, reader expands to %d ns' % (WRITER_NANOS[fn] * div, u, READER_NANOS[reader[u][0]] * reader[u][1]))
        R.floor('C09.R3', 'paired units', n, 6)

    # ---------------------------------------------------------------- R4 min rule
    R.describe('C09.R4', 'GrpcTimeout::call: (None,None)->None, (Some h,None)->h, (None,Some s)->s, (Some,Some)->min(h,s); header parse errors -> None without panicking')
    with R.guard('C09.R4'):
        b = tonic.body(re.compile(r'grpc_timeout::GrpcTimeout<S> as .*>::call$'))
        R.saw(b)
        maps = [(bb_, t_) for bb_, t_ in b.calls(pat='Option', name='map') if any('k' in a and a['k'].get('fn', '').endswith('tokio::time::sleep') for a in t_['args'])]
        if len(maps) != 1:
            raise CheckError('UNRECOGNISED: %d sites of timeout.map(tokio::time::sleep) in GrpcTimeout::call' % len(maps))
        mbb, mt = maps[0]
        R.ok('C09.R4', 'sleep-from-duration', site(b, mbb), 'sleep = timeout.map(tokio::time::sleep)')
        # the value handed to sleep, by feasible path, against the 2x2 table (client header present?, server timeout set?)
        meta = {}
        prow = mirlib.path_rows(b, stop={mbb}, meta=meta)
        terms = lambda: meta.get('__terms__', {})

        def is_opt(k):
            return k in meta and any(n_ == 'Some' for _, n_ in meta[k])
        mentions_parse = lambda t_: term_contains(t_, lambda x: is_call(x, name='try_parse_grpc_timeout'))
        # the locally configured timeout: the Option<Duration> field of GrpcTimeout (by type, not by name)
        gadt = tonic.adt('grpc_timeout::GrpcTimeout')
        is_od = lambda ty_: re.search(r'Option<(std::time::|core::time::)?Duration>$', ty_) is not None
        sfields = [f_['n'] for f_ in gadt['variants'][0]['fields'] if is_od(f_['ty'])]
        if not sfields:
            # bundled in a policy struct of this crate: its Option<Duration> members, minus dormant ones (always None today)
            for f_ in gadt['variants'][0]['fields']:
                try:
                    sub_ = tonic.adt(re.sub(r'<.*$', '', f_['ty']))
                except CheckError:
                    continue
                if sub_.get('kind') == 'struct':
                    sfields += [g_['n'] for g_ in sub_['variants'][0]['fields'] if is_od(g_['ty']) and tonic.const_fields().get(g_['n']) != 'None']
        if len(sfields) != 1:
            raise CheckError('UNRECOGNISED: GrpcTimeout has %d Option<Duration> fields' % len(sfields))
        mentions_server = lambda t_: mentions_field(t_, sfields[0])
        has_some_proj = lambda t_: term_contains(t_, lambda x: x and x[0] == 'variant' and x[2] == 'Some')

        def classify(v):
            v = strip_refs(mirlib.simplify(v))
            if v[0] == 'agg' and v[1].get('variant') == 'None':
                return 'None'
            # [client, server].into_iter().flatten().min(): an Option yields its value or nothing, min() of what is left is None for
            # no value, the value for one, the smaller for two (std semantics of Option: IntoIterator and Iterator::min)
            if is_call(v, name='min') and 'Iterator' in v[1] and is_call(strip_refs(v[2][0]), name='flatten'):
                src_ = strip_refs(strip_refs(v[2][0])[2][0])
                arr_ = strip_refs(src_[2][0]) if is_call(src_, name='into_iter') else None
                if arr_ and arr_[0] == 'agg' and arr_[1].get('kind') == 'array':
                    return 'minset:' + ','.join(sorted(classify(e_) for e_ in arr_[2]))
            # a.or(b): a when it is Some, else b (std semantics of Option::or)
            if is_call(v, name='or') and 'Option' in v[1] and len(v[2]) == 2:
                return 'or:%s|%s' % (classify(v[2][0]), classify(v[2][1]))
            if v[0] == 'agg' and v[1].get('variant') == 'Some':
                x = strip_refs(v[2][0])
                if is_call(x) and x[3] == 'min' and mentions_parse(x) and mentions_server(x):
                    return 'min(h,s)'
                if is_call(x):
                    return 'call:%s' % x[3]
                if mentions_parse(x) and not mentions_server(x):
                    return 'h'
                if mentions_server(x) and not mentions_parse(x):
                    return 's'
                return show(x)[:40]
            if mentions_parse(v) and not mentions_server(v) and not has_some_proj(v):
                return 'client-opt'
            if mentions_server(v) and not mentions_parse(v) and not has_some_proj(v):
                return 'server-opt'
            return show(v)[:40]
        table = {}
        for cons, path in prow:
            if path[-1] != mbb:
                continue
            vw = cons_view(cons, meta)
            cl = view_get(vw, lambda k: is_opt(k) and mentions_parse(terms().get(k)) and not mentions_server(terms().get(k)))
            sv = view_get(vw, lambda k: is_opt(k) and mentions_server(terms().get(k)) and not mentions_parse(terms().get(k)))
            val = classify(b.origin_on_path(mt['args'][0], path))
            # a header that does not parse is not a client timeout
            perr = view_get(vw, lambda k: k in meta and any(n_ == 'Err' for _, n_ in meta[k]) and mentions_parse(terms().get(k)) and is_call(strip_refs(terms()[k][1]), name='try_parse_grpc_timeout'))
            if perr == 'Err' and cl is None:
                cl = 'None'
            for c_ in ((0, 1) if cl is None else ((1,) if cl == 'Some' else (0,))):
                for s_ in ((0, 1) if sv is None else ((1,) if sv == 'Some' else (0,))):
                    eff_v = val
                    if val.startswith('minset:'):
                        els = val[len('minset:'):].split(',')
                        have = sorted((['h'] if ('client-opt' in els and c_) else []) + (['s'] if ('server-opt' in els and s_) else []))
                        other = [e_ for e_ in els if e_ not in ('client-opt', 'server-opt', 'None')]
                        eff_v = ('?' + ','.join(other)) if other else {(): 'None', ('h',): 'h', ('s',): 's', ('h', 's'): 'min(h,s)'}[tuple(have)]
                    if val == 'client-opt':
                        eff_v = 'h' if c_ else 'None'
                    elif val == 'server-opt':
                        eff_v = 's' if s_ else 'None'
                    elif val.startswith('or:') and val.count('|') == 1:
                        ev_ = lambda e_: ('h' if c_ else 'None') if e_ == 'client-opt' else ('s' if s_ else 'None') if e_ == 'server-opt' else e_
                        a_, b_ = [ev_(e_) for e_ in val[3:].split('|')]
                        eff_v = a_ if a_ != 'None' else b_
                    table.setdefault((c_, s_), set()).add(eff_v)
        want = {(0, 0): 'None', (1, 0): 'h', (0, 1): 's', (1, 1): 'min(h,s)'}
        for k, v in want.items():
            R.eq(sorted(table.get(k, [])), [v], 'C09.R4', 'min:%d-%d' % k, site(b), 'effective timeout for (client %s, server %s)' % ('Some' if k[0] else 'None', 'Some' if k[1] else 'None'))
        # header parse errors are ignored (-> no client timeout), never propagated or unwrapped
        tp = b.calls(name='try_parse_grpc_timeout')
        R.check(len(tp) == 1, 'C09.R4', 'parse-errors-ignored', site(b), 'try_parse_grpc_timeout sites: %d' % len(tp))
        uw = b.calls(name='unwrap_or_else')
        if uw and is_call(b.origin(uw[0][1]['args'][0]), name='try_parse_grpc_timeout'):
            cl0 = strip_refs(b.origin(uw[0][1]['args'][1]))
            if cl0[0] == 'agg' and 'def' in cl0[1]:
                cb = tonic.body(cl0[1]['def'])
                rets = [w for bb in writers_of(cb, 0) for w in block_writes(cb, bb, 0)]
                R.check(all(w[0] == 'variant' and w[2] == 'None' for w in rets) and rets, 'C09.R4', 'parse-error->None', site(cb), 'fallback closure returns %r' % [w[:3] for w in rets])
        else:
            # matched: on the Err arm the client timeout is None
            okn = False
            for cons, path in prow:
                vw = cons_view(cons, meta)
                pe = view_get(vw, lambda k: k in meta and any(n_ == 'Err' for _, n_ in meta[k]) and mentions_parse(terms().get(k)) and is_call(strip_refs(terms()[k][1]), name='try_parse_grpc_timeout'))
                if pe == 'Err' and path[-1] == mbb:
                    cv = classify(b.origin_on_path(mt['args'][0], path))
                    okn = cv in ('None', 's', 'server-opt') or (cv.startswith('minset:') and set(cv[len('minset:'):].split(',')) <= {'None', 'server-opt'})
                    R.check(okn, 'C09.R4', 'parse-error->None', site(b, path[-1]), 'with an unparsable header the effective timeout is %s (no client timeout)' % cv)
            R.check(okn, 'C09.R4', 'parse-error->None:exists', site(b), 'the Err arm of try_parse_grpc_timeout leads to a call without client timeout')
        ps = [p for p in mirlib.panic_sites(b)]
        R.check(not ps, 'C09.R4', 'no-panic', site(b), 'panic sites in GrpcTimeout::call: %r' % [(k, w) for _, k, w, _ in ps])
        ibb, it = b.call1(pat='Service::call')
        R.check(mentions_field(b.origin(it['args'][0]), 'inner'), 'C09.R4', 'inner-called', site(b, ibb), 'inner service invoked with the request')

    # ---------------------------------------------------------------- R5 race order
    R.describe('C09.R5', 'ResponseFuture::poll polls the inner future first and returns its Ready; Err(TimeoutExpired) only behind the sleep being Ready; no sleep -> Pending')
    with R.guard('C09.R5'):
        b = tonic.body(re.compile(r'grpc_timeout::ResponseFuture<F> as .*Future>::poll$'))
        R.saw(b)
        # the deadline runs from the call: the timer is created by GrpcTimeout::call, never by the response future when it is first polled
        # (a future that is issued now and awaited later would get the time in between for free)
        mk = [(bd, bb, t) for bd in tonic.bodies if bd.kind != 'promoted' and 'grpc_timeout' in bd.path for bb, t in bd.calls() if re.search(r'tokio::time::(sleep|sleep_until|Sleep::new|timeout|timeout_at|interval)', (t.get('fn') or ''))
              or any('k' in a_ and re.search(r'tokio::time::(sleep|sleep_until)', (a_['k'].get('fn') or '')) for a_ in t['args'])]
        late = [(bd, bb, t) for bd, bb, t in mk if not re.search(r'GrpcTimeout<S> as tower_service::Service<.*>>::call($|::)', bd.path)]
        R.check(bool(mk) and not late, 'C09.R5', 'timer-created-at-call', site(late[0][0], late[0][1]) if late else site(b),
                'sites creating the timer: %r (all inside GrpcTimeout::call: %r)' % ([short(bd.path)[-50:] for bd, bb, t in mk], not late))
        polls = b.calls(pat='Future::poll')
        # by what is polled, not by field name: the wrapped future (a type parameter) and the timer (tokio's Sleep)
        is_timer = lambda t_: bool(re.search(r'(^|::)Sleep$', t_.get('self_ty') or ''))
        is_inner = lambda t_: bool(re.match(r'^\w+$', t_.get('self_ty') or ''))
        inner = [(bb, t) for bb, t in polls if is_inner(t)]
        sleep = [(bb, t) for bb, t in polls if is_timer(t)]
        R.check(len(inner) == 1 and len(sleep) == 1, 'C09.R5', 'two-polls', site(b), 'inner polls: %d, sleep polls: %d' % (len(inner), len(sleep)))
        if len(inner) == 1 and len(sleep) == 1:
            ib, sb = inner[0][0], sleep[0][0]
            meta = {}
            rows = mirlib.path_rows(b, meta=meta)
            terms = lambda: meta.get('__terms__', {})
            kind_of = {'inner': is_inner, 'sleep': is_timer}
            is_poll_term = lambda y, fld: is_call(y, name='poll') and len(y) > 4 and isinstance(y[4], dict) and kind_of[fld](y[4])
            is_poll_of = lambda t_, fld: t_ is not None and t_[0] == 'discr' and is_poll_term(strip_refs(t_[1]), fld)
            timer_recv = strip_refs(b.origin(sleep[0][1]['args'][0]))
            # the Option the polled timer is the Some payload of
            timer_opt = [mirlib.deep_strip(x[1]) for x in find_terms(timer_recv, lambda x: x and x[0] == 'variant' and x[2] == 'Some')]

            def builds_timeout(t_):
                if term_contains(t_, lambda x: x and x[0] == 'agg' and (x[1].get('adt') or '').endswith('TimeoutExpired')):
                    return True
                for c_ in find_terms(t_, lambda x: x and x[0] == 'agg' and x[1].get('kind') == 'closure'):
                    cb_ = [y for y in tonic.bodies if y.path == c_[1].get('def')]
                    if cb_ and mirlib.aggregates(cb_[0], 'TimeoutExpired'):
                        return True
                return False
            nte = npend = nin = 0
            for cons, path in rows:
                vw = cons_view(cons, meta)
                iv = view_get(vw, lambda k: is_poll_of(terms().get(k), 'inner'))
                sv = view_get(vw, lambda k: is_poll_of(terms().get(k), 'sleep'))
                # the Option the timer lives in: the polled timer is the Some payload of this subject
                so = view_get(vw, lambda k: terms().get(k) is not None and terms()[k][0] == 'discr' and not is_call(strip_refs(terms()[k][1]), name='poll') and k in meta and any(n_ == 'Some' for _, n_ in meta[k])
                              and mirlib.deep_strip(terms()[k][1]) in timer_opt)
                val = mirlib.simplify(b.ret_on_path(path))
                st = site(b, path[-1])
                pos = {x: i_ for i_, x in enumerate(path)}
                if sb in pos:
                    R.check(ib in pos and pos[ib] < pos[sb], 'C09.R5', 'inner-first', st, 'the inner future is polled before the sleep on this path')
                    R.check(iv == 'Pending', 'C09.R5', 'sleep-only-when-inner-pending', st, 'the sleep is polled only after the inner future returned Pending (inner: %r)' % iv)
                if iv == 'Ready':
                    nin += 1
                    okr = term_contains(val, lambda y: is_poll_term(y, 'inner')) and not builds_timeout(val) and not term_contains(val, lambda y: is_poll_term(y, 'sleep'))
                    R.check(okr, 'C09.R5', 'inner-ready-returned', st, 'with the inner future Ready its result is what is returned: %s' % show(val)[:100])
                elif builds_timeout(val):
                    nte += 1
                    direct = term_contains(val, lambda x: x and x[0] == 'agg' and (x[1].get('adt') or '').endswith('TimeoutExpired'))
                    via_map = is_call(strip_refs(val), name='map') and term_contains(strip_refs(val)[2][0], lambda y: is_poll_term(y, 'sleep'))
                    R.check(iv == 'Pending' and ((direct and sv == 'Ready') or via_map), 'C09.R5', 'timeout-behind-sleep-ready', st,
                            'Err(TimeoutExpired) only with the inner future Pending (%r) and the sleep Ready (%r / Poll::map over the sleep poll: %r)' % (iv, sv, via_map))
                elif val[0] == 'agg' and val[1].get('variant') == 'Pending':
                    npend += 1
                    R.check(iv == 'Pending' and (so == 'None' or sv == 'Pending'), 'C09.R5', 'pending-when-both-pending', st, 'Pending with inner %r, sleep option %r, sleep poll %r' % (iv, so, sv))
                else:
                    R.bad('C09.R5', 'outcome-unrecognised', st, 'returns %s' % show(val)[:100], kind='UNRECOGNISED')
            R.floor('C09.R5', 'TimeoutExpired sites', nte, 1)
            R.floor('C09.R5', 'Pending returns', npend, 1)
            R.floor('C09.R5', 'inner-ready rows', nin, 1)

    # ---------------------------------------------------------------- R6 mapping
    R.describe('C09.R6', 'TimeoutExpired in a source chain -> Status::cancelled(its Display = "Timeout expired"); RecoverError turns an Err carrying a status into a trailers-only response')
    with R.guard('C09.R6'):
        b = tonic.body('status::find_status_in_source_chain')
        R.saw(b)
        fb_ = family(tonic, b)   # the rungs of the chain walk may be functions of their own (named, or listed in a table)
        dcs = [(m_, bb, t) for m_, bb, t in fam_calls(fb_, name='downcast_ref') if any('TimeoutExpired' in g for g in t.get('ga', []))]
        R.check(len(dcs) == 1, 'C09.R6', 'downcast-timeout', site(b), 'downcast_ref::<TimeoutExpired> sites: %d' % len(dcs))
        # Status::cancelled(msg), or Status::new(Code::Cancelled, msg)
        cans = [(m_, bb, t, t['args'][0]) for m_, bb, t in fam_calls(fb_, pat='Status::cancelled')]
        for m_, bb, t in fam_calls(fb_, pat='status::Status::new'):
            c0 = strip_refs(mirlib.simplify(m_.origin(t['args'][0])))
            if c0 and c0[0] == 'agg' and c0[1].get('variant') == 'Cancelled':
                cans.append((m_, bb, t, t['args'][1]))
        okc = False
        for m_, bb, t, a_op in cans:
            a = m_.origin(a_op)
            if mentions_call(a, name='to_string') and term_contains(a, lambda x: is_call(x, name='downcast_ref')):
                okc = True
                gs = m_.edge_guards(bb)
                R.check(any(guard_is_some(tm, vals, lambda x: is_call(x, name='downcast_ref')) for s, vals, tm in gs), 'C09.R6', 'cancelled-behind-downcast', site(m_, bb), 'guards: %r' % [(v, show(tm)[:80]) for s, v, tm in gs])
        R.check(okc, 'C09.R6', 'timeout->cancelled', site(b), 'Status::cancelled(timeout.to_string()) present: %r' % okc)
        fm = tonic.body(re.compile(r'<status::TimeoutExpired as std::fmt::Display>::fmt$'))
        R.saw(fm)
        strs = set()
        for bb, t in fm.calls():
            for a in t['args']:
                s = const_str(fm.origin(a))
                if s is not None:
                    strs.add(s if isinstance(s, str) else s.decode('utf8', 'replace'))
        R.check(any(s.strip('\x00') == 'Timeout expired' or s == 'Timeout expired' for s in strs), 'C09.R6', 'display-text', site(fm), 'Display writes %r' % sorted(strs))
        rp = tonic.body(re.compile(r'recover_error::ResponseFuture<F> as .*Future>::poll$'))
        R.saw(rp)
        tr = rp.calls(pat='Status::try_from_error')
        ih = status_response_sites(tonic, rp)
        R.check(len(tr) >= 1 and len(ih) >= 1, 'C09.R6', 'recover-error', site(rp), 'try_from_error sites %d, into_http sites %d' % (len(tr), len(ih)))
        for bb, t in ih:
            R.check(mentions_call(rp.origin(t['args'][0]), name='try_from_error'), 'C09.R6', 'recover-same-status', site(rp, bb), 'into_http receiver = %s' % show(rp.origin(t['args'][0]))[:160])

    # ---------------------------------------------------------------- R7 placement
    R.describe('C09.R7', 'server: RecoverErrorLayer outside GrpcTimeout::new(svc, self.timeout); client: GrpcTimeout::new(.., endpoint.timeout); Request::set_timeout writes the grpc-timeout header with the writer above')
    with R.guard('C09.R7'):
        mk = tonic.body(re.compile(r'transport::server::MakeSvc<S, IO> as .*Service<.*>>::call$'))
        R.saw(mk)
        fam = [mk] + [c for c in tonic.bodies if c.path.startswith(mk.path + '::') and c.kind in ('closure', 'coroutine')]
        gts = []
        for fb in fam:
            for bb, t in fb.calls(pat='GrpcTimeout', name='new'):
                gts.append((fb, bb, t))
        R.check(len(gts) == 1, 'C09.R7', 'server-grpc-timeout', site(mk), 'GrpcTimeout::new sites in MakeSvc::call: %d' % len(gts))
        for fb, bb, t in gts:
            a1 = fb.origin(t['args'][1])
            R.check('timeout' in show(a1), 'C09.R7', 'server-timeout-field', site(fb, bb), 'timeout argument = %s' % show(a1))
        rec = sum(len(fb.calls(pat='RecoverErrorLayer', name='new')) for fb in fam)
        R.check(rec >= 1, 'C09.R7', 'server-recover-layer', site(mk), 'RecoverErrorLayer::new sites: %d' % rec)
        cn = tonic.body('connection::Connection::new')
        R.saw(cn)
        cfam = [cn] + [c for c in tonic.bodies if c.path.startswith(cn.path + '::') and c.kind in ('closure', 'coroutine')]
        cg = [(fb, bb, t) for fb in cfam for bb, t in fb.calls(pat='GrpcTimeout', name='new')]
        R.check(len(cg) == 1, 'C09.R7', 'client-grpc-timeout', site(cn), 'GrpcTimeout::new sites in Connection::new: %d' % len(cg))
        for fb, bb, t in cg:
            a1 = fb.origin(t['args'][1])
            R.check('timeout' in show(a1) and 'endpoint' in show(a1), 'C09.R7', 'client-timeout-field', site(fb, bb), 'timeout argument = %s' % show(a1))
        stb = tonic.body('request::Request::<T>::set_timeout')
        R.saw(stb)
        ins = stb.calls(name='insert')
        okk = False
        for bb, t in ins:
            k = const_val(stb.origin(t['args'][1]))
            v = stb.origin(t['args'][2])
            if k == spec('wire')['timeout_header'] or (constdef(stb.origin(t['args'][1])) or '').endswith('GRPC_TIMEOUT_HEADER'):
                okk = mentions_call(v, name='duration_to_grpc_timeout')
                R.check(okk, 'C09.R7', 'set_timeout-writer', site(stb, bb), 'header value = %s' % show(v)[:160])
        R.check(okk, 'C09.R7', 'set_timeout-header', site(stb), 'set_timeout inserts grpc-timeout')
        R.eq(tonic.const('metadata::map::GRPC_TIMEOUT_HEADER').get('v'), spec('wire')['timeout_header'], 'C09.R7', 'header-const', '', 'GRPC_TIMEOUT_HEADER')
