"""C17 — grpc-web client layer recovers messages and full trailers under any chunking (structural clauses)."""
import re
from collections import deque
from common import *
import mirlib

META = {
    'explanation': 'The trailer reader (decode_trailers_frame, find_trailers) is compared with the writer grammar (split at the first colon '
                   'only, multi-valued append, 0x80 flag and 5-byte header constants shared with the writer, whole trailers frame '
                   'required). The client decode loop of GrpcWebCall::poll_frame is analysed with a relational typestate (inner body '
                   'ended? decoded buffer non-empty? boolean flag locals): no poll of the inner body after it ended, a clean end only '
                   'when the body ended with an empty buffer and no stored trailers.',
    'exhaustive': True,
    'assumptions': ['the inner body returns None again if polled after it ended (hyper bodies do)'],
}


def closure_splits_on(crate, body, term):
    """byte constant a split/splitn predicate closure compares with, or None"""
    t = strip_refs(term)
    if t[0] == 'agg' and 'def' in t[1]:
        cb = crate.body(t[1]['def'])
        for bb in cb.live_blocks():
            for st in cb.blocks[bb]['stmts']:
                rv = st.get('rv')
                if rv and 'bin' in rv and rv['bin'] == 'Eq':
                    for side in ('a', 'b'):
                        v = const_val(cb.origin(rv[side]))
                        if isinstance(v, int):
                            return v
        for bb, t2 in cb.calls(name='eq'):
            for a in t2['args']:
                v = const_val(cb.origin(a))
                if isinstance(v, int):
                    return v
    return None


def _subst_args(t, value_of, depth=0):
    if not isinstance(t, tuple) or depth > 12:
        return t
    if t[:1] == ('arg',) and isinstance(t[1], int):
        v = value_of(t[1])
        return v if v is not None else t
    return tuple([_subst_args(y, value_of, depth + 1) for y in x] if isinstance(x, list) else _subst_args(x, value_of, depth + 1) if isinstance(x, tuple) else x for x in t)


def _flag_value(v):
    """True / False when the term is a boolean constant or the comparison of two known unit variants of one enum
    (`role == Role::Client` with the caller's Role::Client substituted), else None"""
    c = const_val(v)
    if isinstance(c, bool):
        return c
    t = strip_refs(v)
    if is_call(t) and t[3] in ('eq', 'ne') and len(t[2]) == 2:
        a, b = strip_refs(t[2][0]), strip_refs(t[2][1])
        if all(isinstance(x, tuple) and x[:1] == ('agg',) and x[1].get('variant') and not x[2] for x in (a, b)) and a[1].get('adt') == b[1].get('adt'):
            same = a[1]['variant'] == b[1]['variant']
            return same if t[3] == 'eq' else not same
    return None


def run(R):
    web = R.crate('tonic_web')
    W = spec('wire')['grpc_web']

    # ---------------------------------------------------------------- R1 grammar agreement with the writer
    R.describe('C17.R1', 'decode_trailers_frame splits a line at the first colon only and appends (never replaces) entries; find_trailers uses the writer\'s 0x80 flag and 5-byte header and reports trailers only once the whole trailers frame is buffered')
    with R.guard('C17.R1'):
        dt = web.body('call::decode_trailers_frame')
        R.saw(dt)
        colon = []
        for bb, t in dt.calls():
            if t.get('name') in ('split', 'splitn', 'rsplitn', 'rsplit', 'split_once', 'splitn_mut', 'position', 'rposition') and len(t['args']) >= 2:
                pred = t['args'][-1]
                c = closure_splits_on(web, dt, dt.origin(pred))
                if c == ord(':'):
                    colon.append((bb, t))
        R.check(len(colon) == 1, 'C17.R1', 'one-colon-splitter', site(dt), 'calls that split a trailer line at ":" : %d' % len(colon))
        for bb, t in colon:
            if t['name'] == 'splitn':
                n = const_val(dt.origin(t['args'][1]))
                R.check(n == 2, 'C17.R1', 'split-at-first-colon-only', site(dt, bb), 'splitn(%r, ":") — the value keeps its own colons' % n)
            elif t['name'] in ('split_once', 'position'):
                R.ok('C17.R1', 'split-at-first-colon-only', site(dt, bb), '%s(":") finds the first colon' % t['name'])
            else:
                R.bad('C17.R1', 'split-at-first-colon-only', site(dt, bb),
                      '%s(":") cuts the value at every colon: "grpc-message: a:b" is read as "a" (accepted idioms: splitn(2, ..), split_once)' % t['name'])
        ap = dt.calls(pat='HeaderMap', name='append')
        ins = dt.calls(pat='HeaderMap', name='insert')
        R.check(len(ap) == 1 and not ins, 'C17.R1', 'entries-appended', site(dt, (ap or ins or [(None, None)])[0][0]) if (ap or ins) else site(dt),
                'HeaderMap::append sites %d, insert sites %d (insert keeps only the last of repeated trailer names)' % (len(ap), len(ins)))
        gets = [(bb, t) for bb, t in dt.calls(pat='bytes::Buf::get_')]
        gets = [(bb, t) for bb, t in gets if all(dt.dominates(bb, rb) or True for rb in [bb])]
        # the header reads are the getters on the function's own argument that dominate every Ok(Some(map)) return
        oks = [bb for bb, i, p, a, ops in mirlib.aggregates(dt, 'result::Result', 'Ok') if p['l'] == 0 and term_contains(dt.origin(ops[0]), lambda x: x and x[0] == 'agg' and x[1].get('variant') == 'Some')]
        gets = [(bb, t) for bb, t in gets if oks and all(dt.dominates(bb, ob) for ob in oks) and 'arg1' in show(dt.origin(t['args'][0]))]
        advs = [(bb, t) for bb, t in dt.calls(name='advance') if oks and all(dt.dominates(bb, ob) for ob in oks) and 'arg1' in show(dt.origin(t['args'][0]))]
        GW = {'get_u8': 1, 'get_u16': 2, 'get_u32': 4, 'get_u64': 8}
        skipped = sum(GW.get(t['name'], 99) for bb, t in gets) + sum(const_val(dt.origin(t['args'][1])) if isinstance(const_val(dt.origin(t['args'][1])), int) else 99 for bb, t in advs)
        R.eq(skipped, 5, 'C17.R1', 'reader-skips-5-byte-header', site(dt), 'bytes skipped before the trailer block (flag + length: get_u8 + get_u32, or advance(5))')
        for gb, gt in gets + advs:
            g = dt.edge_guards(gb)
            okg = False
            for s_, vals, tm in g:
                o_ = mirlib.norm_cmp(tm)
                if o_[0] == 'bin' and o_[1] == 'Gt' and const_val(o_[2]) == 5 and is_call(strip_refs(o_[3]), name='remaining') and vals == [0]:
                    okg = True
                if o_[0] == 'bin' and o_[1] == 'Ge' and const_val(o_[3]) == 5 and is_call(strip_refs(o_[2]), name='remaining') and (vals == ['else'] or 0 not in vals):
                    okg = True
            R.check(okg, 'C17.R1', '%s-behind-length-check' % gt['name'], site(dt, gb), 'dominated by the false edge of remaining() < 5')
        ft = web.body('call::find_trailers')
        R.saw(ft)
        R.eq(web.const('call::GRPC_WEB_TRAILERS_BIT').get('v'), W['trailers_flag'], 'C17.R1', 'flag-const', 'tonic-web/src/call.rs', 'GRPC_WEB_TRAILERS_BIT')
        R.eq(web.const('call::GRPC_HEADER_SIZE').get('v'), 5, 'C17.R1', 'header-size-const', 'tonic-web/src/call.rs', 'GRPC_HEADER_SIZE')
        tr = [x for x in mirlib.aggregates(ft, 'call::FindTrailers', 'Trailer')]
        R.check(len(tr) == 1, 'C17.R1', 'trailer-site', site(ft), 'FindTrailers::Trailer constructions: %d' % len(tr))
        for bb, i, p, a, ops in tr:
            g = [(s_, vals_, mirlib.simplify(tm_)) for s_, vals_, tm_ in ft.edge_guards(bb)]
            g = [(s_, vals_, tm_) for s_, vals_, tm_ in g if tm_ is not mirlib.NEVER]
            okf = any(tm[0] == 'bin' and tm[1] == 'Eq' and const_val(tm[3]) == W['trailers_flag'] and is_call(strip_refs(tm[2]), name='get_u8') and (vals == ['else'] or 0 not in vals) for s, vals, tm in g) \
                or any(is_call(strip_casts(tm), name='get_u8') and vals == [W['trailers_flag']] for s, vals, tm in g)
            R.check(okf, 'C17.R1', 'trailer-flag-0x80', site(ft, bb, i), 'Trailer reported when the flag byte == 0x80: %r' % okf)
            def direct_u32(x):
                x = strip_casts(x)
                return is_call(x, name='get_u32')
            def direct_len(x):
                # the buffered length, possibly minus what was already walked over (len - offset - HEADER)
                x = strip_casts(strip_refs(x))
                for _ in range(4):
                    if x and x[0] == 'field' and x[1] and x[1][0] == 'bin':
                        x = x[1]
                    if x and x[0] == 'bin' and x[1] in ('Sub', 'SubWithOverflow'):
                        x = strip_casts(strip_refs(x[2]))
                    else:
                        break
                return is_call(x, name='len') or is_call(x, name='remaining')
            okc = any(tm[0] == 'bin' and tm[1] in ('Lt', 'Gt', 'Le', 'Ge') and ((direct_u32(tm[2]) and direct_len(tm[3])) or (direct_u32(tm[3]) and direct_len(tm[2]))) for s, vals, tm in g)
            R.check(okc, 'C17.R1', 'whole-trailers-frame-required', site(ft, bb, i),
                    'Trailer is reported only behind a comparison of the buffered length with the trailers frame length: %r (otherwise a chunk boundary inside the trailers frame yields a partial block and then "Invalid header bit")' % okc)
        # header completeness test uses 5
        def enough(tm, vals):
            # len < 5 false | len <= 5 false | len >= 5 true | len > 4.. : after normalisation Gt/Ge(5, len) false, Ge(len, 5) true
            o_ = mirlib.norm_cmp(tm)
            if o_[0] != 'bin':
                return False
            if o_[1] in ('Gt', 'Ge') and const_val(o_[2]) == 5 and is_call(strip_refs(o_[3]), name='len'):
                return vals == [0]
            if o_[1] == 'Ge' and const_val(o_[3]) == 5 and is_call(strip_refs(o_[2]), name='len'):
                return vals == ['else'] or 0 not in vals
            if o_[1] == 'Gt' and const_val(o_[3]) == 4 and is_call(strip_refs(o_[2]), name='len'):
                return vals == ['else'] or 0 not in vals
            return False
        # arithmetic on a length announced by the peer is done in usize: an addition / multiplication on the raw u32 (before it is
        # widened) overflows for lengths near u32::MAX — a panic in debug builds, a frame length of 0..4 (endless loop) in release
        narrow = []
        for bb_ in sorted(ft.live_blocks()):
            for i_, st_ in enumerate(ft.blocks[bb_]['stmts']):
                rv_ = st_.get('rv') if isinstance(st_, dict) else None
                if not (isinstance(rv_, dict) and 'bin' in rv_):
                    continue
                opn = rv_['bin'] if isinstance(rv_['bin'], str) else (rv_.get('op') or '')
                if not any(k_ in str(opn) for k_ in ('Add', 'Mul', 'Shl')):
                    continue
                t_ = ft._origin_def(('stmt', bb_, i_, rv_), 0, set())
                if not (t_ and t_[0] == 'bin'):
                    continue
                for side in t_[2:4]:
                    sd = strip_refs(side)
                    # the announced length used without a widening cast in between
                    if is_call(sd, pat='bytes::Buf::get_u32') or (sd and sd[0] == 'field' and is_call(strip_refs(sd[1]), pat='bytes::Buf::get_u32')):
                        narrow.append((bb_, i_, show(t_)[:80]))
        R.check(not narrow, 'C17.R1', 'length-arithmetic-in-usize', site(ft, narrow[0][0], narrow[0][1]) if narrow else site(ft), 'no arithmetic on the raw u32 frame length (it is widened first): %r' % [x[2] for x in narrow])
        gu = [(bb, t) for bb, t in ft.calls(pat='bytes::Buf::get_')]
        okh = bool(gu) and all(any(enough(tm, vals) for s_, vals, tm in ft.edge_guards(gb)) for gb, gt in gu)
        R.check(okh, 'C17.R1', 'needs-5-byte-header', site(ft), 'every header read in find_trailers is behind the false edge of len() < 5 (or <= 5): %r (%d getter sites)' % (okh, len(gu)))

    # ---------------------------------------------------------------- R2 termination / no loss in the client loop
    R.describe('C17.R2', 'client decode loop: the inner body is never polled again after it ended; a clean end requires the body ended, an empty buffer and no stored trailers; while the body is open a too-short buffer waits for more data')
    with R.guard('C17.R2'):
        pf = web.body(re.compile(r'call::GrpcWebCall<B> as http_body::Body>::poll_frame$'))
        R.saw(pf)
        pd = [(bb, t) for bb, t in pf.calls(name='poll_decode')]
        # the loop call: the one that can reach itself
        loop_calls = [(bb, t) for bb, t in pd if bb in pf.reachable(pf.succs(bb)[0])]
        if len(loop_calls) != 1:
            raise CheckError('UNRECOGNISED: %d poll_decode calls inside a loop in GrpcWebCall::poll_frame' % len(loop_calls))
        lb, lt = loop_calls[0]
        entry = lb
        # relational forward analysis from the loop call
        # state: (ended, rem, flags) with ended in 'F','T'; rem in 'F','T','?'; flags: tuple of (local, 'T'/'F')
        flag_locals = set()
        for bb in pf.live_blocks():
            for st in pf.blocks[bb]['stmts']:
                if 'p' in st and not st['p'].get('pr') and 'use' in st['rv'] and 'k' in st['rv']['use'] and isinstance(st['rv']['use']['k'].get('v'), bool):
                    if pf.tystr(pf.local_tys[st['p']['l']]) == 'bool' and pf.name_of(st['p']['l']):
                        flag_locals.add(st['p']['l'])
        # plain copies of a flag (a parameter of a helper that was handed the flag) read the flag
        flag_alias = {}
        for l_, ds_ in pf.defs().items():
            if l_ in flag_locals or len(ds_) != 1 or ds_[0][0] != 'stmt':
                continue
            rv_ = ds_[0][3]
            src_ = (rv_.get('use') or {}).get('cp') or (rv_.get('use') or {}).get('mv') if 'use' in rv_ else None
            if src_ is not None and not src_.get('pr') and src_['l'] in flag_locals and pf.tystr(pf.local_tys[l_]) == 'bool':
                flag_alias[l_] = src_['l']
        rem_locals = {t['dest']['l'] for bb, t in pf.calls(name='has_remaining') if 'decoded' in show(pf.origin(t['args'][0]))}
        empty_locals = {t['dest']['l'] for bb, t in pf.calls(name='is_empty') if 'decoded' in show(pf.origin(t['args'][0]))}

        def step_stmt(st, state):
            ended, rem, flags = state[:3]
            if 'p' in st and not st['p'].get('pr') and st['p']['l'] in flag_locals and 'use' in st['rv'] and 'k' in st['rv']['use']:
                v = st['rv']['use']['k'].get('v')
                if isinstance(v, bool):
                    fd = dict(flags)
                    fd[st['p']['l']] = 'T' if v else 'F'
                    flags = tuple(sorted(fd.items()))
            return (ended, rem, flags)

        def none_value(sw_bb):
            """switch on discr(Option) derived from the loop's poll_decode: value of the None variant"""
            o = pf.origin(pf.term(sw_bb)['on'])
            if o[0] == 'discr' and o[2] and term_contains(o[1], lambda x: is_call(x, name='poll_decode')):
                names = {n: v for v, n in o[2]}
                if 'None' in names and 'Some' in names:
                    # must be the option directly under Ready
                    base = strip_refs(o[1])
                    if base[0] == 'field' and base[1][0] == 'variant' and base[1][2] == 'Ready':
                        return names['None']
            return None

        inp = {}
        # 4th component: what is known about enum-valued locals on the way (variant built / matched), so that an intermediate
        # outcome value (e.g. a private NeedMore/Item enum) correlates with the flag test that produced it
        init = ('F', '?', tuple(sorted((l, 'F') for l in flag_locals)), frozenset())
        # flags' initial values: take what was assigned before the loop (dominating assignment), default F
        inp[entry] = {init}
        work = deque([entry])
        viol_repoll = []
        first = True
        while work:
            bb = work.popleft()
            states = inp[bb]
            out_states = set()
            t = pf.term(bb)
            feas_of = {}
            for state in states:
                s2 = state[:3]
                for st in pf.blocks[bb]['stmts']:
                    s2 = step_stmt(st, s2)
                try:
                    pe = pf._ps_edges(bb, dict(state[3]))
                except Exception:
                    pe = [(x_, {}) for x_ in pf.succs(bb)]
                s2 = s2 + (state[3],)
                out_states.add(s2)
                feas_of[s2] = {x_: frozenset((k_, v_) for k_, v_ in kn_.items() if isinstance(v_, tuple) and all(not isinstance(e_, (dict, list)) for e_ in v_)) for x_, kn_ in pe}
            if t['k'] == 'call' and t.get('name') == 'poll_decode' and bb == lb:
                for s in states:
                    if s[0] == 'T' and not first:
                        viol_repoll.append(s[:3])
                out2 = set()
                for s in out_states:
                    s3 = (s[0], '?', s[2], s[3])
                    feas_of[s3] = feas_of[s]
                    out2.add(s3)
                out_states = out2
            first = False
            succ_states = {}
            if t['k'] == 'switch':
                nv = none_value(bb)
                on = t['on']
                onl = mirlib.root_local(pf, on) if ('cp' in on or 'mv' in on) else None
                onl = flag_alias.get(onl, onl)
                for tgt, vals in pf.switch_edges(bb).items():
                    res = set()
                    for st4 in out_states:
                        (ended, rem, flags, know_) = st4
                        if tgt not in feas_of[st4]:
                            continue  # the value switched on is known on this path
                        know2_ = feas_of[st4][tgt]
                        fl = dict(flags)
                        truth = None
                        if vals == [0]:
                            truth = False
                        elif vals == ['else'] or (0 not in vals and 'else' not in vals):
                            truth = True
                        if nv is not None:
                            if nv in vals:
                                ended = 'T'
                        if onl in flag_locals and truth is not None:
                            if fl.get(onl) is not None and fl[onl] != ('T' if truth else 'F'):
                                continue
                        if onl in rem_locals and truth is not None:
                            if rem != '?' and rem != ('T' if truth else 'F'):
                                continue
                            rem = 'T' if truth else 'F'
                        if onl in empty_locals and truth is not None:
                            rem = 'F' if truth else 'T'
                        # negations: switch on Not(flag)
                        o = pf.origin(on)
                        if o[0] == 'un' and o[1] == 'Not' and o[2][0] == 'local' and o[2][1] in flag_locals and truth is not None:
                            if fl.get(o[2][1]) != ('F' if truth else 'T'):
                                continue
                        res.add((ended, rem, tuple(sorted(fl.items())), know2_))
                    succ_states[tgt] = res
            else:
                for tgt in pf.succs(bb):
                    succ_states[tgt] = {st4[:3] + (feas_of[st4][tgt],) for st4 in out_states if tgt in feas_of[st4]}
            for tgt, res in succ_states.items():
                if not res:
                    continue
                old = inp.get(tgt, set())
                new = old | res
                if new != old:
                    inp[tgt] = new
                    if tgt not in work:
                        work.append(tgt)
        # flags mirror `ended`: a flag set to true on the None edge; correlate: states with a flag T imply ended T (sanity)
        R.check(not viol_repoll, 'C17.R2', 'no-repoll-after-end', site(pf, lb),
                'poll_decode can be re-entered with the inner body already ended (states %r): a body cut off inside a message makes the loop poll the finished body forever' % sorted(set(viol_repoll))[:3])
        # clean ends
        n_end = 0
        fadt = None
        # every place the end of the stream is produced: a None of the item type Option<Result<Frame<..>, Status>> (returned directly,
        # through a local, or wrapped in an intermediate outcome value), or trailers.take().map(..) which is None when nothing is stored
        end_sites = []
        for bb_, i_, p_, a_, ops_ in mirlib.aggregates(pf, 'option::Option', 'None'):
            if any('Result<' in g_ and 'Frame<' in g_ for g_ in (a_.get('ga') or [])):
                end_sites.append((bb_, False))
        for bb_, t_ in pf.calls(name='map'):
            if 'Option' in (t_.get('fn') or '') and is_call(strip_refs(pf.origin(t_['args'][0])), name='take') and mentions_field(pf.origin(t_['args'][0]), 'trailers') and any('Frame<' in g_ for g_ in (t_.get('ga') or [])):
                end_sites.append((bb_, True))
        # .. or `trailers.take()?` in a helper returning the final item: the residual None, exactly when nothing is stored
        for bb_, t_ in pf.calls(name='from_residual'):
            a0_ = pf.origin(t_['args'][0]) if t_['args'] else None
            if (t_.get('ga') or [''])[0].startswith(('std::option::Option<std::result::Result<', 'core::option::Option<core::result::Result<')) and 'Frame<' in t_['ga'][0] \
                    and term_contains(a0_, lambda x: is_call(x, name='take')) and mentions_field(a0_, 'trailers'):
                end_sites.append((bb_, True))
        for sb0, flush_or_end in end_sites:
            if True:
                srcs = [sb0]
                if True:
                    pass
                for sb in srcs:
                    if sb not in inp:
                        continue
                    n_end += 1
                    g = pf.edge_guards(sb)
                    in_trailer_arm = any(show(tm).startswith('discr(') and 'find_trailers' in show(tm) and tm[2] and any(n == 'Trailer' and v in vals for v, n in tm[2]) for s, vals, tm in g if tm[0] == 'discr')
                    taken = flush_or_end or any(show(tm).startswith('discr(') and 'take(' in show(tm) and 'trailers' in show(tm) and (vals == [0] or vals == ['else']) for s, vals, tm in g)
                    if in_trailer_arm:
                        R.check(taken, 'C17.R2', 'clean-end@trailer-arm', site(pf, sb), 'after the trailers frame: ends only when no trailers are stored: %r' % taken)
                        continue
                    sts = inp[sb]
                    ok_ended = all(s[0] == 'T' for s in sts)
                    ok_empty = all(s[1] == 'F' for s in sts)
                    R.check(ok_ended, 'C17.R2', 'clean-end-only-after-body-end', site(pf, sb),
                            'Ready(None) reachable with the inner body still open (states %r): a first chunk shorter than a frame header ends the stream' % sorted(sts)[:4])
                    R.check(ok_empty, 'C17.R2', 'clean-end-only-with-empty-buffer', site(pf, sb),
                            'Ready(None) reachable with undecoded bytes left (states %r): a body cut inside a frame header ends cleanly' % sorted(sts)[:4])
                    R.check(taken, 'C17.R2', 'clean-end-flushes-stored-trailers', site(pf, sb),
                            'Ready(None) is returned only when trailers.take() is None: %r (trailers that arrived in the same chunk as a message must still be handed out)' % taken)
        R.floor('C17.R2', 'clean-end sites in the client loop', n_end, 1)
        # stored trailers: both stores are followed by a path that can return them (take + Frame::trailers exists)
        tk = [(bb, t) for bb, t in pf.calls(name='take') if 'trailers' in show(pf.origin(t['args'][0]))]
        R.check(len(tk) >= 1, 'C17.R2', 'stored-trailers-returned', site(pf), 'trailers.take() sites: %d' % len(tk))
        # data frames: whole frames only (split_to(len from find_trailers))
        for bb, t in pf.calls(name='split_to'):
            a = pf.origin(t['args'][1])
            R.check(term_contains(a, lambda x: x and x[0] == 'variant' and x[2] == 'Done'), 'C17.R2', 'data-whole-frames', site(pf, bb), 'split_to(%s): length of complete frames reported by find_trailers' % show(a)[:80])
        nd = 0
        for bb, t in pf.calls(name='data'):
            if 'Frame' not in (t.get('fn') or '') or bb not in inp:
                continue
            nd += 1
            a = pf.origin(t['args'][0])
            ok1 = term_contains(a, lambda x: is_call(x, name='split_to') and term_contains(x[2][1], lambda y: y and y[0] == 'variant' and y[2] == 'Done'))
            ok2 = term_contains(a, lambda x: is_call(x, name='copy_to_bytes') and term_contains(x[2][1], lambda y: y and y[0] == 'variant' and y[2] in ('Trailer',)))
            R.check(ok1 or ok2, 'C17.R2', 'data-frame-is-complete-frames', site(pf, bb),
                    'Frame::data(%s): must be exactly the complete frames counted by find_trailers (split_to(Done len) / copy_to_bytes(Trailer offset)); a started frame header must stay buffered' % show(a)[:100])
        R.floor('C17.R2', 'data frames produced in the client loop', nd, 2)
        for bb, t in pf.calls(name='copy_to_bytes'):
            a = pf.origin(t['args'][1])
            if 'decoded' in show(pf.origin(t['args'][0])):
                R.check(term_contains(a, lambda x: x and x[0] == 'variant' and x[2] == 'Trailer'), 'C17.R2', 'messages-before-trailers', site(pf, bb), 'copy_to_bytes(%s): bytes ahead of the trailers frame' % show(a)[:80])

    # ---------------------------------------------------------------- R3 wrapping
    with R.guard('C17.R2', 'parked-trailers'):
        # trailers parked in self.trailers (because message bytes are handed out first) must still be reachable on the next poll:
        # the path that parks them leaves `direction` alone, so the decode arm is entered again and flushes them
        pf = web.body(re.compile(r'call::GrpcWebCall<B> as http_body::Body>::poll_frame$'))
        rows = mirlib.path_rows(pf, limit=100000)
        npark = 0
        for cons, path in rows:
            parks = [bb_ for bb_ in path if pf.term(bb_)['k'] == 'call' and pf.term(bb_).get('name') in ('replace', 'insert', 'get_or_insert') and mentions_field(pf.origin(pf.term(bb_)['args'][0]), 'trailers')]
            # or a plain store through a reference to the slot: *slot = Some(trailers)
            parks += [bb_ for bb_ in path for i_, st_ in enumerate(pf.blocks[bb_]['stmts']) if 'p' in st_ and st_['p'].get('pr')
                      and (lambda v_: v_[0] == 'agg' and v_[1].get('variant') == 'Some')(strip_refs(pf._origin_def(('stmt', bb_, i_, st_['rv']), 0, set())))
                      and (mirlib.place_fields(st_['p'])[-1:] == ['trailers'] or (st_['p']['pr'] == ['*'] and mentions_field(pf.origin(st_['p']['l']), 'trailers')))]
            takes = [bb_ for bb_ in path if pf.term(bb_)['k'] == 'call' and pf.term(bb_).get('name') == 'take' and mentions_field(pf.origin(pf.term(bb_)['args'][0]), 'trailers')]
            val = pf.ret_on_path(path)
            delivered = has_fn(val, 'trailers', 'Frame') and bool(takes)
            dw = pf.writes_on_path(path, lambda p_: mirlib.place_fields(p_)[-1:] == ['direction'])
            dcalls = [bb_ for bb_ in path if pf.term(bb_)['k'] == 'call' and mirlib.place_fields(pf.term(bb_)['dest'])[-1:] == ['direction']]
            if parks and not delivered:
                npark += 1
                R.check(not dw and not dcalls, 'C17.R2', 'parked-trailers-stay-reachable', site(pf, (dw[0][0] if dw else path[-1])),
                        'a path that stores the trailers and returns something else changes `direction` (%d write(s)): the next poll would not reach the code that flushes them' % (len(dw) + len(dcalls)))
        R.floor('C17.R2', 'paths that park the trailers', npark, 1)
        # and direction is only ever set by the constructors
        dws = [(b_, bb_, i_) for b_ in web.bodies if b_.kind != 'promoted' and 'GrpcWebCall' in b_.path for bb_, i_, st_ in mirlib.assignments(b_, lambda st_: mirlib.place_fields(st_['p'])[-1:] == ['direction'])]
        R.note('assignments to GrpcWebCall.direction outside aggregate construction: %d' % len(dws))

    R.describe('C17.R3', 'GrpcWebClientService::call sets content-type application/grpc-web and wraps request/response bodies with client_request/client_response')
    with R.guard('C17.R3'):
        cb = web.body(re.compile(r'client::GrpcWebClientService<S> as tower_service::Service<http::Request<B1>>>::call$'))
        R.saw(cb)
        ins = cb.calls(pat='HeaderMap', name='insert')
        okc = False
        for bb, t in ins:
            if (constdef(cb.origin(t['args'][1])) or '').endswith('CONTENT_TYPE'):
                v = cb.origin(t['args'][2])
                okc = term_contains(v, lambda x: x and x[0] == 'const' and x[1] == 'application/grpc-web') or mentions_constdef(v, 'GRPC_WEB')
        R.check(okc, 'C17.R3', 'content-type', site(cb), 'content-type: application/grpc-web inserted')
        R.eq(web.const('call::content_types::GRPC_WEB').get('v'), 'application/grpc-web', 'C17.R3', 'GRPC_WEB-const', '', 'GRPC_WEB')
        mp = cb.calls(pat='Request', name='map')
        def maps_with(body_, t_, ctor, depth=0):
            # .map(GrpcWebCall::<ctor>) or .map(|b| GrpcWebCall::<ctor>(b, ..)) with the closure's own parameter as the body
            for a in t_['args']:
                if 'k' in a and a['k'].get('fn', '').endswith(ctor):
                    return True
                # .. or a named private function that does the wrapping: fn f(r: Response<B>) { r.map(GrpcWebCall::<ctor>) } or
                # { let (parts, body) = r.into_parts(); Response::from_parts(parts, GrpcWebCall::<ctor>(body)) }
                fp_ = a['k'].get('fn') if 'k' in a else None
                hb_ = (web.helper_defs.get(fp_) or (web.by_path.get(fp_) or [None])[0]) if fp_ and depth < 2 else None
                if hb_ is not None and hb_.kind == 'fn':
                    if any(maps_with(hb_, t2, ctor, depth + 1) for bb2, t2 in hb_.calls(name='map')):
                        return True
                    for bb2, t2 in hb_.calls(name=ctor):
                        if 'GrpcWebCall' not in (t2.get('fn') or '') or not mentions_arg(hb_.origin(t2['args'][0]), 1) or not mentions_call(hb_.origin(t2['args'][0]), name='into_parts'):
                            continue
                        fps_ = [t3 for bb3, t3 in hb_.calls(name='from_parts') if t3['dest']['l'] == 0 and len(t3['args']) == 2 and is_call(strip_refs(hb_.origin(t3['args'][1])), name=ctor)
                                and mentions_call(hb_.origin(t3['args'][0]), name='into_parts')]
                        if len(fps_) == 1 and all(hb_.dominates(bb2, rb_) for rb_ in hb_.return_blocks()):
                            return True
                o_ = strip_refs(body_.origin(a))
                if o_ and o_[0] == 'agg' and isinstance(o_[1], dict) and o_[1].get('def'):
                    cl_ = [x for x in web.bodies if x.path == o_[1]['def']]
                    for c_ in cl_:
                        for bb2, t2 in c_.calls(name=ctor):
                            if 'GrpcWebCall' in (t2.get('fn') or '') and arg_root(strip_refs(c_.origin(t2['args'][0]))) == 2 and t2['dest']['l'] == 0:
                                return True
            return False
        R.check(len(mp) == 1 and maps_with(cb, mp[0][1], 'client_request'), 'C17.R3', 'request-wrapped', site(cb), 'req.map(GrpcWebCall::client_request)')
        rp = web.body(re.compile(r'client::ResponseFuture<F> as std::future::Future>::poll$'))
        fam = [rp] + [c for c in web.bodies if c.path.startswith(rp.path + '::') and c.kind == 'closure']
        okr = any(maps_with(fb, t, 'client_response') for fb in fam for bb, t in fb.calls(name='map'))
        R.check(okr, 'C17.R3', 'response-wrapped', site(rp), 'response.map(GrpcWebCall::client_response)')
        # .. whatever the response says about itself: no other body wrapper is chosen (e.g. by content-type) next to client_response
        other_wrap = [t['name'] for fb in fam for bb, t in fb.calls() if 'GrpcWebCall' in (t.get('fn') or '') and t.get('name') in ('request', 'response', 'client_request', 'new')]
        other_wrap += [a['k']['fn'].rsplit('::', 1)[-1] for fb in fam for bb, t in fb.calls(name='map') for a in t['args'] if 'k' in a and 'GrpcWebCall' in (a['k'].get('fn') or '') and not a['k']['fn'].endswith('client_response')]
        R.check(not other_wrap, 'C17.R3', 'response-always-client_response', site(rp), 'the response body is always wrapped with client_response (other GrpcWebCall constructors used: %r)' % other_wrap)
        def built_by(caller, t_):
            """the GrpcWebCall a constructor call builds, as {field: [values]}, with the constant arguments of this call site applied:
            only the constructor's paths consistent with them count (so new(.., Role::Client) is read like new_client(..))"""
            cands = [x for x in web.bodies if x.kind == 'fn' and x.path == (t_.get('fn') or '')]
            if len(cands) != 1:
                raise CheckError('UNRECOGNISED: constructor %s called from %s not found' % (t_.get('fn'), caller.path))
            cal = cands[0]
            R.saw(cal)
            argv = {}
            for n_, a_ in enumerate(t_['args']):
                v_ = strip_refs(mirlib.simplify(caller.origin(a_)))
                if v_ and v_[0] == 'agg' and v_[1].get('variant') and not v_[2]:
                    argv[n_ + 1] = ('variant', v_[1]['variant'])
                elif isinstance(const_val(v_), bool):
                    argv[n_ + 1] = ('bool', const_val(v_))
            ag_ = mirlib.aggregates(cal, 'call::GrpcWebCall')
            if len(ag_) != 1:
                raise CheckError('UNRECOGNISED: %s builds %d GrpcWebCall values' % (cal.path, len(ag_)))
            abb, ai, ap, aa, aops = ag_[0]
            meta_ = {}
            out = {}
            for cons_, path_ in mirlib.path_rows(cal, stop={abb}, meta=meta_):
                if path_[-1] != abb:
                    continue
                consistent = True
                for sub_, op_, v_ in cons_:
                    tm_ = meta_.get('__terms__', {}).get(sub_)
                    base_ = strip_refs(tm_[1]) if tm_ and tm_[0] == 'discr' else strip_refs(tm_) if tm_ else None
                    if not (base_ and base_[0] == 'arg' and base_[1] in argv):
                        continue
                    kind_, val_ = argv[base_[1]]
                    if kind_ == 'variant' and tm_[0] == 'discr' and len(tm_) > 2 and tm_[2]:
                        names_ = dict(tm_[2])
                        if op_ == '==' and names_.get(v_) != val_:
                            consistent = False
                        if op_ == 'notin' and val_ in [names_.get(x_) for x_ in v_]:
                            consistent = False
                        if op_ == 'in' and val_ not in [names_.get(x_) for x_ in v_]:
                            consistent = False
                    elif kind_ == 'bool':
                        truth_ = (op_ == '==' and v_ not in (0, False)) or (op_ in ('!=',) and v_ in (0, False)) or (op_ == 'notin' and 0 in v_)
                        if truth_ != val_:
                            consistent = False
                if not consistent:
                    continue
                for f_, o_ in zip(aa['fields'], aops):
                    v_ = strip_refs(mirlib.simplify(cal.origin_on_path(o_, path_)))
                    if v_ and v_[0] == 'arg' and v_[1] - 1 < len(t_['args']):
                        v_ = strip_refs(mirlib.simplify(caller.origin(t_['args'][v_[1] - 1])))
                    elif v_ and is_call(v_) and v_[3] in ('eq', 'ne'):
                        # a flag computed from a parameter (`role == Role::Client`): read with the caller's argument in its place
                        v_ = _subst_args(v_, lambda n_: strip_refs(mirlib.simplify(caller.origin(t_['args'][n_ - 1]))) if n_ - 1 < len(t_['args']) else None)
                    out.setdefault(f_, [])
                    if v_ not in out[f_]:
                        out[f_].append(v_)
            return cal, out
        for nm, dirn, cl in (('client_request', 'Encode', True), ('client_response', 'Decode', True)):
            b = web.body('call::GrpcWebCall::<B>::' + nm)
            ctor_calls = [(bb_, t_) for bb_, t_ in b.calls() if 'GrpcWebCall' in (t_.get('fn') or '') and t_['dest']['l'] == 0]
            if len(ctor_calls) != 1:
                raise CheckError('ANCHOR-MISSING: %s does not return the result of one GrpcWebCall constructor call (%d)' % (nm, len(ctor_calls)))
            bb, t = ctor_calls[0]
            cal, flds = built_by(b, t)
            dv = flds.get('direction', [])
            R.check(len(dv) == 1 and dv[0][0] == 'agg' and dv[0][1].get('variant') == dirn, 'C17.R3', '%s:direction' % nm, site(b, bb), 'direction = %s' % [show(x) for x in dv])
            cv = flds.get('client', [])
            R.check(len(cv) == 1 and _flag_value(cv[0]) is True, 'C17.R3', 'new_client:client=true' if nm == 'client_request' else 'new_client:client=true@response', site(cal), 'client flag of the body built by %s: %s' % (nm, [show(x) for x in cv]))
