"""C11 — generated clients and servers agree with each other and with checked-in code (structural clauses)."""
import os, re, glob
from collections import Counter
from common import *
import mirlib
import gen

META = {
    'explanation': 'Generator level (tonic-build): one path formatter and one service-name formatter feed both the client and the server '
                   'templates, with the same emit_package setting plumbed to both; the (client_streaming, server_streaming) -> leaf '
                   'generator tables of both sides equal the kind table; the prost adapters return the protobuf names for identifier() '
                   'and the same-named streaming flags. Instance level: for every generated service in the build (committed files and '
                   'the build.rs output of every workspace crate) client paths = server arms = NAME prefix, kinds, handler names and '
                   'codec types agree. Drift: every committed generated item has the same call/aggregate shape as the freshly '
                   'generated item of the same streaming kind in the interop crate. Bootstrap manifest of codegen/src/main.rs names '
                   'existing files and covers the committed generated sources.',
    'exhaustive': True,
    'assumptions': ['prost-build hands the service descriptors to tonic-build unchanged'],
}

KIND_TABLE = {(False, False): 'unary', (False, True): 'server_streaming', (True, False): 'client_streaming', (True, True): 'streaming'}


def shape(b, crate):
    """order-insensitive shape of a body: multiset of callee names (generic args / crate-specific type names stripped) and aggregate variants"""
    def norm(p):
        p = short(p or '?')
        p = re.sub(r'<.* as (.*)>', r'\1', p)
        p = re.sub(r'\b\w+_(server|client)::\w+', r'GEN', p)
        return p.split('::')[-2] + '::' + p.split('::')[-1] if '::' in p else p
    calls = Counter(norm(t.get('fn')) for bb, t in b.calls() if not any(c in mirlib.IGNORED_MACRO_CRATES for c in mirlib.mac_crates(t)))
    aggs = Counter((a.get('kind'), a.get('variant') if a.get('kind') == 'adt' and not re.search(r'(Svc|Server|Client)$', a.get('variant') or '') else 'X') for bb, i, p, a, ops in mirlib.aggregates(b))
    return calls, aggs


def run(R):
    tb = R.crate('tonic_build')
    services = gen.collect(R)

    # ---------------------------------------------------------------- R6 the checked-in sources are what the generator writes today (transport twin)
    R.describe('C11.R6', 'the `codegen` crate builds tonic-build without its `transport` feature: in that configuration generate_connect emits nothing, and the checked-in generated clients (health, reflection) have no connect() constructor — the cfg twin of generate_connect has not been merged away')
    with R.guard('C11.R6'):
        import extract
        tbn = R.crate('tonic_build', 'build_notransport', extract.CONFIGS['build_notransport'])
        gc = tbn.body('tonic_build::client::generate_connect')
        R.saw(gc)
        emits = [t_.get('fn') for bb_, t_ in gc.calls() if 'quote::' in (t_.get('fn') or '') or (t_.get('name') in ('parse', 'extend', 'append', 'push_ident', 'push_group', 'to_tokens'))]
        news = gc.calls(pat='TokenStream', name='new')
        R.check(not emits and len(news) >= 1, 'C11.R6', 'no-transport:generate_connect-empty', site(gc), 'without the transport feature generate_connect returns an empty token stream whatever build_transport says: token-building calls %r' % sorted(set(x.split('::')[-1] for x in emits if x))[:6])
        gct = tb.body('tonic_build::client::generate_connect')
        emits_t = [1 for bb_, t_ in gct.calls() if 'quote::' in (t_.get('fn') or '')]
        R.check(bool(emits_t), 'C11.R6', 'transport:generate_connect-emits', site(gct), 'with the transport feature the same function does emit connect() (positive control for the query above)')
        for cn in ('tonic_health', 'tonic_reflection'):
            cr_ = R.crate(cn)
            cons_ = [b_.path for b_ in cr_.bodies if b_.kind == 'fn' and re.search(r'_client::\w+Client::<.*>::connect$', b_.path)]
            R.check(not cons_, 'C11.R6', 'checked-in:%s:no-connect' % cn, '', 'connect() constructors in the checked-in generated client code of %s: %r' % (cn, cons_[:3]))

    # ---------------------------------------------------------------- R1 one formatter, same emit_package on both sides
    R.describe('C11.R1', 'tonic-build: every client leaf generator and the server method generator build the path with format_method_path(service, method, emit_package); both service-name uses call format_service_name; the prost ServiceGenerator plumbs builder.emit_package to both the client and the server code generators')
    with R.guard('C11.R1'):
        gen.check_formatters(R, 'C11.R1')
        gms = tb.body('tonic_build::client::generate_methods')
        one_generator = not tb.find('tonic_build::client::generate_unary') and not [1 for bb_, t_ in gms.calls() if (t_.get('name') or '')[9:] in gen.KINDS and t_['name'].startswith('generate_')]
        for k in gen.KINDS:
            if one_generator:
                # the four leaves folded into one parametrised generator (spliced into generate_methods): one path, one service name
                R.saw(gms)
                c = gms.calls(name='format_method_path')
                okc = len(c) == 1 and arg_root(strip_refs(gms.origin(c[0][1]['args'][0]))) == 1 and term_contains(gms.origin(c[0][1]['args'][1]), lambda x: is_call(x, name='next')) and strip_refs(gms.origin(c[0][1]['args'][2]))[0] == 'arg'
                R.check(okc, 'C11.R1', 'client:%s:path-from-formatter' % k, site(gms), 'format_method_path(service, method, emit_package) in the one client method generator: %d site(s)' % len(c))
                s2 = gms.calls(name='format_service_name')
                R.check(okc and len(s2) == 1 and strip_refs(gms.origin(s2[0][1]['args'][1])) == strip_refs(gms.origin(c[0][1]['args'][2])) and arg_root(strip_refs(gms.origin(s2[0][1]['args'][0]))) == 1, 'C11.R1', 'client:%s:service-name-from-formatter' % k, site(gms), 'GrpcMethod service name from format_service_name(service, emit_package)')
                continue
            b = tb.body('tonic_build::client::generate_' + k)
            R.saw(b)
            c = b.calls(name='format_method_path')
            if c:
                okc = len(c) == 1 and show(strip_refs(b.origin(c[0][1]['args'][0]))).startswith('arg1') and show(strip_refs(b.origin(c[0][1]['args'][1]))).startswith('arg2') and strip_refs(b.origin(c[0][1]['args'][2]))[0] == 'arg'
                R.check(okc, 'C11.R1', 'client:%s:path-from-formatter' % k, site(b), 'format_method_path(service, method, emit_package): %d site(s)' % len(c))
                s2 = b.calls(name='format_service_name')
                R.check(len(s2) == 1 and strip_refs(b.origin(s2[0][1]['args'][1])) == strip_refs(b.origin(c[0][1]['args'][2])), 'C11.R1', 'client:%s:service-name-from-formatter' % k, site(b), 'GrpcMethod service name from format_service_name(service, emit_package)')
            else:
                # the leaf receives its strings ready-made (a struct of pieces built by its caller): then every call site must
                # hand it format_method_path(service, method, emit_package) and format_service_name(service, that emit_package)
                sites = call_sites_in_crate(tb, pat=b.path)
                okc = bool(sites)
                oks = bool(sites)
                for cb_, bb_, t_ in sites:
                    parts = []
                    for a_ in t_['args']:
                        parts += built_parts(mirlib.simplify(forigin(tb, cb_, a_)))
                    fields = [o_ for ag_ in parts if ag_ and ag_[0] == 'agg' for o_ in ag_[2]]
                    pc = [strip_refs(x) for x in fields if is_call(strip_refs(x), name='format_method_path')]
                    sc = [strip_refs(x) for x in fields if is_call(strip_refs(x), name='format_service_name')]
                    ok1 = len(pc) == 1 and arg_root(strip_refs(pc[0][2][0])) is not None and loc_of(strip_refs(pc[0][2][2])) is not None
                    okc = okc and ok1
                    oks = oks and ok1 and len(sc) == 1 and strip_refs(sc[0][2][1]) == strip_refs(pc[0][2][2]) and strip_refs(sc[0][2][0]) == strip_refs(pc[0][2][0])
                R.check(okc, 'C11.R1', 'client:%s:path-from-formatter' % k, site(b), 'every call site (%d) hands the leaf a struct holding format_method_path(service, method, emit_package)' % len(sites))
                R.check(oks, 'C11.R1', 'client:%s:service-name-from-formatter' % k, site(b), 'GrpcMethod service name from format_service_name(service, emit_package), same service and flag')
        callers = sorted({re.sub(r'(::\{closure#\d+\})+$', '', short(bd.path)) for bd, bb, t in call_sites_in_crate(tb, name='format_method_path')})
        stray = [c_ for c_ in callers if not re.match(r'tonic_build::(client|server)::', c_)]
        R.check(not stray and any('::server::' in c_ for c_ in callers) and any('::client::' in c_ for c_ in callers), 'C11.R1', 'formatter-callers', '', 'callers of format_method_path are the client and server generators: %r' % callers)
        pg = tb.body(re.compile(r'<prost::ServiceGenerator as prost_build::ServiceGenerator>::generate$'))
        R.saw(pg)
        ep = pg.calls(name='emit_package')
        R.check(len(ep) == 2 and all(field_names(pg.origin(t['args'][1]))[-1:] == ['emit_package'] for bb, t in ep), 'C11.R1', 'prost:emit_package-to-both', site(pg), '.emit_package(self.builder.emit_package) sites: %d (client and server builders)' % len(ep))
        for side in ('generate_client', 'generate_server'):
            c = pg.calls(name=side)
            okc = len(c) == 1 and term_contains(pg.origin(c[0][1]['args'][0]), lambda x: is_call(x, name='emit_package'))
            R.check(okc, 'C11.R1', 'prost:%s-chain-has-emit_package' % side, site(pg), 'the builder chain of %s includes .emit_package(..): %r' % (side, okc))
        cg = {'generate_client': 'client::generate_internal', 'generate_server': 'server::generate_internal'}
        for m_, inner in cg.items():
            b = tb.body('tonic_build::code_gen::CodeGenBuilder::' + m_)
            R.saw(b)
            c = b.calls(pat=inner)
            okc = len(c) == 1 and any(field_names(b.origin(a))[-1:] == ['emit_package'] for a in c[0][1]['args'])
            R.check(okc, 'C11.R1', 'code_gen:%s-passes-emit_package' % m_, site(b), '%s(.., self.emit_package, ..): %r' % (inner, okc))
        for side in ('client', 'server'):
            b = tb.body('tonic_build::%s::generate_internal' % side)
            c = b.calls(name='format_service_name')
            R.check(len(c) == 1 and strip_refs(b.origin(c[0][1]['args'][1]))[0] == 'arg', 'C11.R1', '%s:SERVICE_NAME-from-formatter' % side, site(b), 'format_service_name(service, emit_package) in %s::generate_internal' % side)

    # ---------------------------------------------------------------- R2 kind table
    R.describe('C11.R2', '(client_streaming, server_streaming) -> leaf generator is the same kind table on the client and the server side; prost adapters: identifier() = proto_name, name() = name, streaming flags read the same-named descriptor fields')
    with R.guard('C11.R2'):
        for side, fn in (('client', 'tonic_build::client::generate_methods'),):
            b = tb.body(fn)
            R.saw(b)
            leaves = {bb: t['name'] for bb, t in b.calls() if (t.get('name') or '').startswith('generate_') and t['name'][9:] in gen.KINDS}
            param_form = None
            if not leaves:
                # one generator parametrised by the kind: the entry-point identifier is made from a literal per kind
                # (format_ident!("unary") ..) on the arm the two flags select, and interpolated into the one template
                def ident_lit(t_):
                    ks_ = [const_val(x) for x in find_terms(b.origin(t_['args'][0]), lambda x: x and x[0] == 'const' and isinstance(const_val(x), str))]
                    return ks_[0] if len(ks_) == 1 and ks_[0] in gen.KINDS else None
                leaves = {bb: 'generate_' + ident_lit(t) for bb, t in b.calls(name='mk_ident') if ident_lit(t)}
                param_form = dict(leaves)
            rows = decision_rows(b, 0, set(leaves), relevant=lambda s: 'client_streaming' in s or 'server_streaming' in s)
            table = {}
            for cons, bb in rows:
                cs = bool_guard(cons, lambda s: 'client_streaming' in s)
                ss = bool_guard(cons, lambda s: 'server_streaming' in s)
                table[(cs, ss)] = leaves[bb][9:] if (cs, ss) not in table or table[(cs, ss)] == leaves[bb][9:] else 'ambiguous'
            client_param_form = (b, param_form) if param_form else None
            for k, v in KIND_TABLE.items():
                R.eq(table.get(k), v, 'C11.R2', '%s:kind:%s' % (side, v), site(b), 'leaf generator for (client_streaming=%s, server_streaming=%s)' % k)
        sb = focus_body(tb, 'tonic_build::server::generate_methods', name='client_streaming')
        R.saw(sb)
        # the server side switches on the same two flags and names the runtime entry point / service trait in its templates
        cs = sb.calls(name='client_streaming')
        ss = sb.calls(name='server_streaming')
        R.check(len(cs) >= 1 and len(ss) >= 1, 'C11.R2', 'server:reads-both-flags', site(sb), 'client_streaming() sites %d, server_streaming() sites %d' % (len(cs), len(ss)))
        leaves = {bb: t['name'] for bb, t in sb.calls() if (t.get('name') or '').startswith('generate_') and t['name'][9:] in gen.KINDS}
        if leaves:
            rows = decision_rows(sb, 0, set(leaves), relevant=lambda s: 'client_streaming' in s or 'server_streaming' in s)
            table = {}
            for cons, bb in rows:
                table[(bool_guard(cons, lambda s: 'client_streaming' in s), bool_guard(cons, lambda s: 'server_streaming' in s))] = leaves[bb][9:]
            for k, v in KIND_TABLE.items():
                R.eq(table.get(k), v, 'C11.R2', 'server:kind:%s' % v, site(sb), 'server leaf generator for (client_streaming=%s, server_streaming=%s)' % k)
        R.floor('C11.R2', 'server leaf generators', len(leaves), 4)
        # leaf templates name the runtime entry point of their own kind (identifier pushed into the quote! token stream)
        for side in ('client', 'server'):
            if side == 'client' and client_param_form:
                gb, sites_ = client_param_form
                R.saw(gb)
                made = {gb.term(bb_).get('t') for bb_ in sites_}
                uses = [(bb_, t_) for bb_, t_ in gb.calls(name='to_tokens') if 'Ident' in str(t_.get('self_ty')) and
                        {x[4].get('t') for x in find_terms(gb.origin(t_['args'][0]), lambda x: is_call(x, name='mk_ident'))} & made]
                lits = [const_val(gb.origin(t_['args'][1])) for bb_, t_ in gb.calls(name='push_ident') if len(t_['args']) > 1]
                for k in gen.KINDS:
                    mine = {gb.term(bb_).get('t') for bb_, n_ in sites_.items() if n_ == 'generate_' + k}
                    oku = len(uses) == 1 and bool(mine) and mine <= {x[4].get('t') for x in find_terms(gb.origin(uses[0][1]['args'][0]), lambda x: is_call(x, name='mk_ident'))} and not [l_ for l_ in lits if l_ in gen.KINDS]
                    R.check(oku, 'C11.R2', 'client:template:%s:entry-point' % k, site(gb, uses[0][0]) if uses else site(gb), 'the identifier made for kind %s is the one interpolated as the runtime entry point of the client template (interpolation sites: %d); no entry point is spelled literally' % (k, len(uses)))
                continue
            for k in gen.KINDS:
                b = tb.body('tonic_build::%s::generate_%s' % (side, k))
                R.saw(b)
                idents = [const_val(b.origin(t['args'][1])) for bb, t in b.calls(name='push_ident') if len(t['args']) > 1]
                # .. and identifiers made from a string and interpolated (`format_ident!("{}", name)` with the name a literal of the leaf)
                idents += [const_val(x) for bb, t in b.calls(name='mk_ident') for x in find_terms(b.origin(t['args'][0]), lambda x: x and x[0] == 'const' and isinstance(const_val(x), str) and const_val(x) in gen.KINDS)]
                names = [i for i in idents if i in gen.KINDS]
                traits = [i for i in idents if isinstance(i, str) and i.endswith('Service') and i[:-7] in gen.KIND_OF_TRAIT]
                okk = bool(names) and set(names) == {k}
                R.check(okk, 'C11.R2', '%s:template:%s:entry-point' % (side, k), site(b), 'runtime entry point identifiers in the %s template of kind %s: %r' % (side, k, sorted(set(names))))
                if side == 'server':
                    R.check(bool(traits) and {gen.KIND_OF_TRAIT[t[:-7]] for t in traits} == {k}, 'C11.R2', 'server:template:%s:service-trait' % k, site(b), 'service trait named in the template: %r' % sorted(set(traits)))
        # R2b adapters
        for impl_ty, table in (('TonicBuildService', {'name': ['prost_service', 'name'], 'package': ['prost_service', 'package'], 'identifier': ['prost_service', 'proto_name']}),
                               ('TonicBuildMethod', {'name': ['prost_method', 'name'], 'identifier': ['prost_method', 'proto_name'], 'client_streaming': ['prost_method', 'client_streaming'], 'server_streaming': ['prost_method', 'server_streaming']})):
            for m_, want in table.items():
                b = tb.body(re.compile(r'<prost::%s as (Service|Method)>::%s$' % (impl_ty, m_)))
                R.saw(b)
                rt = mirlib.returned_terms(b)
                got = field_names(through_calls(rt[0][1], {'deref', 'as_str', 'as_ref', 'index', 'borrow', 'as_slice'})) if rt else []
                R.eq(got[-2:], want, 'C11.R2', 'adapter:%s::%s' % (impl_ty, m_), site(b), 'field returned by %s::%s()' % (impl_ty, m_))

    # ---------------------------------------------------------------- R3 instances
    R.describe('C11.R3', 'every generated service in the build: client path constants = server arm constants; each = "/" + SERVICE_NAME + "/" + method; GrpcMethod(service, method) matches; client entry-point kind = server entry-point kind = service trait kind; handler = snake-case method; codec generics mirrored')
    with R.guard('C11.R3'):
        npairs = 0
        nsv = 0
        for key, sv in sorted(services.items()):
            tag = sv['tag']
            srv = sv.get('server')
            cl = sv.get('client') or {}
            nsv += 1
            if srv:
                for path, arm in sorted(srv['arms'].items()):
                    R.saw(srv['body'])
                    kt = gen.KIND_OF_TRAIT.get(arm.get('svc_trait'))
                    R.check(arm.get('kind') in gen.KINDS and kt == arm.get('kind'), 'C11.R3', '%s:server-kind:%s' % (tag, path), site(srv['body'], arm['bb']),
                            'server arm %s: entry point %r, per-method service trait %r' % (path, arm.get('kind'), arm.get('svc_trait')))
                    meth = path.rsplit('/', 1)[-1]
                    R.check(arm.get('handler') is not None, 'C11.R3', '%s:server-handler:%s' % (tag, path), site(srv['body'], arm['bb']), 'arm %s calls handler %r of %s' % (path, arm.get('handler'), arm.get('handler_trait')))
            if srv and cl:
                cpaths = {ci['path']: (m, ci) for m, ci in cl.items()}
                R.eq(sorted(cpaths), sorted(srv['arms']), 'C11.R3', '%s:paths' % tag, site(srv['body']), 'client path constants vs server arm constants')
                for path, (m, ci) in sorted(cpaths.items()):
                    npairs += 1
                    R.saw(ci['body'])
                    arm = srv['arms'].get(path)
                    if not arm:
                        continue
                    R.eq(ci['kind'], arm.get('kind'), 'C11.R3', '%s:kind:%s' % (tag, path), site(ci['body']), 'client entry-point kind for %s (server: %s)' % (path, arm.get('kind')))
                    sn = srv.get('service_name')
                    gm = ci.get('grpc_method')
                    R.check(gm is not None and sn is not None and gm[0] == sn and path == '/%s/%s' % (gm[0], gm[1]), 'C11.R3', '%s:grpc-method:%s' % (tag, path), site(ci['body']), 'GrpcMethod%r vs path %r and SERVICE_NAME %r' % (gm, path, sn))
                    R.check(ci.get('path_flows') is True, 'C11.R3', '%s:path-used:%s' % (tag, path), site(ci['body']), 'the PathAndQuery constant is the path argument of the call')
                    R.check(arm.get('handler') == m, 'C11.R3', '%s:handler-name:%s' % (tag, path), site(ci['body']), 'client method %r vs server handler %r' % (m, arm.get('handler')))
                    cc, sc = ci.get('codec'), arm.get('codec')
                    if cc and sc:
                        cm = re.match(r'(.*Codec)<(.*), (.*)>$', cc)
                        sm = re.match(r'(.*Codec)<(.*), (.*)>$', sc)
                        okc = bool(cm and sm) and cm.group(1) == sm.group(1) and cm.group(2) == sm.group(3) and cm.group(3) == sm.group(2)
                        R.check(okc, 'C11.R3', '%s:codec-mirrored:%s' % (tag, path), site(ci['body']), 'client codec %s vs server codec %s' % (cc, sc))
            elif cl and not srv:
                for m, ci in sorted(cl.items()):
                    gm = ci.get('grpc_method')
                    R.check(gm is not None and ci['path'] == '/%s/%s' % gm, 'C11.R3', '%s:client-only:%s' % (tag, m), site(ci['body']), 'path %r vs GrpcMethod%r' % (ci['path'], gm))
        R.floor('C11.R3', 'generated services', nsv, 40)
        R.floor('C11.R3', 'client/server method pairs', npairs, 60)

    # ---------------------------------------------------------------- R4 drift of committed generated code
    R.describe('C11.R4', 'each committed generated client method / server arm / per-method service of tonic-health and tonic-reflection has the same shape (callee multiset, aggregate multiset) as the freshly generated item of the same streaming kind in the interop crate')
    with R.guard('C11.R4'):
        ref = {}
        for key, sv in services.items():
            if key[0] != 'interop' or not sv.get('server') or not sv.get('client'):
                continue
            for path, arm in sv['server']['arms'].items():
                k = arm.get('kind')
                if k and 'entry_body' in arm and ('server', k) not in ref:
                    ref[('server', k)] = (shape(arm['entry_body'], sv['crate']), arm['entry_body'])
            for m, ci in sv['client'].items():
                if ci['kind'] and ('client', ci['kind']) not in ref:
                    ref[('client', ci['kind'])] = (shape(ci['body'], sv['crate']), ci['body'])
        R.floor('C11.R4', 'reference kinds from interop', len(ref), 8)
        n = 0
        for key, sv in sorted(services.items()):
            if key[0] not in ('tonic_health', 'tonic_reflection'):
                continue
            if sv.get('server'):
                for path, arm in sorted(sv['server']['arms'].items()):
                    k = arm.get('kind')
                    if ('server', k) in ref and 'entry_body' in arm:
                        n += 1
                        got = shape(arm['entry_body'], sv['crate'])
                        want = ref[('server', k)][0]
                        R.check(got == want, 'C11.R4', 'drift:server:%s:%s' % (sv['tag'], path), site(arm['entry_body']),
                                'committed server arm (%s) vs freshly generated %s: calls differ by %r; aggregates differ by %r' % (k, short(ref[('server', k)][1].path)[-60:], sorted(((got[0] - want[0]) + (want[0] - got[0])).items())[:6], sorted(((got[1] - want[1]) + (want[1] - got[1])).items())[:4]))
            for m, ci in sorted((sv.get('client') or {}).items()):
                k = ci['kind']
                if ('client', k) in ref:
                    n += 1
                    got = shape(ci['body'], sv['crate'])
                    want = ref[('client', k)][0]
                    R.check(got == want, 'C11.R4', 'drift:client:%s:%s' % (sv['tag'], m), site(ci['body']),
                            'committed client method (%s) vs freshly generated %s: calls differ by %r; aggregates differ by %r' % (k, short(ref[('client', k)][1].path)[-60:], sorted(((got[0] - want[0]) + (want[0] - got[0])).items())[:6], sorted(((got[1] - want[1]) + (want[1] - got[1])).items())[:4]))
        R.floor('C11.R4', 'committed generated items compared', n, 8)
        # the arm for a path that names no method is generated code too: a committed file whose fallback differs from what the generator
        # writes today is a file that was not regenerated
        refd = [sv['server'].get('default_body') for key, sv in sorted(services.items()) if key[0] == 'interop' and sv.get('server') and sv['server'].get('default_body') is not None]
        if not refd:
            raise CheckError('ANCHOR-MISSING: no freshly generated fallback arm found in the interop crate')
        wantd = shape(refd[0], [sv for key, sv in services.items() if key[0] == 'interop'][0]['crate'])
        nd = 0
        for key, sv in sorted(services.items()):
            if key[0] not in ('tonic_health', 'tonic_reflection') or not sv.get('server'):
                continue
            db = sv['server'].get('default_body')
            nd += 1
            gotd = shape(db, sv['crate']) if db is not None else None
            R.check(gotd == wantd, 'C11.R4', 'drift:server:%s:fallback-arm' % sv['tag'], site(db) if db is not None else site(sv['server']['body']),
                    'committed fallback arm vs freshly generated %s: calls differ by %r' % (short(refd[0].path)[-60:], sorted(((gotd[0] - wantd[0]) + (wantd[0] - gotd[0])).items())[:6] if gotd else 'no fallback arm found'))
        R.floor('C11.R4', 'committed fallback arms compared', nd, 3)

    # ---------------------------------------------------------------- R5 bootstrap manifest
    R.describe('C11.R5', 'codegen/src/main.rs: every codegen(..) call names existing proto files / include dirs / output dirs, covers every .proto of those crates and accounts for every committed generated file; client and server generation is enabled exactly for the crates whose committed files contain generated services')
    with R.guard('C11.R5'):
        cg = R.crate('codegen')
        mn = cg.body('codegen::main')
        R.saw(mn)
        calls = mn.calls(pat='codegen::codegen')
        R.floor('C11.R5', 'codegen(..) calls', len(calls), 4)
        per_crate = {}
        for bb, t in calls:
            a = [mn.origin(x) for x in t['args']]
            crate_dir = [const_val(x) for x in find_terms(a[0], lambda x: x and x[0] == 'const' and isinstance(x[1], str) and x[1].startswith('tonic-'))]
            protos = [x[1] for x in find_terms(a[1], lambda x: x and x[0] == 'const' and isinstance(x[1], str) and x[1].endswith('.proto'))]
            incs = [x[1] for x in find_terms(a[2], lambda x: x and x[0] == 'const' and isinstance(x[1], str))]
            outd = [x[1] for x in find_terms(a[3], lambda x: x and x[0] == 'const' and isinstance(x[1], str))]
            fds = [x[1] for x in find_terms(a[4], lambda x: x and x[0] == 'const' and isinstance(x[1], str))]
            bc, bs = const_val(a[5]), const_val(a[6])
            if len(crate_dir) != 1:
                R.bad('C11.R5', 'call-shape', site(mn, bb), 'cannot read the crate directory of a codegen(..) call: %r' % crate_dir, kind='UNRECOGNISED')
                continue
            cd = crate_dir[0]
            root = os.path.join(R.repo, cd)
            ent = per_crate.setdefault(cd, {'protos': [], 'fds': [], 'client': [], 'server': [], 'out': set()})
            ent['protos'] += protos
            ent['fds'] += fds
            ent['client'].append(bc)
            ent['server'].append(bs)
            ent['out'] |= set(outd)
            for p in protos:
                R.check(os.path.isfile(os.path.join(root, p)), 'C11.R5', 'exists:%s/%s' % (cd, p), site(mn, bb), 'proto file %s/%s exists' % (cd, p))
            for d in incs + outd:
                R.check(os.path.isdir(os.path.join(root, d)), 'C11.R5', 'dir:%s/%s' % (cd, d), site(mn, bb), 'directory %s/%s exists' % (cd, d))
            for f in fds:
                R.check(os.path.isfile(os.path.join(root, f)), 'C11.R5', 'fds:%s/%s' % (cd, f), site(mn, bb), 'descriptor file %s/%s is committed' % (cd, f))
        for cd, ent in sorted(per_crate.items()):
            root = os.path.join(R.repo, cd)
            have = sorted(os.path.relpath(p, root) for p in glob.glob(os.path.join(root, 'proto', '**', '*.proto'), recursive=True))
            R.eq(sorted(ent['protos']), have, 'C11.R5', 'covers-protos:%s' % cd, site(mn), 'proto files of %s listed in the manifest' % cd)
            gend = sorted(os.listdir(os.path.join(root, 'src', 'generated'))) if os.path.isdir(os.path.join(root, 'src', 'generated')) else []
            fds_names = {os.path.basename(f) for f in ent['fds']}
            others = [g for g in gend if g not in fds_names]
            # every other generated file is a package module `<pkg with _>.rs` that must contain generated services iff client/server are enabled
            has_services = False
            for g in others:
                with open(os.path.join(root, 'src', 'generated', g)) as fh:
                    txt = fh.read()
                if re.search(r'pub mod \w+_(client|server)\b', txt):
                    has_services = True
            R.check(len(others) >= 1, 'C11.R5', 'generated-files:%s' % cd, site(mn), 'generated files of %s: %r (descriptor sets: %r)' % (cd, others, sorted(fds_names)))
            R.check(all(x is has_services for x in ent['client'] + ent['server']), 'C11.R5', 'client-server-flags:%s' % cd, site(mn),
                    'build_client/build_server flags %r/%r vs committed files containing generated services: %r' % (ent['client'], ent['server'], has_services))
        R.eq(sorted(per_crate), ['tonic-health', 'tonic-reflection', 'tonic-types'], 'C11.R5', 'crates', site(mn), 'crates bootstrapped by codegen')
