"""C12 — interceptors change only what they change and can veto a call."""
import re
from common import *
import mirlib

META = {
    'explanation': 'InterceptedService::call and its ResponseFuture::poll are decided by operand origins (URI / method / version captured from '
                   'the incoming request and handed back to into_http, SanitizeHeaders::No, original body), edge guards (inner service '
                   'invoked only on the Ok arm) and call identity on the reject arm (Status::into_http + empty body, nothing polled).',
    'exhaustive': True,
}


def run(R):
    tonic = R.crate('tonic')
    b = None
    # ---------------------------------------------------------------- R1 pass-through of what the interceptor cannot see
    R.describe('C12.R1', 'into_http(uri, method, version, No): uri/method/version originate from the incoming request; message is the original body; metadata/extensions are the interceptor output')
    with R.guard('C12.R1'):
        b = tonic.body(re.compile(r'service::interceptor::InterceptedService<S, I> as tower_service::Service<http::Request<ReqBody>>>::call$'))
        R.saw(b)
        ib, it = b.call1(pat='Request::<T>::into_http')
        # provenance of the request line: a getter on the incoming request (cloned where it is not Copy), or the field of the incoming
        # request's Parts (moved out / mem::take'n)
        is_in = lambda t_: term_contains(t_, lambda x: x and x[0] == 'arg' and x[1] == 2)

        def line_from_incoming(a, getter):
            a0 = strip_refs(a)
            for _ in range(3):
                if is_call(a0) and a0[3] in ('clone', 'take', 'replace', 'to_owned') and a0[2]:
                    a0 = strip_refs(a0[2][0])
            if is_call(a0, name=getter) and 'http::Request' in a0[1] and is_in(a0):
                return 'getter'
            if a0 and a0[0] == 'field' and a0[2] == getter:
                p0 = strip_refs(a0[1])
                if p0 and p0[0] == 'field' and p0[2] == 0 and is_call(strip_refs(p0[1]), pat='http::Request', name='into_parts') and is_in(p0):
                    return 'parts-field'
            return None
        forms = {}
        # the request line reaches into_http as three arguments, or bundled in one struct built here (fields uri / method / version)
        line_args = into_http_line(b, it)
        for getter in ('uri', 'method', 'version'):
            a = line_args[getter]
            forms[getter] = line_from_incoming(a, getter)
            R.check(forms[getter] is not None, 'C12.R1', '%s-from-incoming' % getter, site(b, ib), '%s argument = %s' % (getter, show(a)[:120]))
        sz = strip_refs(b.origin(it['args'][-1]))
        R.check(sz[0] == 'agg' and sz[1].get('variant') == 'No', 'C12.R1', 'sanitize-no', site(b, ib), 'sanitize argument = %s (reserved headers of the original request must survive)' % show(sz))
        # getters are evaluated before the request is consumed (a Parts field is owned: nothing to order)
        consume = b.calls(pat='Request::<T>::from_http', name='from_http') + [(bb, t) for bb, t in b.calls(pat='http::Request', name='into_parts') if is_in(b.origin(t['args'][0]))]
        R.check(len(consume) == 1, 'C12.R1', 'from_http-once', site(b), 'sites consuming the incoming request (Request::from_http / http::Request::into_parts): %d' % len(consume))
        for nm in ('uri', 'method', 'version'):
            if forms.get(nm) == 'parts-field':
                R.ok('C12.R1', '%s-captured-before-consume' % nm, site(b, ib), '%s is taken out of the incoming request\'s own Parts' % nm)
                continue
            gs = [(bb, t) for bb, t in b.calls(name=nm) if 'http::Request' in (t.get('fn') or '')]
            R.check(len(gs) == 1 and consume and b.dominates(gs[0][0], consume[0][0]), 'C12.R1', '%s-captured-before-consume' % nm, site(b, gs[0][0]) if gs else site(b), '%s() read before the request is consumed' % nm)

        # component provenance of a tonic::Request-valued term: where its metadata / extensions / message come from
        def comp(t_, which, depth=0):
            t_ = strip_refs(t_)
            if depth > 8 or not t_:
                return None
            if is_call(t_, pat='Request::<T>::from_parts') and len(t_[2]) == 3:
                return leaf(t_[2][('metadata', 'extensions', 'message').index(which)], which, depth + 1)
            if is_call(t_, pat='Request::<T>::from_http', name='from_http'):
                return {'metadata': 'in-headers', 'extensions': 'in-extensions', 'message': 'in-body'}[which] if arg_root(strip_refs(t_[2][0])) == 2 else None
            if is_call(t_, pat='Request::<T>::from_http_parts') and len(t_[2]) == 2:
                if which == 'message':
                    return leaf(t_[2][1], which, depth + 1)
                p0 = strip_refs(t_[2][0])
                okp = p0 and p0[0] == 'field' and p0[2] == 0 and is_call(strip_refs(p0[1]), pat='http::Request', name='into_parts') and arg_root(strip_refs(strip_refs(p0[1])[2][0])) == 2
                return {'metadata': 'in-headers', 'extensions': 'in-extensions'}[which] if okp else None
            if is_call(t_, pat='Request::<T>::map') and len(t_[2]) == 2:
                if which != 'message':
                    return comp(t_[2][0], which, depth + 1)
                cl = strip_refs(t_[2][1])
                if cl and cl[0] == 'agg' and cl[1].get('def'):
                    cb_ = tonic.body(cl[1]['def'])
                    rt_ = mirlib.returned_terms(cb_)
                    if len(rt_) == 1:
                        r0 = strip_refs(rt_[0][1])
                        # the closure returns one of its captures: what the builder stored there
                        if r0 and r0[0] == 'field' and strip_refs(r0[1]) in (('env',), ('deref', ('env',))) and r0[2] in (cl[1].get('fields') or []):
                            return leaf(cl[2][cl[1]['fields'].index(r0[2])], which, depth + 1)
                return None
            if t_[0] == 'variant' and t_[2] in ('Ok', 'Continue'):
                return comp(t_[1], which, depth + 1)
            if is_call(t_, name='branch') and 'Try' in t_[1] and t_[2]:
                return comp(t_[2][0], which, depth + 1)   # `interceptor.call(req)?`: the Continue payload is the Ok payload
            if t_[0] == 'field' and t_[2] in (0, '0') and strip_refs(t_[1])[0] == 'variant':
                return comp(t_[1], which, depth + 1)
            if is_call(t_, name='call') and 'Interceptor' in t_[1]:
                return 'interceptor-out' if which != 'message' else 'unit'
            return None

        def leaf(t_, which, depth):
            t_ = strip_refs(t_)
            # taken straight out of the incoming request's Parts: MetadataMap::from_headers(parts.headers) / parts.extensions
            def parts_field(x_, name_):
                x_ = strip_refs(x_)
                if x_ and x_[0] == 'field' and x_[2] == name_:
                    p0_ = strip_refs(x_[1])
                    return bool(p0_ and p0_[0] == 'field' and p0_[2] == 0 and is_call(strip_refs(p0_[1]), pat='http::Request', name='into_parts') and arg_root(strip_refs(strip_refs(p0_[1])[2][0])) == 2)
                return False
            if which == 'metadata' and is_call(t_, pat='MetadataMap', name='from_headers') and t_[2] and parts_field(t_[2][0], 'headers'):
                return 'in-headers'
            if which == 'extensions' and parts_field(t_, 'extensions'):
                return 'in-extensions'
            if t_ and t_[0] in ('agg', 'const') and (t_[0] == 'const' or t_[1].get('kind') == 'tuple') and not (t_[2] if t_[0] == 'agg' else None):
                return 'unit'
            if t_ and t_[0] == 'field' and isinstance(t_[2], int):
                src = strip_refs(t_[1])
                if is_call(src, pat='tonic::request::Request', name='into_parts') or is_call(src, pat='Request::<T>::into_parts') and 'http::' not in src[1]:
                    return comp(src[2][0], ('metadata', 'extensions', 'message')[t_[2]], depth + 1) if t_[2] < 3 else None
                if is_call(src, pat='http::Request', name='into_parts') and arg_root(strip_refs(src[2][0])) == 2:
                    return 'in-body' if t_[2] == 1 else None
            return None
        req = strip_refs(b.origin(it['args'][0]))
        got = {w: comp(req, w) for w in ('metadata', 'extensions', 'message')}
        R.check(all(got.values()), 'C12.R1', 'rebuilt-from_parts', site(b, ib), 'into_http receiver = %s: components %r' % (show(req)[:120], got))
        R.eq(got['metadata'], 'interceptor-out', 'C12.R1', 'metadata-from-interceptor', site(b, ib), 'metadata of the forwarded request')
        R.eq(got['extensions'], 'interceptor-out', 'C12.R1', 'extensions-from-interceptor', site(b, ib), 'extensions of the forwarded request')
        R.eq(got['message'], 'in-body', 'C12.R1', 'message-is-original-body', site(b, ib), 'message of the forwarded request')
        # what the interceptor is given: metadata + extensions of the incoming request, unit body
        cb, ct = b.call1(pat='Interceptor::call')
        given = strip_refs(b.origin(ct['args'][1]))
        gv = {w: comp(given, w) for w in ('metadata', 'extensions', 'message')}
        R.eq(gv, {'metadata': 'in-headers', 'extensions': 'in-extensions', 'message': 'unit'}, 'C12.R1', 'interceptor-sees-unit-body', site(b, cb), 'interceptor argument = %s' % show(given)[:140])
        sg = [v for k, v in tonic.sigs.items() if k.endswith('as service::interceptor::Interceptor>::call')]
        R.check(len(sg) >= 1 and all('Request<()>' in x['inputs'][1] for x in sg), 'C12.R1', 'interceptor-signature', '', 'Interceptor::call inputs: %r' % (sg[0]['inputs'] if sg else None))

    # ---------------------------------------------------------------- R2 veto
    R.describe('C12.R2', 'the inner service is called only on the Ok arm; the Err arm yields ResponseFuture::status(that status), whose poll returns Status::into_http parts with an empty body and polls nothing')
    with R.guard('C12.R2'):
        sc = [(bb, t) for bb, t in b.calls(pat='Service::call') if mentions_field(b.origin(t['args'][0]), 'inner')]
        R.check(len(sc) == 1, 'C12.R2', 'inner-call-once', site(b), 'inner.call sites: %d' % len(sc))
        cb, ct = b.call1(pat='Interceptor::call')
        for bb, t in sc:
            g = b.edge_guards(bb)
            okg = any(show(tm).startswith('discr(') and 'Interceptor' in show(tm) and vals == [0] for s, vals, tm in g)
            R.check(okg, 'C12.R2', 'inner-only-on-ok', site(b, bb), 'guards on inner.call: %r' % [(v, show(tm)[:60]) for s, v, tm in g])
            R.check(b.dominates(cb, bb), 'C12.R2', 'interceptor-before-inner', site(b, bb), 'the interceptor runs before the inner service')
            arg = b.origin(t['args'][1])
            R.check(is_call(strip_refs(arg), name='into_http'), 'C12.R2', 'inner-gets-rebuilt-request', site(b, bb), 'inner.call argument = %s' % show(arg)[:100])
        st = [(bb, b.origin(t['args'][0])) for bb, t in b.calls(pat='ResponseFuture::<F>::status')]
        # or the future built inline: ResponseFuture { kind: Kind::Status(Some(status)) }
        for bb, i, p, a, ops in mirlib.aggregates(b):
            if (a.get('adt') or '').endswith('interceptor::Kind') and a.get('variant') == 'Status':
                sv = strip_refs(b.origin(ops[0]))
                if sv[0] == 'agg' and sv[1].get('variant') == 'Some':
                    st.append((bb, sv[2][0]))
        R.check(len(st) == 1, 'C12.R2', 'reject-arm', site(b), 'reject-arm constructions (ResponseFuture::status or Kind::Status(Some(..))): %d' % len(st))
        for bb, a in st:
            okv = term_contains(a, lambda x: x and x[0] == 'variant' and x[2] == 'Err') and term_contains(a, lambda x: is_call(x, name='call') and 'Interceptor' in x[1])
            R.check(okv, 'C12.R2', 'reject-same-status', site(b, bb), 'status = %s' % show(a)[:120])
            g = b.edge_guards(bb)
            R.check(any(show(tm).startswith('discr(') and 'Interceptor' in show(tm) and vals == [1] for s, vals, tm in g), 'C12.R2', 'reject-on-err', site(b, bb), 'guards: %r' % [(v, show(tm)[:60]) for s, v, tm in g])
        sf = tonic.body('service::interceptor::ResponseFuture::<F>::status')
        ag = [x for x in mirlib.aggregates(sf) if x[3].get('variant') == 'Status']
        R.check(len(ag) == 1 and 'arg1' in show(sf.origin(ag[0][4][0])), 'C12.R2', 'status-future-holds-status', site(sf), 'Kind::Status(Some(status))')
        pl = tonic.body(re.compile(r'service::interceptor::ResponseFuture<F> as std::future::Future>::poll$'))
        R.saw(pl, sf)
        ih = status_response_sites(tonic, pl)
        R.check(len(ih) == 1, 'C12.R2', 'poll:into_http', site(pl), 'Status::into_http sites: %d' % len(ih))
        kadt = {v['name']: v['discr'] for v in tonic.adt('service::interceptor::Kind')['variants']}
        for bb, t in ih:
            g = pl.edge_guards(bb)
            okk = any(show(tm).startswith('discr(') and vals == [kadt['Status']] for s, vals, tm in g)
            R.check(okk, 'C12.R2', 'poll:into_http-on-status-kind', site(pl, bb), 'guards: %r' % [(v, show(tm)[:60]) for s, v, tm in g])
            a = pl.origin(t['args'][0])
            R.check(term_contains(a, lambda x: is_call(x, name='take')), 'C12.R2', 'poll:takes-stored-status', site(pl, bb), 'status = %s' % show(a)[:120])
        # the rejected call's response = the head produced by Status::into_http with an empty body:
        #   from_parts(into_http(..).into_parts().0, ResponseBody::empty())   or   into_http(..).map(|()| ResponseBody::empty())
        fam = [pl] + [c_ for c_ in tonic.bodies if c_.kind == 'closure' and c_.path.startswith(pl.path + '::')] + [c_ for c_ in tonic.bodies if c_.kind == 'closure' and any(c_.path.startswith(h_ + '::') for h_ in tonic.inlined_helpers)]
        em = [(c_, bb_) for c_ in fam for bb_, t_ in c_.calls(name='empty') if 'ResponseBody' in (t_.get('fn') or '') + str(t_.get('ga'))]
        fp = pl.calls(name='from_parts')
        okb = False
        if len(fp) == 1:
            okb = term_contains(pl.origin(fp[0][1]['args'][1]), lambda x: is_call(x, name='empty')) and term_contains(pl.origin(fp[0][1]['args'][0]), lambda x: is_call(x, pat='Status::into_http'))
        else:
            for bb_, t_ in pl.calls(name='map'):
                if 'Response' in (t_.get('fn') or '') and is_call(strip_refs(pl.origin(t_['args'][0])), pat='Status::into_http'):
                    clo = strip_refs(pl.origin(t_['args'][1]))
                    if clo[0] == 'agg' and 'def' in clo[1]:
                        cb_ = [y for y in tonic.bodies if y.path == clo[1]['def']]
                        okb = bool(cb_) and all(is_call(strip_refs(x_), name='empty') for _, x_ in mirlib.returned_terms(cb_[0]))
        if not okb and len(ih) == 1 and ih[0][1].get('spliced') and len(ih[0][1]['args']) >= 2:
            # into_trailers_only(status, ResponseBody::empty()): the shared constructor gets the empty body as its argument
            okb = is_call(strip_refs(pl.origin(ih[0][1]['args'][1])), name='empty')
        R.check(len(em) == 1 and okb, 'C12.R2', 'poll:parts+empty-body', site(pl), 'response = the head of Status::into_http with ResponseBody::empty() (empty() sites %d)' % len(em))
        polls = pl.calls(pat='Future::poll')
        for bb, t in polls:
            g = pl.edge_guards(bb)
            R.check(any(show(tm).startswith('discr(') and vals == [kadt['Future']] for s, vals, tm in g), 'C12.R2', 'poll:future-only-on-future-kind', site(pl, bb), 'inner future polled only for Kind::Future')
        R.floor('C12.R2', 'future polls', len(polls), 1)
        eb = tonic.body(re.compile(r'service::interceptor::ResponseBody<B> as http_body::Body>::poll_frame$'))
        R.saw(eb)
        # how the empty body is represented: the variant ResponseBody::empty() puts into the body (a private kind enum's Empty, or None of
        # an Option<B>) — read from empty() itself; then, on the paths of poll_frame / is_end_stream that see that variant:
        # nothing is yielded, and the body says it is at its end (so the rejection goes out as a trailers-only response: HEADERS with
        # END_STREAM, no DATA frame, no content-length)
        emb = tonic.body('service::interceptor::ResponseBody::<B>::empty')
        R.saw(emb)
        ev = [x_[1].get('variant') for _, rt_ in mirlib.returned_terms(emb) for x_ in find_terms(mirlib.simplify(rt_), lambda y: y and y[0] == 'agg' and isinstance(y[1], dict) and y[1].get('variant') and not y[2])]
        if len(set(ev)) != 1:
            raise CheckError('UNRECOGNISED: ResponseBody::empty() does not build the body from one field-less variant: %r' % ev)
        EMPTY_V = ev[0]

        def on_empty(body_):
            meta_ = {}
            out_ = []
            for cons_, path_ in mirlib.path_rows(body_, stop=set(writers_of(body_, 0)), meta=meta_):
                vw_ = cons_view(cons_, meta_)
                if any(v_ == EMPTY_V and 'arg1' in k_ for k_, v_ in vw_.items()):
                    out_.append(strip_refs(mirlib.simplify(body_.ret_on_path(path_))))
            if not out_ and EMPTY_V == 'None':
                # no branch in this body: an Option combinator decides (std semantics on None)
                for _, rt_ in mirlib.returned_terms(body_):
                    r_ = strip_refs(mirlib.simplify(rt_))
                    if is_call(r_) and 'Option' in r_[1] and r_[2] and arg_root(strip_refs(through_calls(r_[2][0], {'as_ref', 'as_mut', 'as_deref', 'as_pin_mut', 'as_pin_ref', 'get_mut', 'project'}))) == 1:
                        if r_[3] == 'is_some_and':
                            out_.append(('const', False))
                        elif r_[3] in ('is_none_or', 'is_none'):
                            out_.append(('const', True))
                        elif r_[3] == 'is_some':
                            out_.append(('const', False))
                        elif r_[3] == 'map_or' and len(r_[2]) == 3:
                            out_.append(strip_refs(r_[2][1]))
            return out_
        vals_ = on_empty(eb)
        okn = bool(vals_) and all(v_ and v_[0] == 'agg' and v_[1].get('variant') == 'Ready' and strip_refs(v_[2][0])[0] == 'agg' and strip_refs(v_[2][0])[1].get('variant') == 'None' for v_ in vals_)
        R.check(okn, 'C12.R2', 'empty-body-yields-nothing', site(eb), 'the empty body (%s) -> Ready(None): %d path(s)' % (EMPTY_V, len(vals_)))
        ies = tonic.body(re.compile(r'service::interceptor::ResponseBody<B> as http_body::Body>::is_end_stream$'))
        R.saw(ies)
        vals_ = on_empty(ies)
        oke = bool(vals_) and all(const_val(v_) is True for v_ in vals_)
        R.check(oke, 'C12.R2', 'empty-body-is-end-stream', site(ies), 'is_end_stream() of the empty body (%s) is true on each of its %d path(s): %r — otherwise the rejection is not a trailers-only response (hyper sends HEADERS without END_STREAM, content-length: 0 and an empty DATA frame)' % (EMPTY_V, len(vals_), [show(v_)[:40] for v_ in vals_]))

    # the rejecting status reaches the caller whole: Status::into_http -> to_header_map -> add_header (shared writer)
    with R.guard('C12.R2', 'status-writer'):
        import C04
        C04.check_status_writer(R, tonic, 'C12.R2')

    # ---------------------------------------------------------------- R6 the conversion the interceptor output goes through is lossless
    R.describe('C12.R6', 'Request::into_http with SanitizeHeaders::No hands on the metadata map as it is: nothing touches self.metadata before into_headers (no removal of hop-by-hop or other names that depends on version / method), and into_headers returns the map it holds; uri / method / version / extensions are the arguments')
    with R.guard('C12.R6'):
        ih_ = tonic.body('request::Request::<T>::into_http')
        R.saw(ih_)
        conv = [(bb, t) for bb, t in ih_.calls() if t.get('name') in ('into_headers', 'into_sanitized_headers')]
        R.check(len([1 for bb, t in conv if t.get('name') == 'into_headers']) == 1, 'C12.R6', 'one-into_headers', site(ih_), 'conversions: %r' % [t.get('name') for bb, t in conv])
        touch = []
        for bb, t in ih_.calls():
            if t.get('name') in ('into_headers', 'into_sanitized_headers') or t.get('k') != 'call':
                continue
            for a in t['args']:
                o = ih_.origin(a)
                # a shared borrow (logging, a debug assertion, a length) cannot change the map
                pl_ = (a.get('mv') or a.get('cp')) if isinstance(a, dict) else None
                ty_ = ih_.ty(pl_['l']) if pl_ and not pl_.get('pr') else ''
                if ty_.startswith('&') and not ty_.startswith('&mut'):
                    continue
                if mentions_field(o, 'metadata') and arg_root(through_calls(strip_refs(o), {'deref', 'deref_mut', 'borrow_mut', 'as_mut'})) == 1:
                    touch.append((bb, t))
        for bb, t in touch:
            R.bad('C12.R6', 'metadata-touched-before-conversion:%s' % t.get('name'), site(ih_, bb), '%s is applied to the metadata before it becomes the header map: the interceptor output no longer arrives as it was' % (t.get('fn') or t.get('name')))
        if not touch:
            R.ok('C12.R6', 'metadata-untouched-before-conversion', site(ih_), 'no call other than the conversion takes self.metadata')
        for bb, t in conv:
            if t.get('name') == 'into_headers':
                o = strip_refs(ih_.origin(t['args'][0]))
                R.check(field_names(o)[-1:] == ['metadata'] and arg_root(o) == 1, 'C12.R6', 'into_headers(self.metadata)', site(ih_, bb), 'receiver = %s' % show(o)[:80])
        mh = tonic.body('metadata::map::MetadataMap::into_headers')
        R.saw(mh)
        rt = mirlib.returned_terms(mh)
        R.check(len(rt) == 1 and field_names(rt[0][1])[-1:] == ['headers'] and arg_root(rt[0][1]) == 1 and not [1 for bb, t in mh.calls() if t.get('name') in HEADER_MUTATORS + ('clear', 'retain', 'drain')], 'C12.R6', 'into_headers=self.headers', site(mh), 'into_headers returns %s' % (show(rt[0][1])[:60] if rt else None))

    # ---------------------------------------------------------------- R5 type-level witnesses (E4)
    R.describe('C12.R5', 'compile-fail witnesses: an interceptor is a function of Request<()> — it cannot name, read or replace the request body; '
                         'Request::into_http / SanitizeHeaders (the un-sanitised conversion used for the interceptor output) are not reachable from outside tonic')
    with R.guard('C12.R5', 'witness'):
        import witness
        U = ['use tonic::{Request, Status};', 'fn takes_interceptor<I: tonic::service::Interceptor>(_i: I) {}']
        W = [
            dict(id='interceptor_sees_unit_body', code='E0631', common=U, what='a closure over Request<Vec<u8>> is not an Interceptor',
                 fail=['takes_interceptor(|r: Request<Vec<u8>>| -> Result<Request<Vec<u8>>, Status> { Ok(r) });'],
                 twin=['takes_interceptor(|r: Request<()>| -> Result<Request<()>, Status> { Ok(r) });']),
            dict(id='interceptor_cannot_return_other_body', code='E0271', common=U, what='an interceptor must give back Request<()>',
                 fail=['takes_interceptor(|r: Request<()>| -> Result<Request<u8>, Status> { Ok(r.map(|_| 0u8)) });'],
                 twin=['takes_interceptor(|r: Request<()>| -> Result<Request<()>, Status> { Ok(r.map(|_| ())) });']),
            dict(id='interceptor_body_is_unit', code='E0308', common=U, what='what an interceptor can take out of its request is ()',
                 fail=['takes_interceptor(|r: Request<()>| -> Result<Request<()>, Status> { let _b: Vec<u8> = r.into_inner(); Err(Status::ok("")) });'],
                 twin=['takes_interceptor(|r: Request<()>| -> Result<Request<()>, Status> { let _b: () = r.into_inner(); Err(Status::ok("")) });']),
            dict(id='into_http_not_public', code='E0624', common=U, what='Request::into_http (with its SanitizeHeaders switch) is crate-private',
                 fail=['let _ = Request::new(()).into_http(http::Uri::default(), http::Method::POST, http::Version::HTTP_2, todo!());'],
                 twin=['let _ = Request::new(()).into_parts();']),
        ]
        n = witness.run_witnesses(R, 'C12.R5', W)
        R.floor('C12.R5', 'witness programs type-checked', n, 2 * len(W))
