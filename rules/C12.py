"""C12 — interceptors change only what they change and can veto a call."""
import re
from common import *
import mirlib

META = {
    'explanation': 'InterceptedService::call and its ResponseFuture::poll are decided by operand origins (URI / method / version captured from '
                   'the incoming request and handed back to into_http, SanitizeHeaders::No, original body), edge guards (inner service '
                   'invoked only on the Ok arm) and call identity on the reject arm (Status::into_http + empty body, nothing polled).',
    'exhaustive': True,
}


def run(R):
    tonic = R.crate('tonic')
    b = None
    # ---------------------------------------------------------------- R1 pass-through of what the interceptor cannot see
    R.describe('C12.R1', 'into_http(uri, method, version, No): uri/method/version originate from the incoming request; message is the original body; metadata/extensions are the interceptor output')
    with R.guard('C12.R1'):
        b = tonic.body(re.compile(r'service::interceptor::InterceptedService<S, I> as tower_service::Service<http::Request<ReqBody>>>::call$'))
        R.saw(b)
        ib, it = b.call1(pat='Request::<T>::into_http')
        for idx, getter in ((1, 'uri'), (2, 'method')):
            a = b.origin(it['args'][idx])
            okv = is_call(strip_refs(a), name='clone') and term_contains(a, lambda x: is_call(x, name=getter) and 'http::Request' in x[1]) and term_contains(a, lambda x: x and x[0] == 'arg' and x[1] == 2)
            R.check(okv, 'C12.R1', '%s-from-incoming' % getter, site(b, ib), '%s argument = %s' % (getter, show(a)[:120]))
        a = b.origin(it['args'][3])
        R.check(is_call(strip_refs(a), name='version') and term_contains(a, lambda x: x and x[0] == 'arg' and x[1] == 2), 'C12.R1', 'version-from-incoming', site(b, ib), 'version argument = %s' % show(a)[:120])
        sz = strip_refs(b.origin(it['args'][4]))
        R.check(sz[0] == 'agg' and sz[1].get('variant') == 'No', 'C12.R1', 'sanitize-no', site(b, ib), 'sanitize argument = %s (reserved headers of the original request must survive)' % show(sz))
        # the three getters are evaluated before the request is consumed by from_http
        fh = b.calls(pat='Request::<T>::from_http')
        R.check(len(fh) == 1, 'C12.R1', 'from_http-once', site(b), 'Request::from_http sites: %d' % len(fh))
        for nm in ('uri', 'method', 'version'):
            gs = [(bb, t) for bb, t in b.calls(name=nm) if 'http::Request' in (t.get('fn') or '')]
            R.check(len(gs) == 1 and fh and b.dominates(gs[0][0], fh[0][0]), 'C12.R1', '%s-captured-before-consume' % nm, site(b, gs[0][0]) if gs else site(b), '%s() read before the request is consumed' % nm)
        # request rebuilt from interceptor's metadata/extensions + original message
        req = strip_refs(b.origin(it['args'][0]))
        okr = is_call(req, pat='Request::<T>::from_parts')
        R.check(okr, 'C12.R1', 'rebuilt-from_parts', site(b, ib), 'into_http receiver = %s' % show(req)[:120])
        if okr:
            md, ex, msg = req[2][0], req[2][1], req[2][2]
            from_int = lambda t: term_contains(t, lambda x: is_call(x, name='call') and 'Interceptor' in x[1])
            R.check(from_int(md) and term_contains(md, lambda x: x and x[0] == 'variant' and x[2] == 'Ok'), 'C12.R1', 'metadata-from-interceptor', site(b, ib), 'metadata = %s' % show(md)[:120])
            R.check(from_int(ex), 'C12.R1', 'extensions-from-interceptor', site(b, ib), 'extensions = %s' % show(ex)[:120])
            R.check(not from_int(msg) and term_contains(msg, lambda x: is_call(x, pat='Request::<T>::from_http')) and term_contains(msg, lambda x: is_call(x, name='into_parts')), 'C12.R1', 'message-is-original-body', site(b, ib), 'message = %s' % show(msg)[:140])
        # what the interceptor is given: metadata + extensions of the incoming request, unit body
        cb, ct = b.call1(pat='Interceptor::call')
        given = strip_refs(b.origin(ct['args'][1]))
        okg = is_call(given, pat='Request::<T>::from_parts') and strip_refs(given[2][2])[0] in ('agg', 'const') and term_contains(given[2][0], lambda x: is_call(x, name='into_parts'))
        R.check(okg, 'C12.R1', 'interceptor-sees-unit-body', site(b, cb), 'interceptor argument = %s' % show(given)[:140])
        sg = [v for k, v in tonic.sigs.items() if k.endswith('as service::interceptor::Interceptor>::call')]
        R.check(len(sg) >= 1 and all('Request<()>' in x['inputs'][1] for x in sg), 'C12.R1', 'interceptor-signature', '', 'Interceptor::call inputs: %r' % (sg[0]['inputs'] if sg else None))

    # ---------------------------------------------------------------- R2 veto
    R.describe('C12.R2', 'the inner service is called only on the Ok arm; the Err arm yields ResponseFuture::status(that status), whose poll returns Status::into_http parts with an empty body and polls nothing')
    with R.guard('C12.R2'):
        sc = [(bb, t) for bb, t in b.calls(pat='Service::call') if mentions_field(b.origin(t['args'][0]), 'inner')]
        R.check(len(sc) == 1, 'C12.R2', 'inner-call-once', site(b), 'inner.call sites: %d' % len(sc))
        cb, ct = b.call1(pat='Interceptor::call')
        for bb, t in sc:
            g = b.edge_guards(bb)
            okg = any(show(tm).startswith('discr(') and 'Interceptor' in show(tm) and vals == [0] for s, vals, tm in g)
            R.check(okg, 'C12.R2', 'inner-only-on-ok', site(b, bb), 'guards on inner.call: %r' % [(v, show(tm)[:60]) for s, v, tm in g])
            R.check(b.dominates(cb, bb), 'C12.R2', 'interceptor-before-inner', site(b, bb), 'the interceptor runs before the inner service')
            arg = b.origin(t['args'][1])
            R.check(is_call(strip_refs(arg), name='into_http'), 'C12.R2', 'inner-gets-rebuilt-request', site(b, bb), 'inner.call argument = %s' % show(arg)[:100])
        st = [(bb, b.origin(t['args'][0])) for bb, t in b.calls(pat='ResponseFuture::<F>::status')]
        # or the future built inline: ResponseFuture { kind: Kind::Status(Some(status)) }
        for bb, i, p, a, ops in mirlib.aggregates(b):
            if (a.get('adt') or '').endswith('interceptor::Kind') and a.get('variant') == 'Status':
                sv = strip_refs(b.origin(ops[0]))
                if sv[0] == 'agg' and sv[1].get('variant') == 'Some':
                    st.append((bb, sv[2][0]))
        R.check(len(st) == 1, 'C12.R2', 'reject-arm', site(b), 'reject-arm constructions (ResponseFuture::status or Kind::Status(Some(..))): %d' % len(st))
        for bb, a in st:
            okv = term_contains(a, lambda x: x and x[0] == 'variant' and x[2] == 'Err') and term_contains(a, lambda x: is_call(x, name='call') and 'Interceptor' in x[1])
            R.check(okv, 'C12.R2', 'reject-same-status', site(b, bb), 'status = %s' % show(a)[:120])
            g = b.edge_guards(bb)
            R.check(any(show(tm).startswith('discr(') and 'Interceptor' in show(tm) and vals == [1] for s, vals, tm in g), 'C12.R2', 'reject-on-err', site(b, bb), 'guards: %r' % [(v, show(tm)[:60]) for s, v, tm in g])
        sf = tonic.body('service::interceptor::ResponseFuture::<F>::status')
        ag = [x for x in mirlib.aggregates(sf) if x[3].get('variant') == 'Status']
        R.check(len(ag) == 1 and 'arg1' in show(sf.origin(ag[0][4][0])), 'C12.R2', 'status-future-holds-status', site(sf), 'Kind::Status(Some(status))')
        pl = tonic.body(re.compile(r'service::interceptor::ResponseFuture<F> as std::future::Future>::poll$'))
        R.saw(pl, sf)
        ih = pl.calls(pat='Status::into_http')
        R.check(len(ih) == 1, 'C12.R2', 'poll:into_http', site(pl), 'Status::into_http sites: %d' % len(ih))
        kadt = {v['name']: v['discr'] for v in tonic.adt('service::interceptor::Kind')['variants']}
        for bb, t in ih:
            g = pl.edge_guards(bb)
            okk = any(show(tm).startswith('discr(') and vals == [kadt['Status']] for s, vals, tm in g)
            R.check(okk, 'C12.R2', 'poll:into_http-on-status-kind', site(pl, bb), 'guards: %r' % [(v, show(tm)[:60]) for s, v, tm in g])
            a = pl.origin(t['args'][0])
            R.check(term_contains(a, lambda x: is_call(x, name='take')), 'C12.R2', 'poll:takes-stored-status', site(pl, bb), 'status = %s' % show(a)[:120])
        # the rejected call's response = the head produced by Status::into_http with an empty body:
        #   from_parts(into_http(..).into_parts().0, ResponseBody::empty())   or   into_http(..).map(|()| ResponseBody::empty())
        fam = [pl] + [c_ for c_ in tonic.bodies if c_.kind == 'closure' and c_.path.startswith(pl.path + '::')] + [c_ for c_ in tonic.bodies if c_.kind == 'closure' and any(c_.path.startswith(h_ + '::') for h_ in tonic.inlined_helpers)]
        em = [(c_, bb_) for c_ in fam for bb_, t_ in c_.calls(name='empty') if 'ResponseBody' in (t_.get('fn') or '') + str(t_.get('ga'))]
        fp = pl.calls(name='from_parts')
        okb = False
        if len(fp) == 1:
            okb = term_contains(pl.origin(fp[0][1]['args'][1]), lambda x: is_call(x, name='empty')) and term_contains(pl.origin(fp[0][1]['args'][0]), lambda x: is_call(x, pat='Status::into_http'))
        else:
            for bb_, t_ in pl.calls(name='map'):
                if 'Response' in (t_.get('fn') or '') and is_call(strip_refs(pl.origin(t_['args'][0])), pat='Status::into_http'):
                    clo = strip_refs(pl.origin(t_['args'][1]))
                    if clo[0] == 'agg' and 'def' in clo[1]:
                        cb_ = [y for y in tonic.bodies if y.path == clo[1]['def']]
                        okb = bool(cb_) and all(is_call(strip_refs(x_), name='empty') for _, x_ in mirlib.returned_terms(cb_[0]))
        R.check(len(em) == 1 and okb, 'C12.R2', 'poll:parts+empty-body', site(pl), 'response = the head of Status::into_http with ResponseBody::empty() (empty() sites %d)' % len(em))
        polls = pl.calls(pat='Future::poll')
        for bb, t in polls:
            g = pl.edge_guards(bb)
            R.check(any(show(tm).startswith('discr(') and vals == [kadt['Future']] for s, vals, tm in g), 'C12.R2', 'poll:future-only-on-future-kind', site(pl, bb), 'inner future polled only for Kind::Future')
        R.floor('C12.R2', 'future polls', len(polls), 1)
        eb = tonic.body(re.compile(r'service::interceptor::ResponseBody<B> as http_body::Body>::poll_frame$'))
        R.saw(eb)
        radt = {v['name']: v['discr'] for v in tonic.adt('service::interceptor::ResponseBodyKind')['variants']}
        okn = False
        for bb in writers_of(eb, 0):
            for w in block_writes(eb, bb, 0):
                if w[0] == 'variant' and w[2] == 'Ready' and strip_refs(w[3][0])[0] == 'agg' and strip_refs(w[3][0])[1].get('variant') == 'None':
                    okn = any(vals == [radt['Empty']] for s, vals, tm in eb.edge_guards(bb))
        R.check(okn, 'C12.R2', 'empty-body-yields-nothing', site(eb), 'ResponseBodyKind::Empty -> Ready(None)')

    # the rejecting status reaches the caller whole: Status::into_http -> to_header_map -> add_header (shared writer)
    with R.guard('C12.R2', 'status-writer'):
        import C04
        C04.check_status_writer(R, tonic, 'C12.R2')

    # ---------------------------------------------------------------- R5 type-level witnesses (E4)
    R.describe('C12.R5', 'compile-fail witnesses: an interceptor is a function of Request<()> — it cannot name, read or replace the request body; '
                         'Request::into_http / SanitizeHeaders (the un-sanitised conversion used for the interceptor output) are not reachable from outside tonic')
    with R.guard('C12.R5', 'witness'):
        import witness
        U = ['use tonic::{Request, Status};', 'fn takes_interceptor<I: tonic::service::Interceptor>(_i: I) {}']
        W = [
            dict(id='interceptor_sees_unit_body', code='E0631', common=U, what='a closure over Request<Vec<u8>> is not an Interceptor',
                 fail=['takes_interceptor(|r: Request<Vec<u8>>| -> Result<Request<Vec<u8>>, Status> { Ok(r) });'],
                 twin=['takes_interceptor(|r: Request<()>| -> Result<Request<()>, Status> { Ok(r) });']),
            dict(id='interceptor_cannot_return_other_body', code='E0271', common=U, what='an interceptor must give back Request<()>',
                 fail=['takes_interceptor(|r: Request<()>| -> Result<Request<u8>, Status> { Ok(r.map(|_| 0u8)) });'],
                 twin=['takes_interceptor(|r: Request<()>| -> Result<Request<()>, Status> { Ok(r.map(|_| ())) });']),
            dict(id='interceptor_body_is_unit', code='E0308', common=U, what='what an interceptor can take out of its request is ()',
                 fail=['takes_interceptor(|r: Request<()>| -> Result<Request<()>, Status> { let _b: Vec<u8> = r.into_inner(); Err(Status::ok("")) });'],
                 twin=['takes_interceptor(|r: Request<()>| -> Result<Request<()>, Status> { let _b: () = r.into_inner(); Err(Status::ok("")) });']),
            dict(id='into_http_not_public', code='E0624', common=U, what='Request::into_http (with its SanitizeHeaders switch) is crate-private',
                 fail=['let _ = Request::new(()).into_http(http::Uri::default(), http::Method::POST, http::Version::HTTP_2, todo!());'],
                 twin=['let _ = Request::new(()).into_parts();']),
        ]
        n = witness.run_witnesses(R, 'C12.R5', W)
        R.floor('C12.R5', 'witness programs type-checked', n, 2 * len(W))
