#!/bin/sh
# Build the fact extractor (offline) and warm the shared cargo target dir so the first check is fast.
set -e
cd "$(dirname "$0")"
export CARGO_NET_OFFLINE=true
(cd engine/factgen && cargo build --release --offline)
python3 - <<'PY'
import sys
sys.path.insert(0, 'rules')
import extract
for cfg in ('full', 'plain'):
    d, dig, s = extract.ensure('/repo', '.', cfg) if False else extract.ensure('/repo', __import__('os').path.abspath('.'), cfg)
    print('facts', cfg, d, '%.1fs' % s)
PY
# warm the target dir of the compile-fail witnesses (C08.R7, C12.R5): builds tonic once under cargo +nightly test --doc
./check C12 --no-evidence > /dev/null 2>&1 || true
